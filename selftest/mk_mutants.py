#!/venv/bin/python
"""Validate candidate mutants against the current checkers and write /verif/selftest/mutants.json with those whose expectation holds."""
import sys, os, json
sys.path.insert(0, '/verif')
from sa import mut
from sa.engine import parallel_map

C = []
def m(prop, mid, module, old, new, expect, note=''):
    C.append(dict(property=prop, id=mid, module=module, old=old, new=new, expect=expect, note=note))

# ---------------------------------------------------------------- C01
m('C01', 'c01-no-tail', 'fst_misc', "self._put_src(put_lines, end_ln, end_col, end_ln, end_col, True, True, self, offset_excluded=False)",
  "self._put_src(put_lines, end_ln, end_col, end_ln, end_col)", 'R1.1', 'closing parenthesis spliced without offsetting')
m('C01', 'c01-plain-str-line', 'fst_core', "            lines[ln] = bistr(indent + l)\n", "            lines[ln] = indent + l\n", 'R1.2', 'plain str stored into the live line list')
m('C01', 'c01-bistr-fstring', 'fst_core', "            lines[ln] = bistr(indent + l)\n", "            lines[ln] = bistr(f'{indent}{l}')\n", 'silent', 'same value, other spelling')
m('C01', 'c01-soc-drop-field', 'astutil', "    Assign:             lambda ast: [*ast.targets, ast.value],", "    Assign:             lambda ast: [*ast.targets],", 'R1.4', 'Assign.value never offset / flushed')
# ---------------------------------------------------------------- C02
m('C02', 'c02-no-touch-start-pos', 'fst_core', "            a.col_offset = col_offset\n\n        self._touch()  # even if", "            a.col_offset = col_offset\n\n        pass  # even if", 'R2.1')
m('C02', 'c02-touch-as-clear', 'fst_core', "            a.col_offset = col_offset\n\n        self._touch()  # even if", "            a.col_offset = col_offset\n\n        self._cache.clear()  # even if", 'silent', 'same flush, inline form')
m('C02', 'c02-set-loc-whole-no-touch', 'fst_put_slice', "    ast.end_col_offset = lines[-1].lenbytes\n\n    return self._touch()", "    ast.end_col_offset = lines[-1].lenbytes\n\n    return self", 'R2.1')
m('C02', 'c02-read-between', 'fst_misc', "    self._offset(*self._put_src([delims[0]], ln, col, ln, col, False, False, self), self_=False)\n\n    ast.lineno = ln + 1",
  "    self._offset(*self._put_src([delims[0]], ln, col, ln, col, False, False, self), self_=False)\n    self.pars()\n    ast.lineno = ln + 1", 'R2.1', 'query between the flush and the store repopulates the memo')
m('C02', 'c02-no-reindex', 'fst_get_slice', "        for i in range(start, len(body)):\n            body[i].f.pfield = astfield(field, i)\n\n    return asts", "    return asts", 'R2.2b')
m('C02', 'c02-wrong-field', 'fst_get_slice', "                kw_defaults[i].f.pfield = astfield('kw_defaults', i)", "                kw_defaults[i].f.pfield = astfield('kwonlyargs', i)", 'R2.2a')
m('C02', 'c02-wrong-index', 'fst_put_slice', "        body[i].f.pfield = astfield(field, i)\n\n\ndef _put_slice_asts2", "        body[i].f.pfield = astfield(field, i - 1)\n\n\ndef _put_slice_asts2", 'R2.2a')
m('C02', 'c02-new-memo-attr', 'fst_core', "def _touch(self: fst.FST) -> fst.FST:  # -> self", "def _remember(self: fst.FST, v) -> None:\n    self._loc_memo = v\n\n\ndef _touch(self: fst.FST) -> fst.FST:  # -> self", 'R2.3a')
m('C02', 'c02-new-no-cache-reset', 'fst', "        self._cache = {}  # this is same", "        pass  # ", 'R2.3d')
m('C02', 'c02-parents-conditional', 'fst_core', "        while parent := parent.parent:\n            parent._cache.clear()", "        while (parent := parent.parent) and parent.is_stmt:\n            parent._cache.clear()", 'R2.3d')
m('C02', 'c02-lru-cache', 'fst_core', "def _touch(self: fst.FST) -> fst.FST:  # -> self", "import functools\n\n@functools.lru_cache\ndef _memo_loc(f):\n    return f.loc\n\n\ndef _touch(self: fst.FST) -> fst.FST:  # -> self", 'R2.3c')
m('C02', 'c02-view-no-refresh', 'view', "        start, stop, _ = self._base_indices()\n\n        if stop - start != 1:", "        start, stop = self._start, self._stop\n\n        if stop - start != 1:", 'R2.4')
m('C02', 'c02-zero-delta-no-flush', 'fst_core', "        self._touchall()  # this function does double duty", "        pass  # ", 'R2.5')
m('C02', 'c02-put-src-no-parents', 'fst', "            self._touchall(True, True, False)  # touch parents to clear bloc", "            self._touch()  # ", 'R2.6')
m('C02', 'c02-unpar-inplace-open', 'fst_misc', "        self._put_src(None, pln, pcol, ln, col, False)\n        self._fix_joined_alnums(pln, pcol, lines=lines)\n        self._touch()\n",
  "        lines[pln] = bistr(lines[pln][:pcol] + ' ' + lines[pln][pcol + 1:])\n        self._touch()\n", 'R2.7', 'opening parenthesis overwritten in place: ancestors not flushed (483da4f)')
m('C02', 'c02-unpar-inplace-open-no-touch', 'fst_misc', "        self._put_src(None, pln, pcol, ln, col, False)\n        self._fix_joined_alnums(pln, pcol, lines=lines)\n        self._touch()\n",
  "        lines[pln] = bistr(lines[pln][:pcol] + ' ' + lines[pln][pcol + 1:])\n", 'R2.7', 'opening parenthesis overwritten in place: nothing flushed')
m('C02', 'silent-unpar-inplace-touchall', 'fst_misc', "        self._put_src(None, pln, pcol, ln, col, False)\n        self._fix_joined_alnums(pln, pcol, lines=lines)\n        self._touch()\n",
  "        lines[pln] = bistr(lines[pln][:pcol] + ' ' + lines[pln][pcol + 1:])\n        self._touchall(True, True, False)\n", 'silent', 'in-place store with self and all ancestors flushed (the positions clause is value level)')
m('C10', 'c10-scratch-is-live', 'fst_raw', "root._lines[:],  # fallback to reparse all source", "root._lines,  # fallback to reparse all source", 'R10.4', 'the reparse scribbles on the live lines before parsing')
m('C10', 'silent-scratch-list-copy', 'fst_raw', "root._lines[:],  # fallback to reparse all source", "list(root._lines),  # fallback to reparse all source", 'silent', 'another spelling of the copy')
m('C18', 'c18-dirty-conditional', 'match', "            dirty.update(walk(repl_.a))  # by default", "            if paths:\n                dirty.update(walk(repl_.a))  # by default", 'R18.7', 'template nodes not marked for slot-less templates')
m('C18', 'silent-dirty-loop-form', 'match', "            dirty.update(walk(repl_.a))  # by default", "            for a_ in walk(repl_.a):\n                dirty.add(a_)\n            pass  # by default", 'silent', 'same marking as a loop')
m('C20', 'c20-options-captured-at-import', 'fst_options', "_OPTIONS = _ThreadOptions()\n", "_OPTIONS = _ThreadOptions()\n_DEFAULTS_NOW = _OPTIONS.__dict__\n", 'R20.11', 'thread-local dict of the importing thread captured')
m('C20', 'silent-options-lambda', 'fst_options', "_OPTIONS = _ThreadOptions()\n", "_OPTIONS = _ThreadOptions()\n_defaults_now = lambda: _OPTIONS.__dict__\n", 'silent', 'dereferenced at call time')
m('C01', 'c01-elif-without-owner-test', 'slice_stmtlike', "b[0].__class__ is If and tgt_fst.a.__class__ is If)", "b[0].__class__ is If)", 'R1.8', 'elif written into the else of a for / while / try')
m('C12', 'c12-except-star-not-refused-first', 'fst_put_one', "        if self.is_except_star():  # this is also checked in the info func, but we need to know now because can't delete type from this\n            raise ValueError('cannot delete ExceptHandler.type from except*')\n\n", "", 'R12.3', 'premise of the reviewed entry removed')
m('C03', 'c03-view-snapshot', 'view', "        self._start = start\n        self._stop = stop\n", "        self._start = start\n        self._stop = stop\n        self._len0 = len(getattr(base.a, field, ()))\n", 'R3.10', 'a second coordinate computed from the tree')
m('C03', 'silent-view-plain-attr', 'view', "        self._start = start\n        self._stop = stop\n", "        self._start = start\n        self._stop = stop\n        self._tag = None\n", 'silent', 'an attribute that is not computed from the tree')
m('C02', 'c02-memo-key-drops-param', 'fst_misc', "    key = f'isdelseq{field}{delims}'\n", "    key = f'isdelseq{field}'\n", 'R2.9', 'two delimiter questions share one memo slot')
m('C03', 'c03-view-idx-as-base', 'view', "            self.base = self.base._put_one(code, start + idx_start, self.field, ret_child=False)", "            self.base = self.base._put_one(code, idx_start, self.field, ret_child=False)", 'R3.5')
m('C03', 'c03-base-clipped-at-zero', 'view', "                self._stop = max(start, stop - 1)", "                self._stop = max(0, stop - 1)", 'R3.5')
m('C03', 'c03-view-idx-renamed', 'view', "            self.base = self.base._put_one(code, start + idx_start, self.field, ret_child=False)", "            base_idx = start + idx_start\n            self.base = self.base._put_one(code, base_idx, self.field, ret_child=False)", 'silent', 'same index through a local')
# ---------------------------------------------------------------- C04
m('C04', 'c04-lns-range', 'fst_core', "        lns = self._get_indentable_lns(skip, docstr=docstr, docstr_strict_exclude=docstr_strict_exclude)\n\n    if not lns:\n        return\n\n    lines = root._lines\n    dont_offset",
  "        lns = set(range(self.bln + skip, self.bend_ln + 1))\n\n    if not lns:\n        return\n\n    lines = root._lines\n    dont_offset", 'R4.2a')
m('C04', 'c04-no-tstr-arm', 'fst_core', "        elif a_cls in (JoinedStr, TemplateStr):\n            lns.difference_update", "        elif a_cls is JoinedStr:\n            lns.difference_update", 'R4.2c')
m('C04', 'c04-explicit-lns', 'slice_stmtlike', "    self._indent_lns(skip=0, docstr=docstr)", "    self._indent_lns(None, set(range(self.bln, self.bend_ln + 1)), docstr=docstr)", 'R4.2b')
m('C04', 'c04-explicit-lns-ok', 'slice_stmtlike', "    self._indent_lns(skip=0, docstr=docstr)", "    self._indent_lns(None, self._get_indentable_lns(0, docstr=docstr), docstr=docstr)", 'silent', 'explicit but derived from the indentable set')
m('C04', 'c04-unparse-self', 'fst_put_one', "    put_fst._indent_lns(self._get_block_indent(), docstr=False)", "    put_fst._indent_lns(self._get_block_indent(), docstr=False)\n    self._put_src(unparse(self.a), *self.loc, True)", 'R4.1')
m('C04', 'c04-dead-comment-guard', 'slice_stmtlike', "if frag := prev_frag(lines, new_del_ln, new_del_col, new_del_ln, 0x7fffffffffffffff, True, False):", "if frag := prev_frag(lines, new_del_ln, new_del_col, new_del_ln, 0x7fffffffffffffff, False, False):", 'R4.3b')
# ---------------------------------------------------------------- C05
m('C05', 'c05-lineno-fixup', 'parsex', "    ast = _ExceptHandlers(handlers=ast.handlers, **_astloc_from_src(src, 2))\n\n    return _offset_linenos(ast, -1)", "    ast = _ExceptHandlers(handlers=ast.handlers, **_astloc_from_src(src, 2))\n\n    return _offset_linenos(ast, -2)", 'R5.2')
m('C05', 'c05-orelse-unchecked', 'parsex', "    if ast.orelse:\n        raise ParseError(\"not expecting 'else' block\")\n\n    ast = _ExceptHandlers(", "    ast = _ExceptHandlers(", 'R5.3', 'else block after the handlers silently dropped')
# ---------------------------------------------------------------- C06
m('C06', 'c06-char-into-byte', 'fst_core', "            a.col_offset = col_offset\n\n        self._touch()  # even if", "            a.col_offset = self.col\n\n        self._touch()  # even if", 'R6.1')
m('C06', 'c06-nonlex-compare', 'traverse_prev', "or (argn.lineno, argn.col_offset) < (kwn.lineno, kwn.col_offset)", "or argn.lineno < kwn.lineno or argn.col_offset < kwn.col_offset", 'R6.5')
m('C06', 'c06-lex-compare-guarded', 'traverse_prev', "or (argn.lineno, argn.col_offset) < (kwn.lineno, kwn.col_offset)", "or argn.lineno < kwn.lineno or (argn.lineno == kwn.lineno and argn.col_offset < kwn.col_offset)", 'silent', 'lexicographic order spelled out')
# ---------------------------------------------------------------- C09
m('C09', 'c09-compr-iter', 'astutil', "    (comprehension, 'iter'):      _Precedence.TEST.next(),", "    (comprehension, 'iter'):      _Precedence.TEST,", 'R9.1', "the property's own example")
m('C09', 'c09-bare-endswith', 'fst_core', "            if not _re_line_end_cont.match(lines[ln], last_col):\n                if out_lns is None:\n                    return False\n\n                else:\n                    failed = True\n\n                    out_lns.add(ln)\n\n            last_col = 0",
  "            if not lines[ln].endswith('\\\\', last_col):\n                if out_lns is None:\n                    return False\n\n                else:\n                    failed = True\n\n                    out_lns.add(ln)\n\n            last_col = 0", 'R9.4')
# ---------------------------------------------------------------- C12
m('C12', 'c12-store-before-raise', 'fst_core', "            if fst_ is not nesting[0] and not force:\n                raise RuntimeError('nested modification of different nodes not allowed')\n\n            _MODIFYING[root] = (nesting[0], nesting[1] + 1)",
  "            _MODIFYING[root] = (nesting[0], nesting[1] + 1)\n\n            if fst_ is not nesting[0] and not force:\n                raise RuntimeError('nested modification of different nodes not allowed')", 'R12.2')
# ---------------------------------------------------------------- C15
m('C15', 'c15-no-reread', 'fst_traverse', "                if not (ast := fst_.a):  # has been deleted by the player (if replaced then this FST node will still exist but the .a will have changed)\n                    continue\n", "", 'R15.1')
m('C15', 'c15-half-unmake', 'fst_core', "                f.a = a.f = None  # parent and pfield are still useful", "                f.a = None  # parent and pfield are still useful", 'R15.3')
# ---------------------------------------------------------------- C17
m('C17', 'c17-missing-discard', 'match', "            if m is None:\n                return mstate.discard_tagss()\n\n            if pat_tag := self.pat_tags[i]:", "            if m is None:\n                return None\n\n            if pat_tag := self.pat_tags[i]:", 'R17.1')
# ---------------------------------------------------------------- C18
m('C18', 'c18-slot-table-row', 'match', "    Attribute:        _sub_repl_path_Attribute,\n", "", 'R18.1')
m('C18', 'c18-template-consumed', 'match', "            repl_ = repl.copy()  # this is duplication of repl template so no options needed", "            repl_ = repl  # ", 'R18.2')
m('C18', 'c18-budget-not-restored', 'match', "                        continue\n\n                loop = loop_start\n", "                        continue\n\n                else:\n                    loop = loop_start\n", 'R18.4')
# ---------------------------------------------------------------- C20
m('C20', 'c20-update-before-validate', 'fst_options', "    check_options(options, False)\n\n    _options = _OPTIONS.__dict__\n", "    _options = _OPTIONS.__dict__\n    _options.update(options)\n    check_options(options, False)\n", 'R20.3')
m('C20', 'c20-no-finally', 'fst_options', "    try:\n        yield MappingProxyType(old_options)  # if user messed with these it could get confusing\n    finally:\n        _OPTIONS.__dict__.update(old_options)", "    yield MappingProxyType(old_options)\n    _OPTIONS.__dict__.update(old_options)", 'R20.4')
# ---------------------------------------------------------------- C07
m('C07', 'c07-copy-cuts', 'fst', "            return parent._get_one((pf := self.pfield).idx, pf.name, False, options)\n\n        lines = self._lines", "            return parent._get_one((pf := self.pfield).idx, pf.name, True, options)\n\n        lines = self._lines", 'R7.3')
m('C07', 'c07-view-copy-cuts', 'view', "        return self.base.get_slice(start, stop, self.field, cut=False, **options)", "        return self.base.get_slice(start, stop, self.field, cut=True, **options)", 'R7.3')

# ---------------------------------------------------------------- second batch
m('C03', 'c03-raw-index-use', 'fst_get_slice', "    body = ast.elts\n    len_body = len(body)\n    start, stop = fixup_slice_indices(len_body, start, stop)\n\n    if start == stop:", "    body = ast.elts\n    len_body = len(body)\n    first = body[start]\n    start, stop = fixup_slice_indices(len_body, start, stop)\n\n    if start == stop:", 'R3.1', 'raw index used before normalisation')
m('C03', 'c03-get-handler-row-lost', 'fst_get_one', "    (Delete, 'targets'):                  _get_one_default,  # expr*\n", "", 'R3.3a', 'row lost in a merge')
m('C14', 'c14-next-wrong-field', 'traverse_next', "def _next_Assign_targets(ast: AST, idx: int | None) -> _NextPrevRet:\n    if (idx := idx + 1) < len(a := ast.targets):\n        return a[idx].f\n\n    return ast.value.f", "def _next_Assign_targets(ast: AST, idx: int | None) -> _NextPrevRet:\n    if (idx := idx + 1) < len(a := ast.targets):\n        return a[idx].f\n\n    return None", 'R14.1c', 'successor automaton skips Assign.value')
m('C14', 'c14-soc-swapped', 'astutil', "    Raise:              lambda ast: [ast.exc, ast.cause],", "    Raise:              lambda ast: [ast.cause, ast.exc],", 'R14.1a')
m('C11', 'c11-soc-swapped', 'astutil', "    Raise:              lambda ast: [ast.exc, ast.cause],", "    Raise:              lambda ast: [ast.cause, ast.exc],", 'R11.1')
m('C16', 'c16-binder-dropped', 'fst', "                                                                   Global, ExceptHandler, MatchAs, MatchStar,\n", "                                                                   Global, MatchAs, MatchStar,\n", 'R16.2', 'except ... as name no longer reported')
m('C10', 'c10-mutate-before-parse', 'fst_raw', "    root = self.root\n\n    try:\n        copy_root = fst.FST.fromsrc(copy_root.src, mode or 'exec', **root._parse_params)", "    root = self.root\n    root._put_src(new_lines, ln, col, end_ln, end_col, True)\n\n    try:\n        copy_root = fst.FST.fromsrc(copy_root.src, mode or 'exec', **root._parse_params)", 'R10.1')
m('C10', 'c10-no-raw-lock', 'fst', "            with parent._modifying(False, True):\n                return parent._reparse_raw(code, ln, col, end_ln, end_col)", "            return parent._reparse_raw(code, ln, col, end_ln, end_col)", 'R10.3')
m('C12', 'c12-del-after-call', 'fst_core', "        del _MODIFYING[root]\n\n        if fst_ is False:", "        if fst_ is False:", 'R12.2', 'success() no longer releases the registry entry first')
m('C20', 'c20-not-thread-local', 'fst_options', "class _ThreadOptions(threading.local):", "class _ThreadOptions:", 'R20.2')
m('C06', 'c06-loc-func-missing', 'fst', "    withitem:      _loc_withitem,\n", "", 'R6.2')
m('C09', 'c09-unpar-unconditional', 'fst_put_one', "                if not need_pars(False):\n                    put_fst._unparenthesize_grouping(False)", "                put_fst._unparenthesize_grouping(False)", 'R9.3')
m('C17', 'c17-no-clear', 'match', "        for f in gen:\n            mstate.clear()\n\n            if (m := match_func(pat, f.a, mstate)) is None:", "        for f in gen:\n            if (m := match_func(pat, f.a, mstate)) is None:", 'R17.3')

# ---------------------------------------------------------------- behaviour-preserving rewrites (must stay silent)
m('C15', 'silent-unmake-renamed', 'fst_core', "            if f := getattr(a, 'f', None):\n                f.a = a.f = None  # parent and pfield", "            if fnode := getattr(a, 'f', None):\n                fnode.a = None\n                a.f = None  # parent and pfield", 'silent', 'renamed local, split chained assignment')
m('C05', 'silent-fromsrc-renamed', 'fst', "        if isinstance(src, str):\n            lines = src.split('\\n')\n        else:\n            lines = src\n            src = '\\n'.join(lines)\n\n        parse_params = dict(filename=filename, type_comments=type_comments, feature_version=feature_version)\n        ast = parsex.parse(src, mode or 'exec', parse_params)\n\n        return FST(ast, lines, None, parse_params=parse_params)",
  "        if isinstance(src, str):\n            ls = src.split('\\n')\n        else:\n            ls = src\n            src = '\\n'.join(ls)\n\n        parse_params = dict(filename=filename, type_comments=type_comments, feature_version=feature_version)\n        tree = parsex.parse(src, mode or 'exec', parse_params)\n\n        return FST(tree, ls, None, parse_params=parse_params)", 'silent', 'renamed locals')
m('C02', 'silent-offset-touch-call', 'fst_core', "            f._cache.clear()  # f._touch()\n\n            if (fend_colo := getattr(a, 'end_col_offset', None)) is not None:", "            f._touch()\n\n            if (fend_colo := getattr(a, 'end_col_offset', None)) is not None:", 'silent', 'method form of the same flush')
m('C11', 'silent-offset-touch-call', 'fst_core', "            f._cache.clear()  # f._touch()\n\n            if (fend_colo := getattr(a, 'end_col_offset', None)) is not None:", "            f._touch()\n\n            if (fend_colo := getattr(a, 'end_col_offset', None)) is not None:", 'silent', 'method form of the same flush')
m('C02', 'silent-touchall-touch-calls', 'fst_core', "            child.f._cache.clear()  # child.f._touch()", "            child.f._touch()", 'silent', 'method form of the same flush')
m('C17', 'silent-discard-pop', 'match', "        del self.all_tagss[-1]\n\n        return None", "        self.all_tagss.pop()\n\n        return None", 'silent', 'pop() instead of del [-1]')
m('C20', 'silent-set-options-renamed', 'fst_options', "    _options = _OPTIONS.__dict__\n\n    try:\n        old_options = {(bad := o): _options[o] for o in options}\n    except KeyError:\n        raise ValueError(f'invalid option {bad!r}') from None\n\n    _options.update(options)\n\n    return old_options",
  "    store = _OPTIONS.__dict__\n\n    try:\n        previous = {(bad := o): store[o] for o in options}\n    except KeyError:\n        raise ValueError(f'invalid option {bad!r}') from None\n\n    store.update(options)\n\n    return previous", 'silent', 'renamed locals')
m('C18', 'silent-subn-renamed-template-copy', 'match', "            repl_ = repl.copy()  # this is duplication of repl template so no options needed\n\n            dirty.update(walk(repl_.a))", "            repl_ = repl.copy()\n            dirty.update(walk(repl_.a))", 'silent', 'layout only')
m('C12', 'silent-unpar-guarded-enter', 'fst', "                modifying = self._modifying().enter()\n\n                self._unparenthesize_grouping(shared)", "                modifying = modifying or self._modifying().enter()\n\n                self._unparenthesize_grouping(shared)", 'silent', 'guarded form on the first enter as well')
m('C16', 'silent-walk-comp-renamed', 'fst_traverse', "            elif a.__class__ is Lambda:  # a Lambda is its own scope", "            elif (a_cls := a.__class__) is Lambda:  # a Lambda is its own scope", 'silent', 'walrus-bound class')
m('C03', 'silent-view-stop-else', 'view', "            self.base = self.base._put_one(code, start + idx_start, self.field, ret_child=False)\n\n            if self._stop is not None:\n                self._stop += self._len_field() - len_before",
  "            self.base = self.base._put_one(code, start + idx_start, self.field, ret_child=False)\n\n            if self._stop is None:\n                pass\n            else:\n                self._stop += self._len_field() - len_before", 'silent', 'inverted test')
m('C09', 'silent-bool-wrapper-set', 'fst_put_slice', "        or ast__cls in (NamedExpr, Yield, YieldFrom, IfExp, Lambda)\n", "        or ast__cls in {NamedExpr, Yield, YieldFrom, IfExp, Lambda}\n", 'silent', 'set instead of tuple')
m('C06', 'silent-clip-hoisted-right', 'fst_misc', "    if end_col == 'end':\n        end_col = len(lines[end_ln])\n    elif end_col < 0:\n        end_col = max(0, end_col + len(lines[end_ln]))\n    else:\n        end_col = min(end_col, len(lines[end_ln]))",
  "    len_end_line = len(lines[end_ln])\n\n    if end_col == 'end':\n        end_col = len_end_line\n    elif end_col < 0:\n        end_col = max(0, end_col + len_end_line)\n    else:\n        end_col = min(end_col, len_end_line)", 'silent', 'correct hoisting of the end line length')
m('C04', 'silent-indent-renamed', 'fst_core', "    for ln in lns:\n        if l := lines[ln]:  # only indent non-empty lines\n            lines[ln] = bistr(indent + l)\n        else:\n            dont_offset.add(ln)", "    for i in lns:\n        if l := lines[i]:  # only indent non-empty lines\n            lines[i] = bistr(indent + l)\n        else:\n            dont_offset.add(i)", 'silent', 'renamed loop variable')
m('C10', 'silent-raw-renamed', 'fst_raw', "        copy = copy_root.child_from_path(path)\n\n        if not copy:\n            raise RuntimeError('could not find node after reparse')  # pragma: no cover", "        if not (copy := copy_root.child_from_path(path)):\n            raise RuntimeError('could not find node after reparse')  # pragma: no cover", 'silent', 'walrus form, still before the splice')
m('C07', 'silent-copy-kw', 'fst', "            return parent._get_one((pf := self.pfield).idx, pf.name, False, options)\n\n        lines = self._lines", "            pf = self.pfield\n\n            return parent._get_one(pf.idx, pf.name, False, options)\n\n        lines = self._lines", 'silent', 'walrus unrolled')
m('C14', 'silent-walk-reverse-form', 'astutil', "    Raise:              lambda ast: [ast.exc, ast.cause],", "    Raise:              lambda ast: [ast.exc, ast.cause, ],", 'silent', 'trailing comma')
m('C01', 'silent-put-src-kw-tail', 'fst_misc', "self._put_src(put_lines, end_ln, end_col, end_ln, end_col, True, True, self, offset_excluded=False)", "self._put_src(put_lines, end_ln, end_col, end_ln, end_col, tail=True, head=True, exclude=self, offset_excluded=False)", 'silent', 'keyword form of the same call')


m('C07', 'c07-cut-no-matchor-fix', 'fst_get_slice', "    if cut:\n        _fix_MatchOr(self, norm_self)\n\n    return fst_", "    return fst_", 'R7.5', 'cut leaves a one-pattern MatchOr the delete would have normalised')
m('C07', 'c07-cut-with-fix-dropped', 'fst_get_slice', "        else:\n            _fix_With_items(self)  # if we wound up", "        else:\n            pass  # if we wound up", 'R7.5', 'the repaired defect re-introduced')
m('C07', 'silent-cut-fix-hoisted', 'fst_get_slice', "    _fix_MatchOr(fst_, norm_get)\n\n    if cut:\n        _fix_MatchOr(self, norm_self)\n\n    return fst_", "    if cut:\n        _fix_MatchOr(self, norm_self)\n\n    _fix_MatchOr(fst_, norm_get)\n\n    return fst_", 'silent', 'same repairs, other order')
m('C09', 'c09-star-owner-dropped', 'fst_put_one', "            if put_is_star and not adding and not put_ast.value.f._is_enclosed_or_line(check_pars=False):  # pars of a Starred belong to its value so that is what has to be checked without them\n                return True\n\n", "", 'R9.6', 'the repaired defect re-introduced')
m('C09', 'silent-star-owner-ternary', 'fst_put_one', "            if not put_fst._is_enclosed_or_line(check_pars=adding):\n                return True\n\n            if put_is_star and not adding and not put_ast.value.f._is_enclosed_or_line(check_pars=False):  # pars of a Starred belong to its value so that is what has to be checked without them\n                return True\n",
  "            if not put_fst._is_enclosed_or_line(check_pars=True):\n                return True\n\n            if not adding and not (put_ast.value.f if put_is_star else put_fst)._is_enclosed_or_line(check_pars=False):\n                return True\n", 'silent', 'owner selected by a conditional expression')
m('C11', 'c11-modifying-none', 'fst', "            with parent._modifying(False, True):", "            with parent._modifying(None, True):", 'R11.4', 'None for the False sentinel')
m('C11', 'silent-modifying-kw', 'fst', "            with parent._modifying(False, True):", "            with parent._modifying(field=False, raw=True):", 'silent', 'keyword form')
m('C03', 'c03-end-caps', 'fst', "        return self._put_slice(code, 'end', 'end', field, True, options)", "        return self._put_slice(code, 'END', 'end', field, True, options)", 'R3.9', 'misspelt sentinel')
m('C03', 'silent-end-local', 'fst', "        return self._put_slice(code, 'end', 'end', field, True, options)", "        at = 'end'\n\n        return self._put_slice(code, at, at, field, True, options)", 'silent', 'sentinel through a local')
m('C04', 'silent-docstr-none', 'fst_put_one', "    put_fst._indent_lns(self._get_block_indent(), docstr=False)", "    put_fst._indent_lns(self._get_block_indent(), docstr=None)", 'silent', 'None for False where the callee only tests truthiness')
m('C04', 'c04-docstr-caps', 'fst_put_one', "    put_fst._indent_lns(self._get_block_indent(), docstr=False)", "    put_fst._indent_lns(self._get_block_indent(), docstr='Strict')", 'R4.4', 'misspelt mode')
m('C12', 'c12-passthrough-no-root', 'fst_put_slice', "        if codea is not code:  # is FST\n            if code.parent:  # not code.is_root\n                raise ValueError('expecting root node')\n\n            fst_ = code\n            ast_ = codea\n\n            if fst_.is_parenthesized_tuple() is False:", "        if codea is not code:  # is FST\n            fst_ = code\n            ast_ = codea\n\n            if fst_.is_parenthesized_tuple() is False:", 'R12.7', 'the repaired defect re-introduced')
m('C12', 'silent-passthrough-is-root', 'fst_put_slice', "        if codea is not code:  # is FST\n            if code.parent:  # not code.is_root\n                raise ValueError('expecting root node')\n\n            fst_ = code\n            ast_ = codea\n\n            if fst_.is_parenthesized_tuple() is False:", "        if codea is not code:  # is FST\n            fst_ = code\n\n            if not fst_.is_root:\n                raise ValueError('expecting root node')\n\n            ast_ = codea\n\n            if fst_.is_parenthesized_tuple() is False:", 'silent', 'check right after the adoption, before any use')
def run(c):
    os.environ['PFST_VERIF_JOBS'] = '1'
    try:
        code, fs = mut.run_with(c['property'], c['module'], c['old'], c['new'])
    except AssertionError:
        return 'stale', []
    rules = sorted({f.split('rule=')[1].split()[0] for f in (fs or []) if 'rule=' in f})
    return code, rules


if __name__ == '__main__':
    only = sys.argv[1:]
    cands = [c for c in C if not only or c['property'] in only]
    res = parallel_map(run, cands)
    good = []
    for c, (code, rules) in zip(cands, res):
        exp = c['expect']
        ok = (exp == 'silent' and code == 0) or (exp != 'silent' and exp in rules)
        print(('OK   ' if ok else 'FAIL '), c['id'], 'expect', exp, '-> exit', code, rules)
        if ok:
            good.append(c)
    if not only:
        os.makedirs('/verif/selftest', exist_ok=True)
        json.dump({'mutants': good}, open('/verif/selftest/mutants.json', 'w'), indent=1)
        print(len(good), 'written')
