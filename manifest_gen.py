#!/venv/bin/python
"""Regenerates /verif/MANIFEST.json from the table below (kept in one place so the manifest is always valid)."""
import json
import os

HERE = os.path.dirname(os.path.abspath(__file__))

# property -> (technique, level text, level note, design ref)
CLAIMED = {
    'C01': ('who-may-call / argument discipline on the single text primitive (_put_src must offset unless the receiver is not derived from '
            'the target); flow-sensitive must-be-bistr dataflow for every value stored into or adopted as a live line list; table '
            'exhaustiveness of put handlers and of the syntax-order child table against the grammar; interprocedural def-use of the expression-context argument on every call path from the handlers of context-inheriting positions (Starred.value, Tuple.elts, List.elts) to the node constructor',
            'Static: decides four disciplines without which text and tree cannot stay in step: every splice of a live tree offsets '
            'positions, every live source line is a byte-indexable bistr, every grammar position has a working put path, and every '
            'child is enumerated (in order) by the offset / flush / make / unmake walks; plus: a child put into a position that inherits its container\'s expression context gets that context from the tree, not from a constant. Re-parse equality itself is value-level '
            'and not decided.',
            'Trusts derivation of receivers from `self` (sa/effects.py) and the two reviewed no-offset sites in sa/rules/c01.py.',
            'DESIGN.md §2 C01'),
    'C02': ('typestate of the per-node memo around every position store (memo-empty / pending-flush, element vs container flushes, '
            'rebinding), must-reach re-index after child-list surgery and field/index agreement of every parent link, single-memo '
            'attribute discipline, dominance of view index refresh, dominance of the memo clear over the early exits of the offset walk; must-pass obligation (per-function CFG, handed up the caller chains) from every re-indentation of docstring-bearing lines of a live tree to the re-evaluation of docstring values',
            'Static: decides the "no stale cached answer / no stale link" discipline: a node whose position is written is flushed '
            '(or provably has an empty memo), shifted siblings are re-indexed with the right field and index, there is exactly one '
            'memo and it is cleared wholesale and unconditionally, views re-clip before using raw indices, the offset walk flushes what '
            'it visits, non-offsetting splices flush all ancestors, re-indented docstrings get their values re-evaluated before the edit returns. Equality of query answers with a fresh parse is value-level and '
            'not decided; a position-driven range flush is accepted as covering.',
            'Trusts the flush-family tables and the 2 + 3 reviewed sites in sa/rules/c02.py.',
            'DESIGN.md §2 C02'),
    'C04': ('argument-role check on every unparse-family call (never the tree being edited), provenance of the line sets handed to the '
            'indent rewriters and narrowing-only construction of the indentable set with an arm per multi-line literal kind, '
            'overwrite-before-emit typestate in the f/t-string continuation scanner, reaching-definitions contradiction check between '
            'the comment / continuation flags of fragment scans and the tests applied to their results',
            'Static: decides four necessary conditions of formatting preservation: the target is never re-rendered, indentation '
            'changes are confined to lines outside multi-line literals (including nested f/t-strings), and no scan that skips comments '
            'is followed by a (dead) comment guard. Which bytes an edit changes (trivia, separators, blank lines) is value-level '
            'and not decided.',
            'Trusts receiver-role derivation (sa/effects.py); `FST.ast_src` is the one sanctioned render of a live node.',
            'DESIGN.md §2 C04'),
    'C11': ('syntax-order table completeness and order against the grammar (shared with C14), orientation typestate of reversed work '
            'lists in the interleaved child builders, unit inference (bytes vs characters) on the offset primitives, control-dependence '
            'of the early termination of the offset walk; must-offset check of the put_src(action=\'offset\') arm',
            'Static: decides the two preconditions of the offset walk - children enumerated completely and in source order, and byte '
            'deltas applied to byte columns - plus that its early exit is decided by child END positions. The head/tail rules at the '
            'edit point are integer logic over runtime positions and are not decided.',
            'Trusts FIELDS order as syntax order for non-interleaved classes; naming conventions for units.',
            'DESIGN.md §2 C11'),
    'C06': ('byte / character unit inference (qualifier analysis over every column expression: sources by attribute, conversion call and '
            'naming convention; sinks: col_offset stores and keywords, c2b/b2c arguments, string indices, regex / startswith positions, '
            'fstloc columns, unit-named parameters of resolved callees); line/column pairing of guarded position stores, of conversions, of '
            'line lengths and of local line aliases (stale after rebinding); lexicographic ordering of (line, column) pairs; registry '
            'coverage of computed locations',
            'Static: decides over ~2000 unit-carrying constructs in the whole package that byte offsets and character columns are never '
            'mixed, stored into each other\'s slots or passed to each other\'s parameters, that a column adjustment is guarded by the '
            'line attribute of the same end of the node, and that every position-less AST class has a computed-location function. '
            'Correctness of the text scans behind loc / pars / find_* depends on the text and is not decided.',
            'Trusts the repository naming conventions for units and the two reviewed exceptions (a deliberate byte-minus-char delta, an '
            'end-of-line upper bound).',
            'DESIGN.md §2 C06'),
    'C05': ('mode-registry agreement (Mode literals / parse table / code_as table / leaf classes); wrapper-template analysis: each '
            'f-string template is parsed by the stdlib parser with a placeholder and with a library of generic escape / continuation '
            'probes, yielding which fields of the wrapper node text at {src} can populate or alter; read-set comparison per parser; '
            'line fix-up arithmetic against the number of newlines before {src}; statically evaluated result-type table vs parser table (a class mode whose parser serves another mode too has its result type registered) and the isinstance guard of both consumers',
            'Static: decides for all 45 wrapper templates that the line fix-ups agree with the template and that every field of the '
            'wrapper construct which source text can reach (extra call arguments, a grown placeholder, a return annotation, a guard, '
            '...) is inspected by the parser, i.e. the wrapper cannot silently absorb or drop part of the source; plus registry '
            'agreement for all modes, and a class mode served by a shared parser is narrowed to its class or rejected. Position equality for arbitrary (multi-byte / commented / continued) fragments is not decided.',
            'Trusts the probe library in sa/rules/c05.py (generic Python fragments) to cover the ways text can continue into or escape '
            'from a syntactic position; parsing template constants with the stdlib parser is analysis of constants, not execution of pfst.',
            'DESIGN.md §2 C05'),
    'C15': ('stale-after-yield typestate (dataflow over generator CFGs with in-node evaluation order) for locals holding AST '
            'nodes; non-None proof (path-sensitive truthiness facts) for every value popped from the walk stack and every '
            '.f/.a link before dereference; structural check that detaching marks the whole sub-tree dead; children of a node that only changes class keep their FST nodes',
            'Static: decides the liveness discipline that makes walking robust against mutation by the consumer: nothing read '
            'from the tree before a yield is used after it without being re-read through the yielded node, dead or None stack '
            'entries are skipped before use, detached sub-trees are completely marked dead (grammar-aware list filter). '
            'Termination, no-duplicates and "new children are walked next" for all interleavings need state exploration and '
            'are not decided.',
            'Trusts that AST-holding locals are those bound from `<x>.a`, a parameter named `ast`, or attribute chains of these.',
            'DESIGN.md §2 C15'),
    'C10': ('dominance of every target mutation in fst_raw.py by the parse of the complete new text (CFG must-pass-through); '
            'validate-then-mutate analysis (as C12) with parser entry points as rejecting calls and return-value-correlated '
            'callee effects; lock / attachment-point checks of the raw entry points; who-may-pass check on the scratch line list the reparse writes into before parsing; table coverage of the fields grafted after a header-only reparse (statically evaluated) against the block-list fields of the grammar table',
            'Static, atomicity ordering only: every modification of the live tree by the raw reparse comes after the parse that '
            'can reject the text, nothing can reject afterwards, raw reparse always runs under the raw modification lock and '
            'attaches new nodes only through _set_ast / root line replacement (root identity), the list it scribbles on before parsing is never the live line list, and a header-only reparse carries over every block field it did not see. Whether the incremental reparse '
            'equals a from-scratch parse is value-level and NOT decided (the property text itself records disagreements).',
            'Trusts parser naming (fromsrc / parse_*), tree-derivation conventions of sa/effects.py.',
            'DESIGN.md §2 C10'),
    'C07': ('copy-mode effect freedom by constant specialisation (cut=False) of every get handler: interprocedural tree-mutation '
            'summaries, path-sensitive constant propagation and branch pruning, alias-vs-element derivation; acquire/release '
            'typestate for temporary normalisations; structural checks of the copy / cut entry points',
            'Static: decides that with cut=False no get handler (53 functions, with all helpers they reach) contains a permanent '
            'mutation of the tree it reads from, that every temporary normalisation of the source is restored on all normal paths '
            'and cannot be left behind by a refused request, and that copy entry points pass the literal cut=False. Faithfulness '
            'of the extracted piece and token conservation are value-level and not decided.',
            'Trusts the pair table and the one reviewed copy-mode helper in sa/rules/c07.py / atomic.py; receiver roles come from '
            'parameter derivation (self-rooted expressions), unknown receivers are not attributed to the source tree.',
            'DESIGN.md §2 C07'),
    'C12': ('lock typestate of the modification context manager (with / manual protocol) and of the manager itself over CFGs; '
            'interprocedural validate-then-mutate analysis: tree-mutation summaries per parameter (fixpoint over the resolved '
            'call graph), path-sensitive constant propagation with disjunctive states and constant-specialised callees, '
            'temporary-normalisation acquire/release pairs with handler-restore recognition, request-dependence taint of '
            'raise guards',
            'Static: decides that the modification lock is released on every failure path, and that in ~250 tree-mutating '
            'kernel functions nothing that can reject the caller\'s request (explicit request-dependent raise, call into '
            'the request-validating family, call to a function whose own body can reject) is reachable after the first '
            'mutation of the target or while a temporary normalisation is unrestored. Implicit exceptions from corrupted '
            'intermediate states and raises guarded only by target state are not decided.',
            'Trusts the naming conventions of the validator family and of the normalise/restore pairs (sa/rules/atomic.py), '
            'the reviewed-instance table in sa/rules/c12.py (one reason each) and callee resolution by unique method names.',
            'DESIGN.md §2 C12'),
    'C20': ('inventory of module-level mutable state with alias-aware writer analysis against a frozen allow-list; '
            'threading.local structure check; dominance / no-raise-after-update on the CFG of set_options(); try/finally '
            'restore shape of options(); validate-before-kernel dominance for every public **options method; mutation '
            'check of received option mappings; option registry agreement; root-keyed registry access; no import-time dereference of the thread-local store',
            'Static: decides isolation by non-interference - the only cross-call state is the thread-local option store '
            '(written only by set_options / the options() restore, validated before a single bulk update, restored in '
            'finally) and the modification registry (written only by the context manager, keyed by the tree root, no '
            'whole-registry operations). Thread schedules are not enumerated; the argument is absence of shared writes.',
            'Assumes atomic single-item dict operations in CPython; trusts the frozen allow-list of writers.',
            'DESIGN.md §2 C20'),
    'C17': ('tag-stack depth typestate over per-function CFGs (new_tagss / pop_merge_tagss / discard_tagss pairing); '
            'shared-singleton mutation taint with fixpoint over "may return shared" summaries; fresh-or-cleared state '
            'dominance in loops; pattern registry self-consistency',
            'Static: decides the state discipline the matcher needs so that a match never depends on previous matches or on '
            'a failed branch: balanced tag stack on every path of every matcher, no mutation of shared containers, '
            'per-call or cleared _MatchState, registries dispatching each pattern class to its own matcher / pre-filter. '
            'Layout independence, search == filtered walk and regex equivalence are value-level and not decided.',
            'Trusts that exceptions abort the whole match (depth on exceptional exits is not constrained) and the frozen '
            'list of mutating container methods.',
            'DESIGN.md §2 C17'),
    'C18': ('table exhaustiveness of template-slot discovery against identifier fields of the grammar; receiver check '
            '(template never mutated) and dominance of the per-iteration template copy; dominance / post-dominance of the '
            'substitution counter on the CFG of subn(); must-pass-through of the "do not substitute again" marking between template copy and replace',
            'Static, five narrow clauses (the last two: a per-location loop budget is restored on every path leaving the location; the '
            'index recorded for a list slot enumerates the field itself): slot discovery covers every place an identifier can be written, the template is '
            'never consumed, and one count per performed substitution on every path. Equality with a reference '
            'transformer and nested/count/loop semantics are not decided.',
            'Trusts READ_ONLY method list for FST receivers in sa/rules/c18.py.',
            'DESIGN.md §2 C18'),
    'C16': ('scope-rule tables: registry coverage of scope-introducing node kinds; symbolic attribute-path extraction of what '
            'each scope helper pushes (both direction arms) compared with a language-reference oracle; binder '
            'exhaustiveness of scope_symbols() against the identifier fields of the grammar',
            'Static: decides that the scope walk excludes / includes exactly the sub-expressions Python assigns to the '
            'enclosing scope for functions, classes, lambdas and comprehensions, and that every name-binding identifier '
            'field of the grammar is reported by scope_symbols(). Behaviour of the generator composition on concrete '
            'programs (e.g. the documented first-iterable disagreement) is not decided.',
            'Trusts the frozen scoping oracle (language reference 4.2.2/6.2.4/8.7, PEP 572, PEP 695) in sa/rules/c16.py.',
            'DESIGN.md §2 C16'),
    'C09': ('exhaustive decision table: statically evaluated _Precedence / _PRECEDENCE_NODES / _PRECEDENCE_NODE_FIELDS and the '
            'special-case arms of precedence_require_parens_by_type against a grammar-derived oracle (python.gram 3.12); '
            'call-graph reachability of the tables from every expression put handler; control-dependence check of '
            'parenthesis removal in _make_exprlike_fst',
            'Static, exhaustive over 100+ expression / pattern slots x 30 child kinds (>3000 decisions): wherever the grammar '
            'cannot derive the child unparenthesized in the slot, the tables must say "parenthesize". Also decides that the '
            'tables are consulted by every expression put handler and that needed parentheses are only removed under '
            '`not need_pars()`. Line-structure (multi-line enclosure) clauses are not decided.',
            'Trusts the frozen grammar oracle in sa/rules/c09.py (derived by hand from CPython 3.12 Grammar/python.gram) and '
            'FIELDS for slot completeness.',
            'DESIGN.md §2 C09'),
    'C03': ('registry agreement / exhaustiveness of the four handler tables against FIELDS and the stdlib grammar; shape check '
            'of generated accessors; entry-point funnel + options forwarding + sibling agreement; flow-sensitive '
            'interprocedural raw-index typestate (RAW > range-checked > clean) over per-function CFGs; flow-sensitive coordinate kinds '
            '(view-relative vs base-field indices) in view.py; must-reach of the bounded-view end maintenance after kernel edits',
            'Static, exhaustive over all (class, field) rows and all handler functions: decides that every grammar position '
            'has put/get handlers of the right kind, that all equivalent entry points funnel into the same kernel call with '
            'the same field / one / options, and that no handler uses start/stop/idx before normalising it. Necessary '
            'structural conditions; that a handler really yields old[:start]+new+old[stop:] is not decided.',
            'Trusts the repo naming conventions (start/stop/idx parameters, `validated` certificate parameter) and the '
            'frozen documented exception lists (not-implemented fields, component fields of combined virtual fields).',
            'DESIGN.md §2 C03'),
    'C14': ('sibling-table agreement (FIELDS / syntax-order lambdas / generated next+prev automata) by abstract '
            'interpretation of the generated functions; mirrored push-program comparison; polarity typestate in walk()',
            'Static, exhaustive over all 124 AST classes: decides that the four artefacts that encode child order agree '
            '(field order, key coverage, per-function successor sets) and that every child push in walk() and the scope '
            'helpers has the right direction polarity. Necessary structural conditions of "siblings in source order, '
            'consistently across APIs"; the behaviour on concrete trees is not decided.',
            'Trusts: FIELDS order is syntax order for non-interleaved classes (stated by the source); the six interleaved '
            'classes are checked for field coverage only. Grammar reference is the stdlib ast module of /venv (3.12).',
            'DESIGN.md §2 C14'),
}

NOT_APPLICABLE = {
    'C08': 'Round-trip and read-back equalities compose two value-producing operations; no structural necessary '
           'condition beyond those decided under C01/C03/C07 (DESIGN.md §3).',
    'C13': 'Equality of the reconciled tree with an arbitrarily mutated AST is value-level over mutation histories; the '
           'only structural item (option-set agreement) is checked as R20.7 and does not carry the property.',
    'C19': '"Raises or returns a valid node" is satisfied by raising, so table/dispatch slips are not violations; content '
           'conservation is value-level. Its two structural clauses are checked as R5.1 and R7.3.',
}

PLANNED = []


def main():
    checks = []
    for pid in sorted(CLAIMED):
        tech, text, note, ref = CLAIMED[pid]
        checks.append({
            'property_id': pid,
            'quick_cmd': f'/venv/bin/python /verif/check {pid} --tier quick',
            'thorough_cmd': f'/venv/bin/python /verif/check {pid} --tier thorough',
            'evidence_file': f'/verif/evidence/{pid}.json',
            'replay_cmd_template': f'/venv/bin/python /verif/check {pid} --replay {{path}}',
            'engine': 'sa',
            'level_claimed': {'category': 'other', 'text': text, 'design_ref': ref},
            'level_note': note,
            'technique': 'static analysis: ' + tech,
        })
    na = [{'property_id': k, 'reason': v} for k, v in sorted(NOT_APPLICABLE.items())]
    for pid in PLANNED:
        if pid not in CLAIMED:
            na.append({'property_id': pid, 'reason': 'static check designed (DESIGN.md §2) but not built yet in this '
                                                     'commit; not claimed until its rules run clean on the tree'})
    man = {
        'version': 1,
        'setup_cmd': 'true',
        'hooks': {'guard': 'PFST_VERIF', 'enable': 'none needed: the checks parse /repo/src/fst and never import it',
                  'baseline_off_cmd': 'cd /repo && /venv/bin/python -m pytest -ra -q -p no:cacheprovider --timeout=900 '
                                      '--continue-on-collection-errors',
                  'source_commits': [], 'add_only': True},
        'engines': [{'name': 'sa', 'path': '/verif/sa', 'serves_properties': sorted(CLAIMED),
                     'kind_free_text': 'repository-specific static analyser: source model + static table evaluator + '
                                       'per-function CFG/dataflow + rule modules (stdlib ast only, no execution of /repo)'}],
        'checks': checks,
        'not_applicable': sorted(na, key=lambda x: x['property_id']),
        'notes': 'Technique family: static analysis. Exit codes: 0 held, 1 VIOLATION, 2 ANALYSIS-ERROR (vanished anchor / '
                 'rule sees fewer instances than confirmed by hand / self-test mutant survived). Genuine defects: '
                 'known_findings.json.',
    }
    with open(os.path.join(HERE, 'MANIFEST.json'), 'w') as f:
        json.dump(man, f, indent=1)
        f.write('\n')


if __name__ == '__main__':
    main()
