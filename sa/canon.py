"""Rename recovery: the rules name functions of the package (anchors, vocabularies such as "the flush helpers").  A maintainer who
renames one of them (`_touchall` -> `_touch_all`) changes nothing the properties are about, but every rule that knows the old name would
lose its footing.  `/verif/anchors.json` records, for each function name the rules mention, a structural fingerprint of its definition on
the tree the rules were written against.  When such a name has *no* definition any more and exactly one function with an unknown name carries
(nearly) that fingerprint, the source model reads the new name as the old one — the identifier is rewritten in the in-memory copy of the
sources before anything is analysed, and the mapping is reported in the evidence.  Nothing here decides a property; a wrong or missing match
can only lead to the same ANALYSIS-ERROR (anchor vanished) there would have been without it.
"""
from __future__ import annotations

import ast
import collections
import io
import json
import os
import tokenize

HERE = os.path.dirname(os.path.dirname(os.path.abspath(__file__)))
DB = os.path.join(HERE, 'anchors.json')

MIN_SIM = 0.8          # multiset Jaccard similarity of the fingerprints
MIN_GAP = 0.1          # distance to the runner-up
MIN_SIZE = 12          # tiny functions are not told apart by structure


def fingerprint(fn) -> collections.Counter:
    """Multiset of structural features of a definition: statement / expression kinds, attribute names, called names, string constants
    (short), parameter count.  Local variable names are not part of it."""
    c = collections.Counter()
    a = fn.args
    c['#params:%d' % len(a.posonlyargs + a.args + a.kwonlyargs)] += 1
    for x in ast.walk(fn):
        c['k:' + type(x).__name__] += 1
        if isinstance(x, ast.Attribute):
            c['a:' + x.attr] += 1
        elif isinstance(x, ast.Call):
            f = x.func
            nm = f.attr if isinstance(f, ast.Attribute) else f.id if isinstance(f, ast.Name) else None
            if nm and nm != fn.name:
                c['c:' + nm] += 1
        elif isinstance(x, ast.Constant) and isinstance(x.value, str) and 0 < len(x.value) <= 40 and x is not getattr(fn.body[0], 'value', None):
            c['s:' + x.value] += 1
    return c


def similarity(a: collections.Counter, b: collections.Counter) -> float:
    inter = sum((a & b).values())
    union = sum((a | b).values())
    return inter / union if union else 0.0


def value_fingerprint(v) -> collections.Counter:
    """Fingerprint of a module-level table / constant: its kind, the texts of its dict keys, the names it mentions."""
    c = collections.Counter()
    c['kind:' + type(v).__name__] += 1
    if isinstance(v, ast.Dict):
        for k in v.keys:
            if k is not None:
                c['key:' + ast.unparse(k)[:60]] += 1
    for x in ast.walk(v):
        if isinstance(x, ast.Name):
            c['n:' + x.id] += 1
        elif isinstance(x, ast.Constant) and isinstance(x.value, str) and 0 < len(x.value) <= 30:
            c['s:' + x.value] += 1
    return c


def class_fingerprint(c) -> collections.Counter:
    """Fingerprint of a class: its method names, class-level attribute names and base names."""
    f = collections.Counter()
    for b in c.bases:
        f['base:' + ast.unparse(b)] += 1
    for st in c.body:
        if isinstance(st, (ast.FunctionDef, ast.AsyncFunctionDef)):
            f['m:' + st.name] += 1
        elif isinstance(st, ast.Assign):
            for t in st.targets:
                if isinstance(t, ast.Name):
                    f['attr:' + t.id] += 1
        elif isinstance(st, ast.AnnAssign) and isinstance(st.target, ast.Name):
            f['attr:' + st.target.id] += 1
    return f


def module_fingerprint(tree) -> collections.Counter:
    """Fingerprint of a module: the names it defines at top level (functions, classes, single-name assignments)."""
    f = collections.Counter()
    for n in tree.body:
        if isinstance(n, (ast.FunctionDef, ast.AsyncFunctionDef, ast.ClassDef)):
            f['d:' + n.name] += 1
    for n, _ in _globals(tree):
        f['g:' + n] += 1
    return f


def usage_profile(trees: dict, names: set) -> dict:
    """{name: Counter of 'u:<module>.<function>' for every function that mentions the name}: tells small globals (`_MODIFYING = {}`) apart."""
    out = {n: collections.Counter() for n in names}
    for m, t in trees.items():
        for q, fn in _defs(t):
            for x in ast.walk(fn):
                if isinstance(x, ast.Name) and x.id in out:
                    out[x.id][f'u:{m}.{q}'] += 1
    return out


def _globals(tree):
    """[(name, value node)] of module-level single-name assignments."""
    out = []
    for n in tree.body:
        if isinstance(n, ast.Assign) and len(n.targets) == 1 and isinstance(n.targets[0], ast.Name):
            out.append((n.targets[0].id, n.value))
        elif isinstance(n, ast.AnnAssign) and isinstance(n.target, ast.Name) and n.value is not None:
            out.append((n.target.id, n.value))
    return out


def _defs(tree):
    """[(qualname, FunctionDef)] of module-level functions and methods (one class level)."""
    out = []
    for n in tree.body:
        if isinstance(n, (ast.FunctionDef, ast.AsyncFunctionDef)):
            out.append((n.name, n))
        elif isinstance(n, ast.ClassDef):
            for m in n.body:
                if isinstance(m, (ast.FunctionDef, ast.AsyncFunctionDef)):
                    out.append((f'{n.name}.{m.name}', m))
    return out


def _after_import(lines, k, ln, col) -> bool:
    """Is position (ln, col) behind the `import` keyword of the (possibly multi-line) import statement that starts on line k?"""
    text = '\n'.join(lines[k - 1:ln - 1] + [lines[ln - 1][:col]])
    import re
    return re.search(r'\bimport\b', text) is not None


_DB_CACHE = {}


def load_db(section='functions'):
    """One section of anchors.json (read once per process; an unreadable file means no recovery, never a wrong one)."""
    if 'db' not in _DB_CACHE:
        try:
            with open(DB) as f:
                _DB_CACHE['db'] = json.load(f)
        except (OSError, ValueError):
            _DB_CACHE['db'] = {}
    return _DB_CACHE['db'].get(section, {})


def canonicalise(sources: dict) -> tuple[dict, dict]:
    """-> (sources with recovered renames undone, {new name: canonical name})"""
    db = load_db()
    if not db:
        return sources, {}
    trees = {}
    for m, src in sources.items():
        try:
            trees[m] = ast.parse(src)
        except SyntaxError:
            return sources, {}
    renames = {}
    mod_renames = {}
    # a renamed module (`fst_misc.py` -> `fst_util.py`): recognised by the names it defines at top level
    mdb = load_db('modules')
    if mdb:
        mcands = [(m, module_fingerprint(t)) for m, t in trees.items() if m not in mdb]
        for name, rec in sorted(mdb.items()):
            if name in trees or not mcands:
                continue
            fp = collections.Counter(rec['fingerprint'])
            if sum(fp.values()) < 4:
                continue
            scored = sorted(((similarity(fp, c), m) for m, c in mcands), reverse=True)
            if scored[0][0] < MIN_SIM or (len(scored) > 1 and scored[0][0] - scored[1][0] < MIN_GAP):
                continue
            new_mod = scored[0][1]
            if '.' in new_mod or '.' in name or new_mod in mod_renames:
                continue
            mod_renames[new_mod] = name
            trees[name] = trees.pop(new_mod)
            sources = dict(sources)
            sources[name] = sources.pop(new_mod)
            mcands = [(m, c) for m, c in mcands if m != new_mod]
    defs = [(m, q, fn) for m, t in trees.items() for q, fn in _defs(t)]
    present = {q.rsplit('.', 1)[-1] for _, q, _ in defs}
    missing = {name: rec for name, rec in db.items() if name not in present}
    known = set(db)
    # names used anywhere (a renamed function keeps being called: the old name must not occur any more, the new one must not be an old one)
    cands = [(m, q, fn, fingerprint(fn)) for m, q, fn in defs if q.rsplit('.', 1)[-1] not in known]
    for name, rec in sorted(missing.items()):
        fp = collections.Counter(rec['fingerprint'])
        if sum(fp.values()) < MIN_SIZE:
            continue
        is_method = '.' in rec['qualname']
        scored = sorted(((similarity(fp, c), m, q) for m, q, fn, c in cands if ('.' in q) == is_method), reverse=True)
        if not scored or scored[0][0] < MIN_SIM:
            continue
        if len(scored) > 1 and scored[0][0] - scored[1][0] < MIN_GAP:
            continue
        new = scored[0][2].rsplit('.', 1)[-1]
        if new in renames or new in present and new in known:
            continue
        renames[new] = name
    # module-level tables / constants the rules mention by name (`_PUT_ONE_HANDLERS`, `_MODIFYING`, ...)
    gdb = load_db('globals')
    if gdb:
        gl = [(m, n, v) for m, t in trees.items() for n, v in _globals(t)]
        gpresent = {n for _, n, _ in gl}
        gknown = set(gdb)
        use = usage_profile(trees, {n for _, n, _ in gl if n not in gknown})
        gcands = [(m, n, value_fingerprint(v) + use.get(n, collections.Counter())) for m, n, v in gl if n not in gknown]
        for name, rec in sorted(gdb.items()):
            if name in gpresent:
                continue
            fp = collections.Counter(rec['fingerprint'])
            if sum(fp.values()) < 6:
                continue
            scored = sorted(((similarity(fp, c), m, n) for m, n, c in gcands), reverse=True)
            if not scored or scored[0][0] < MIN_SIM or (len(scored) > 1 and scored[0][0] - scored[1][0] < MIN_GAP):
                continue
            if scored[0][2] not in renames:
                renames[scored[0][2]] = name
    # classes the rules mention by name (`_Modifying`, `_ScopeContext`, `FSTView`, ...)
    cdb = load_db('classes')
    if cdb:
        cls = [(m, n.name, n) for m, t in trees.items() for n in t.body if isinstance(n, ast.ClassDef)]
        cpresent = {n for _, n, _ in cls}
        ccands = [(n, class_fingerprint(c)) for _, n, c in cls if n not in cdb]
        for name, rec in sorted(cdb.items()):
            if name in cpresent:
                continue
            fp = collections.Counter(rec['fingerprint'])
            if sum(fp.values()) < 4:
                continue
            scored = sorted(((similarity(fp, c), n) for n, c in ccands), reverse=True)
            if not scored or scored[0][0] < MIN_SIM or (len(scored) > 1 and scored[0][0] - scored[1][0] < MIN_GAP):
                continue
            if scored[0][1] not in renames:
                renames[scored[0][1]] = name
    if not renames and not mod_renames:
        return sources, {}
    out = {}
    for m, src in sources.items():
        if not any(n in src for n in renames) and not any(n in src for n in mod_renames):
            out[m] = src
            continue
        # rebuild with positions preserved as far as possible: replace by (row, col) from the end of each line backwards
        lines = src.split('\n')
        edits = collections.defaultdict(list)
        # a module name is rewritten in import statements only (`match`, `code`, ... are ordinary identifiers elsewhere)
        import_lines = {}                  # line -> 'module part only' | 'names too'
        if mod_renames and m in trees:
            for n in ast.walk(trees[m]):
                if isinstance(n, ast.ImportFrom) and n.level >= 1 or isinstance(n, ast.Import):
                    for ln in range(n.lineno, (n.end_lineno or n.lineno) + 1):
                        import_lines[ln] = (isinstance(n, ast.Import) or n.module is None, n.lineno)
        try:
            for t in tokenize.generate_tokens(io.StringIO(src).readline):
                if t.type != tokenize.NAME or t.start[0] != t.end[0]:
                    continue
                ln = t.start[0]
                if ln in import_lines:
                    if t.string in mod_renames:
                        after = _after_import(lines, import_lines[ln][1], ln, t.start[1])
                        if not after:
                            edits[ln - 1].append((t.start[1], t.end[1], mod_renames[t.string]))        # from .new import x
                        elif import_lines[ln][0]:
                            # from . import new  ->  from . import old as new   (the local name stays what the code uses)
                            rest = lines[ln - 1][t.end[1]:].lstrip()
                            txt = mod_renames[t.string] if rest.startswith('as ') else f'{mod_renames[t.string]} as {t.string}'
                            edits[ln - 1].append((t.start[1], t.end[1], txt))
                        continue
                if t.string in renames:
                    edits[ln - 1].append((t.start[1], t.end[1], renames[t.string]))
        except tokenize.TokenError:
            return sources, {}
        for ln, es in edits.items():
            s = lines[ln]
            for a, b, new in sorted(es, reverse=True):
                s = s[:a] + new + s[b:]
            lines[ln] = s
        out[m] = '\n'.join(lines)
    return out, {**mod_renames, **renames}
