"""Callee resolution (DESIGN §1.3): module functions, imports, module aliases, FST namespace (unique method names),
class-local methods, and table fan-out for `TABLE.get(key)(...)` / `TABLE[key](...)`."""
from __future__ import annotations

import ast

from .model import Repo, FuncInfo, walk_no_nested, call_name
from .consteval import FuncTok, LambdaTok, Record

# method names that exist on builtin containers / strings as well as on FST: a call `x.<name>(...)` on a receiver that
# is not known to be an FST must not be resolved through the FST namespace
AMBIGUOUS = {'get', 'copy', 'index', 'count', 'insert', 'append', 'extend', 'remove', 'pop', 'clear', 'find', 'replace',
             'search', 'match', 'sub', 'walk', 'dump', 'put', 'cut', 'options', 'items', 'keys', 'values', 'update',
             'next', 'prev', 'par', 'step', 'src', 'lines', 'is_', 'as_', 'strip', 'split', 'join', 'mark'}

FST_RECEIVERS = {'self', 'fst_', 'parent', 'root', 'code', 'put_fst', 'child', 'childf', 'tgt', 'target', 'stmtlike',
                 'new_self', 'copy_root', 'f', 'base', 'self_', 'node', 'elt', 'ret'}


class Resolver:
    def __init__(self, repo: Repo, ev=None):
        self.repo = repo
        self.ev = ev
        self.fst_ns = repo.fst_namespace()
        self.unresolved = 0
        self.resolved = 0
        self._table_cache = {}

    def receiver_is_fst(self, recv: ast.AST) -> bool:
        """Heuristic role typing of a receiver expression by the repo's naming conventions."""
        if isinstance(recv, ast.Name):
            n = recv.id
            return n in FST_RECEIVERS or n.endswith('fst') or n.endswith('fst_') or n.startswith('fst_') or n.endswith('f')
        if isinstance(recv, ast.Attribute):
            return recv.attr in ('f', 'parent', 'root', 'base') or recv.attr.endswith('fst')
        if isinstance(recv, ast.Call):
            cn = call_name(recv)
            return cn in ('FST', 'copy', 'repath') or (cn or '').startswith('code_as')
        if isinstance(recv, ast.Subscript):
            return False
        return False

    def resolve(self, call: ast.Call, fi: FuncInfo) -> list[FuncInfo]:
        r = self._resolve(call, fi)
        if r:
            self.resolved += 1
        else:
            self.unresolved += 1
        return r

    def _resolve(self, call: ast.Call, fi: FuncInfo) -> list[FuncInfo]:
        f = call.func
        m = self.repo.modules[fi.module]
        if isinstance(f, ast.Name):
            # nested helper of the same function first
            for prefix in self._enclosing_prefixes(fi):
                q = prefix + f.id
                if q in m.funcs:
                    return m.funcs[q]
            if f.id in m.funcs:
                return m.funcs[f.id]
            r = self.repo.resolve_import(fi.module, f.id)
            if r and r[0] in self.repo.modules:
                return self.repo.modules[r[0]].func(r[1])
            if f.id in m.classes:
                return m.func(f.id + '.__init__') or m.func(f.id + '.__new__')
            return []
        if isinstance(f, ast.Attribute):
            v = f.value
            # module alias: fst_core.func(...)
            if isinstance(v, ast.Name):
                alias = self.repo.module_alias(fi.module, v.id)
                if alias:
                    return self.repo.modules[alias].func(f.attr)
            # fst.FST.name(...)
            if isinstance(v, ast.Attribute) and v.attr == 'FST':
                return self.fst_ns.get(f.attr, [])
            if isinstance(v, ast.Name) and v.id == 'FST':
                return self.fst_ns.get(f.attr, [])
            # self.method inside a non-FST class
            if isinstance(v, ast.Name) and v.id == 'self' and fi.cls and fi.cls != 'FST':
                q = f'{fi.cls}.{f.attr}'
                if q in m.funcs:
                    return m.funcs[q]
                # inherited (FSTView subclasses)
                for base in self._bases(fi.module, fi.cls):
                    q = f'{base}.{f.attr}'
                    if q in m.funcs:
                        return m.funcs[q]
            if f.attr in self.fst_ns:
                if f.attr in AMBIGUOUS and not self.receiver_is_fst(v):
                    return []
                return self.fst_ns[f.attr]
            # ClassName.method
            if isinstance(v, ast.Name) and v.id in m.classes:
                return m.func(f'{v.id}.{f.attr}')
            # mstate.new_tagss() etc: unique method name among the module's classes
            cands = [fs for q, fs in m.funcs.items() if q.count('.') == 1 and q.endswith('.' + f.attr) and '<locals>' not in q]
            if len(cands) == 1 and f.attr not in AMBIGUOUS:
                return cands[0]
        return []

    def _enclosing_prefixes(self, fi: FuncInfo):
        parts = fi.qualname.split('.<locals>.')
        out = []
        for i in range(len(parts), 0, -1):
            out.append('.<locals>.'.join(parts[:i]) + '.<locals>.')
        return out

    def _bases(self, module, cls):
        out = []
        c = self.repo.modules[module].classes.get(cls)
        seen = set()
        while c is not None and c.name not in seen:
            seen.add(c.name)
            nxt = None
            for b in c.bases:
                if isinstance(b, ast.Name) and b.id in self.repo.modules[module].classes:
                    out.append(b.id)
                    nxt = self.repo.modules[module].classes[b.id]
            c = nxt
        return out

    def bound(self, call: ast.Call, callee: FuncInfo, fi: FuncInfo) -> bool:
        """Does `call` bind the callee's first (`self`) parameter implicitly?"""
        if isinstance(call.func, ast.Attribute) and isinstance(call.func.value, ast.Name) and \
                self.repo.module_alias(fi.module, call.func.value.id):
            return False
        if isinstance(call.func, ast.Attribute) and isinstance(call.func.value, ast.Name) and \
                call.func.value.id in self.repo.modules[fi.module].classes:
            return False
        return is_bound_call(call, callee)

    # table fan-out ------------------------------------------------------------------------------------------------
    def table_targets(self, module: str, table_name: str, pick=None) -> list[FuncInfo]:
        """All functions stored in an evaluated module-level table (values may be FuncTok, tuples or records containing them)."""
        key = (module, table_name)
        if key in self._table_cache:
            return self._table_cache[key]
        out = []
        if self.ev is not None:
            tab = self.ev.get(module, table_name, required=False)
            seen = set()

            def add(v):
                if isinstance(v, FuncTok):
                    if v.key not in seen:
                        seen.add(v.key)
                        out.extend(self.repo.modules[v.module].func(v.qualname) if v.module in self.repo.modules else [])
                elif isinstance(v, (tuple, list)):
                    for x in v:
                        add(x)
                elif isinstance(v, Record):
                    for x in v.fields.values():
                        add(x)
            if isinstance(tab, dict):
                for v in tab.values():
                    add(v)
        self._table_cache[key] = out
        return out


def param_index(fi: FuncInfo, name: str) -> int | None:
    ps = [a.arg for a in fi.node.args.posonlyargs + fi.node.args.args]
    return ps.index(name) if name in ps else None


def arg_for_param(call: ast.Call, callee: FuncInfo, pname: str, bound_self: bool):
    """The argument expression of `call` bound to parameter `pname` of `callee` (None if defaulted / unknown)."""
    ps = [a.arg for a in callee.node.args.posonlyargs + callee.node.args.args]
    if bound_self and ps and ps[0] in ('self', 'cls'):
        ps = ps[1:]
    for kw in call.keywords:
        if kw.arg == pname:
            return kw.value
    if pname in ps:
        i = ps.index(pname)
        if i < len(call.args) and not any(isinstance(a, ast.Starred) for a in call.args[:i + 1]):
            return call.args[i]
    return None


def is_bound_call(call: ast.Call, callee: FuncInfo) -> bool:
    """x.method(...) binds the first parameter when the callee's first parameter is `self`."""
    ps = [a.arg for a in callee.node.args.posonlyargs + callee.node.args.args]
    if not ps or ps[0] not in ('self', 'cls'):
        return False
    if isinstance(call.func, ast.Attribute):
        v = call.func.value
        # fst.FST.method(self, ...) style is unbound
        if isinstance(v, ast.Attribute) and v.attr == 'FST':
            return False
        if isinstance(v, ast.Name) and v.id in ('FST',) :
            return False
        # module alias call: fst_core._put_src(self, ...)
        return True
    return False
