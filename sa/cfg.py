"""Statement-level control-flow graphs for the constructs the repository uses, plus a small forward dataflow solver.

Nodes: 'entry', 'stmt' (simple statement), 'test' (condition of if / while / assert / match subject), 'iter' (for
header), 'case' (match case pattern + guard), 'with' (context expression evaluation), 'with_exit' (context manager exit,
one copy per continuation kind), 'except' (handler entry), 'dispatch' (exception dispatch of a try), 'exit' (normal
return / fall off the end), 'raise' (exception leaves the function).

Edge labels: 'next', 'true', 'false', 'exc' (the node's evaluation raised), 'loop' (back edge).
Every evaluating node gets an 'exc' edge to the innermost handler dispatch (or to 'raise'); a rule decides with its own
may-raise predicate whether that edge is feasible for a node.
"""
from __future__ import annotations

import ast
from dataclasses import dataclass, field


@dataclass
class Node:
    id: int
    kind: str
    ast: ast.AST | None = None
    succ: list = field(default_factory=list)   # [(label, node id)]
    info: dict = field(default_factory=dict)

    @property
    def lineno(self):
        return getattr(self.ast, 'lineno', 0)


@dataclass
class K:
    """Continuations."""
    next: int
    brk: int | None
    cont: int | None
    ret: int
    exc: int

    def w(self, **kw):
        d = dict(next=self.next, brk=self.brk, cont=self.cont, ret=self.ret, exc=self.exc)
        d.update(kw)
        return K(**d)


class CFG:
    def __init__(self, fn: ast.AST):
        self.fn = fn
        self.nodes: list[Node] = []
        self.exit = self._new('exit').id
        self.raise_ = self._new('raise').id
        body = fn.body if isinstance(fn.body, list) else [ast.Return(value=fn.body, lineno=fn.lineno, col_offset=0)]
        k = K(next=self.exit, brk=None, cont=None, ret=self.exit, exc=self.raise_)
        first = self._seq(body, k)
        e = self._new('entry')
        e.succ.append(('next', first))
        self.entry = e.id
        self._preds = None

    # ------------------------------------------------------------------------------------------------------------------
    def _new(self, kind, node=None, **info) -> Node:
        n = Node(len(self.nodes), kind, node, [], info)
        self.nodes.append(n)
        return n

    def _seq(self, stmts, k: K) -> int:
        nxt = k.next
        for st in reversed(stmts):
            nxt = self._stmt(st, k.w(next=nxt))
        return nxt

    def _stmt(self, st, k: K) -> int:
        if isinstance(st, (ast.FunctionDef, ast.AsyncFunctionDef, ast.ClassDef)):
            n = self._new('stmt', st, nested=True)
            n.succ.append(('next', k.next))
            return n.id
        if isinstance(st, ast.Return):
            n = self._new('stmt', st, ret=True)
            n.succ.append(('next', k.ret))
            if st.value is not None:
                n.succ.append(('exc', k.exc))
            return n.id
        if isinstance(st, ast.Raise):
            n = self._new('stmt', st, raises=True)
            n.succ.append(('exc', k.exc))
            return n.id
        if isinstance(st, ast.Break):
            n = self._new('stmt', st)
            n.succ.append(('next', k.brk if k.brk is not None else k.next))
            return n.id
        if isinstance(st, ast.Continue):
            n = self._new('stmt', st)
            n.succ.append(('loop', k.cont if k.cont is not None else k.next))
            return n.id
        if isinstance(st, ast.If):
            t = self._new('test', st.test, owner=st)
            t.succ.append(('true', self._seq(st.body, k)))
            t.succ.append(('false', self._seq(st.orelse, k)))
            t.succ.append(('exc', k.exc))
            return t.id
        if isinstance(st, ast.While):
            t = self._new('test', st.test, owner=st, loop=True)
            after = self._seq(st.orelse, k)
            body = self._seq(st.body, k.w(next=t.id, brk=k.next, cont=t.id))
            t.succ.append(('true', body))
            const_true = isinstance(st.test, ast.Constant) and bool(st.test.value)
            if not const_true:
                t.succ.append(('false', after))
            t.succ.append(('exc', k.exc))
            return t.id
        if isinstance(st, (ast.For, ast.AsyncFor)):
            it = self._new('iter', st, loop=True)
            after = self._seq(st.orelse, k)
            body = self._seq(st.body, k.w(next=it.id, brk=k.next, cont=it.id))
            it.succ.append(('true', body))
            it.succ.append(('false', after))
            it.succ.append(('exc', k.exc))
            return it.id
        if isinstance(st, (ast.With, ast.AsyncWith)):
            exits = {}

            def wexit(kind, target):
                if target is None:
                    return None
                if (kind, target) not in exits:
                    x = self._new('with_exit', st, via=kind)
                    x.succ.append(('next', target))
                    exits[(kind, target)] = x.id
                return exits[(kind, target)]
            kin = K(next=wexit('next', k.next), brk=wexit('brk', k.brk), cont=wexit('cont', k.cont),
                    ret=wexit('ret', k.ret), exc=wexit('exc', k.exc))
            body = self._seq(st.body, kin)
            w = self._new('with', st)
            w.succ.append(('next', body))
            w.succ.append(('exc', k.exc))
            return w.id
        if isinstance(st, (ast.Try, getattr(ast, 'TryStar', ast.Try))):
            fin = {}

            def through_finally(kind, target):
                if target is None:
                    return None
                if not st.finalbody:
                    return target
                if (kind, target) not in fin:
                    fin[(kind, target)] = self._seq(st.finalbody, k.w(next=target))
                return fin[(kind, target)]
            kin = K(next=through_finally('next', k.next), brk=through_finally('brk', k.brk),
                    cont=through_finally('cont', k.cont), ret=through_finally('ret', k.ret),
                    exc=through_finally('exc', k.exc))
            disp = self._new('dispatch', st)
            catch_all = False
            for h in st.handlers:
                he = self._new('except', h)
                he.succ.append(('next', self._seq(h.body, kin)))
                disp.succ.append(('next', he.id))
                if h.type is None or (isinstance(h.type, ast.Name) and h.type.id in ('BaseException', 'Exception')):
                    catch_all = True
            if not catch_all:
                disp.succ.append(('exc', kin.exc))
            else_entry = self._seq(st.orelse, kin)
            return self._seq(st.body, kin.w(next=else_entry, exc=disp.id))
        if isinstance(st, ast.Match):
            t = self._new('test', st.subject, owner=st)
            nxt = k.next
            for case in reversed(st.cases):
                c = self._new('case', case)
                c.succ.append(('true', self._seq(case.body, k)))
                irrefutable = case.guard is None and isinstance(case.pattern, ast.MatchAs) and case.pattern.pattern is None
                if not irrefutable:
                    c.succ.append(('false', nxt))
                c.succ.append(('exc', k.exc))
                nxt = c.id
            t.succ.append(('next', nxt))
            t.succ.append(('exc', k.exc))
            return t.id
        if isinstance(st, ast.Assert):
            t = self._new('test', st.test, owner=st)
            t.succ.append(('true', k.next))
            t.succ.append(('exc', k.exc))
            return t.id
        # simple statement
        n = self._new('stmt', st)
        n.succ.append(('next', k.next))
        if not isinstance(st, (ast.Pass, ast.Global, ast.Nonlocal)):
            n.succ.append(('exc', k.exc))
        return n.id

    # ------------------------------------------------------------------------------------------------------------------
    def preds(self):
        if self._preds is None:
            p = {n.id: [] for n in self.nodes}
            for n in self.nodes:
                for lab, s in n.succ:
                    p[s].append((lab, n.id))
            self._preds = p
        return self._preds

    def reachable(self, start: int, edge_ok=None, stop=None) -> set[int]:
        """Node ids reachable from `start` (exclusive of start unless on a cycle).  edge_ok(node, label, succ)->bool filters
        edges, `stop` nodes are reached but not expanded."""
        seen = set()
        stack = [start]
        while stack:
            i = stack.pop()
            n = self.nodes[i]
            if stop and i in stop and i != start:
                continue
            for lab, s in n.succ:
                if edge_ok is not None and not edge_ok(n, lab, s):
                    continue
                if s not in seen:
                    seen.add(s)
                    stack.append(s)
        return seen

    def find(self, pred) -> list[Node]:
        return [n for n in self.nodes if pred(n)]

    def node_exprs(self, n: Node):
        """The AST that is *evaluated at* node n (not the nested bodies of compound statements)."""
        a = n.ast
        if a is None:
            return []
        if n.kind == 'iter':
            return [a.iter, a.target]
        if n.kind == 'with':
            out = []
            for it in a.items:
                out.append(it.context_expr)
                if it.optional_vars is not None:
                    out.append(it.optional_vars)
            return out
        if n.kind == 'case':
            return [a.pattern] + ([a.guard] if a.guard else [])
        if n.kind in ('with_exit', 'dispatch', 'exit', 'raise', 'entry'):
            return []
        if n.kind == 'except':
            return [a.type] if a.type else []
        if n.info.get('nested'):
            return list(a.decorator_list)
        return [a]


def subnodes(cfg: CFG, n: Node, include_lambda_bodies: bool = False):
    """All AST nodes evaluated at CFG node n, in source order, not descending into nested defs / lambdas."""
    key = '_sub1' if include_lambda_bodies else '_sub0'
    c = n.info.get(key)
    if c is not None:
        return c
    out = n.info[key] = []
    for e in cfg.node_exprs(n):
        stack = [e]
        while stack:
            x = stack.pop()
            out.append(x)
            if isinstance(x, (ast.FunctionDef, ast.AsyncFunctionDef, ast.ClassDef)):
                continue
            if isinstance(x, ast.Lambda) and not include_lambda_bodies:
                continue
            stack.extend(list(ast.iter_child_nodes(x))[::-1])
    return out


# ----------------------------------------------------------------------------------------------------------------------
# forward dataflow

def solve(cfg: CFG, init, transfer, join, max_iter: int = 200000):
    """Forward worklist solver.  transfer(node, state) -> state | {label: state|None}.  States must be hashable or
    comparable with ==; None means unreachable.  Returns {node id: in-state}."""
    ins = {cfg.entry: init}
    work = [cfg.entry]
    it = 0
    while work:
        it += 1
        if it > max_iter:
            raise RuntimeError('dataflow did not converge')
        i = work.pop()
        n = cfg.nodes[i]
        st = ins.get(i)
        if st is None:
            continue
        out = transfer(n, st)
        for lab, s in n.succ:
            o = out.get(lab, out.get('*')) if isinstance(out, dict) else out
            if o is None:
                continue
            old = ins.get(s)
            cfg._join_target = s          # lets a join keep per-node widening decisions (see constprop.ConstFlow._join)
            new = o if old is None else join(old, o)
            if old is None or new != old:
                ins[s] = new
                work.append(s)
    return ins


# ----------------------------------------------------------------------------------------------------------------------
# truthiness facts for correlated-branch pruning (DESIGN §1.5b)

def test_facts(test: ast.AST, truth: bool) -> dict[str, bool] | None:
    """Facts {name: truthy?} implied by `test` evaluating to `truth`.  Only simple shapes; {} if nothing is implied.
    Keys: plain names, or 'name is None' pseudo-keys as 'name#none'."""
    if isinstance(test, ast.UnaryOp) and isinstance(test.op, ast.Not):
        return test_facts(test.operand, not truth)
    if isinstance(test, ast.Name):
        return {test.id: truth}
    if isinstance(test, ast.NamedExpr) and isinstance(test.target, ast.Name):
        return {test.target.id: truth}
    if isinstance(test, ast.Compare) and len(test.ops) == 1 and isinstance(test.left, ast.Name) and \
            isinstance(test.comparators[0], ast.Constant) and test.comparators[0].value is None:
        if isinstance(test.ops[0], ast.Is):
            return {test.left.id + '#none': truth}
        if isinstance(test.ops[0], ast.IsNot):
            return {test.left.id + '#none': not truth}
    if isinstance(test, ast.BoolOp):
        if isinstance(test.op, ast.And) and truth:
            out = {}
            for v in test.values:
                out.update(test_facts(v, True) or {})
            return out
        if isinstance(test.op, ast.Or) and not truth:
            out = {}
            for v in test.values:
                out.update(test_facts(v, False) or {})
            return out
    return {}


def assigned_names(node: ast.AST) -> set[str]:
    out = set()
    for x in ast.walk(node):
        if isinstance(x, ast.Name) and isinstance(x.ctx, (ast.Store, ast.Del)):
            out.add(x.id)
    return out
