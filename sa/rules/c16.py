"""C16 — scope analysis agrees with Python's symbol table: the two rule tables.

R16.1  scope table: _SCOPE_WALK_FUNCS covers every scope-introducing node kind; the attribute paths pushed by the scope
       helpers (both direction arms) equal the language-reference oracle for "evaluated in the enclosing scope".
R16.2  binder exhaustiveness: every identifier-typed field of the grammar that *binds* a name is walked by
       scope_symbols() (class in the walk filter, branch that reads the field).
Not decided: behaviour of the generator composition (e.g. names under a comprehension's first iterable when the walk
filters by type), classification arithmetic (free / local) on concrete programs.
"""
from __future__ import annotations

import ast

from ..model import AnalysisError, norm, walk_no_nested, call_name
from ..consteval import ClassTok, FuncTok
from .. import tables as T
from .c14 import find_back_ifs

PROP = 'C16'

# --- oracle: language reference 4.2.2 / 6.2.4 / 8.7, PEP 572, PEP 695 --------------------------------------------------------
SCOPE_KINDS = {'FunctionDef', 'AsyncFunctionDef', 'ClassDef', 'Lambda', 'ListComp', 'SetComp', 'DictComp', 'GeneratorExp'}

FUNCDEF_OUTER = {'decorator_list[]', 'type_params[].bound', 'type_params[].default_value',
                 'args.posonlyargs[].annotation', 'args.args[].annotation', 'args.defaults[]', 'args.vararg.annotation',
                 'args.kwonlyargs[].annotation', 'args.kw_defaults[]', 'args.kwarg.annotation', 'returns'}
CLASSDEF_OUTER = {'decorator_list[]', 'type_params[].bound', 'type_params[].default_value', 'bases[]', 'keywords[]'}
LAMBDA_OUTER = {'args.defaults[]', 'args.kw_defaults[]'}
ARGUMENTS_INNER = {'posonlyargs[]', 'args[]', 'vararg', 'kwonlyargs[]', 'kwarg'}           # parameters themselves are in scope
COMPREHENSION_INNER = {'target', 'iter', 'ifs[]'}                                        # `iter` only if not the first one

# keyed by the node class whose row in _SCOPE_WALK_FUNCS names the helper (the helpers are found through the table, not by name)
ORACLE = {
    'FunctionDef': FUNCDEF_OUTER,
    'AsyncFunctionDef': FUNCDEF_OUTER,
    'ClassDef': CLASSDEF_OUTER,
    'Lambda': LAMBDA_OUTER,
    'arguments': ARGUMENTS_INNER,
    'comprehension': COMPREHENSION_INNER,
}
# classes that share one helper
HELPER_GROUPS = [{'FunctionDef', 'AsyncFunctionDef'}, {'ClassDef'}, {'Lambda'}, {'arguments'}, {'arg'}, {'TypeVar', 'ParamSpec', 'TypeVarTuple'},
                 {'comprehension'}, {'ListComp', 'SetComp', 'DictComp', 'GeneratorExp'}]


def scope_helper(ctx, cname):
    """FuncInfo list of the helper _SCOPE_WALK_FUNCS names for class `cname`."""
    S = ctx.ev.get('fst_traverse', '_SCOPE_WALK_FUNCS')
    for k, row in S.items():
        if getattr(k, 'name', None) == cname and isinstance(row, tuple) and row and isinstance(row[0], FuncTok):
            return ctx.repo.find_funcs(row[0].module, row[0].qualname) or ctx.repo.mod(row[0].module).func(row[0].qualname)
    raise AnalysisError(f'_SCOPE_WALK_FUNCS has no helper for {cname}')

# identifier-typed fields of the grammar: binder or not (completeness of this table against FIELDS is checked)
BINDERS = {('FunctionDef', 'name'), ('AsyncFunctionDef', 'name'), ('ClassDef', 'name'), ('arg', 'arg'),
           ('alias', 'name'), ('alias', 'asname'), ('ExceptHandler', 'name'), ('MatchAs', 'name'), ('MatchStar', 'name'),
           ('MatchMapping', 'rest'), ('TypeVar', 'name'), ('ParamSpec', 'name'), ('TypeVarTuple', 'name'),
           ('Global', 'names'), ('Nonlocal', 'names'), ('Name', 'id')}
NON_BINDERS = {('Attribute', 'attr'): 'attribute name', ('keyword', 'arg'): 'keyword argument name',
               ('ImportFrom', 'module'): 'module path', ('MatchClass', 'kwd_attrs'): 'attribute names',
               ('_pattern_attrlikes', 'kwd_attrs'): 'attribute names'}
# where the binder field is read in scope_symbols: class whose branch handles it (alias is handled under Import/ImportFrom)
HANDLED_UNDER = {'alias': ('Import', 'ImportFrom')}


# ----------------------------------------------------------------------------------------------------------------------
# symbolic path extraction for the stack_* helpers

class PathEnv:
    def __init__(self, fn, root='ast', truth=None):
        self.fn, self.root = fn, root
        self.truth = truth or (lambda e: None)          # decides a test when the caller has specialised the function (else None)
        self.env: dict[str, set] = {}
        self.tuple_env: dict[str, list] = {}
        self.listlit: dict[str, set] = {}

    def paths(self, e) -> set:
        if isinstance(e, ast.Name):
            if e.id == self.root:
                return {''}
            return set(self.env.get(e.id, ()))
        if isinstance(e, ast.NamedExpr):
            return self.paths(e.value)
        if isinstance(e, ast.Attribute):
            return {(p + '.' if p else '') + e.attr for p in self.paths(e.value)}
        if isinstance(e, ast.Call):
            cn = call_name(e)
            if cn == 'getattr' and len(e.args) >= 2 and isinstance(e.args[1], ast.Constant):
                return {(p + '.' if p else '') + e.args[1].value for p in self.paths(e.args[0])}
            if cn in ('reversed', 'list', 'tuple', 'iter') and e.args:
                return self.paths(e.args[0])
            if cn == 'copy' and isinstance(e.func, ast.Attribute):
                return self.paths(e.func.value)
            return set()
        if isinstance(e, ast.Subscript):
            if isinstance(e.slice, ast.Slice):
                return self.paths(e.value)
            return {p + '[]' for p in self.paths(e.value)}
        if isinstance(e, ast.BinOp) and isinstance(e.op, ast.Add):
            return self.paths(e.left) | self.paths(e.right)
        if isinstance(e, ast.IfExp):
            tv = self.truth(e.test)
            if tv is not None:
                return self.paths(e.body if tv else e.orelse)
            return self.paths(e.body) | self.paths(e.orelse)
        if isinstance(e, ast.BoolOp):
            out = set()
            for v in e.values:
                out |= self.paths(v)
            return out
        return set()

    def zip_parts(self, e):
        """For `zip(a, b, ...)` (possibly wrapped in reversed(list(...))) -> [paths(a), paths(b), ...]"""
        while isinstance(e, ast.Call) and call_name(e) in ('reversed', 'list') and e.args:
            e = e.args[0]
        if isinstance(e, ast.Call) and call_name(e) == 'zip':
            return [self.paths(a) for a in e.args]
        return None

    def bind(self, name, ps):
        old = self.env.get(name, set())
        if not ps <= old:
            self.env[name] = old | ps
            return True
        return False

    def solve(self):
        changed = True
        it = 0
        while changed and it < 20:
            it += 1
            changed = False
            for n in walk_no_nested(self.fn):
                if isinstance(n, ast.Assign) and len(n.targets) == 1 and isinstance(n.targets[0], ast.Name) and isinstance(n.value, ast.List):
                    # a local list display: `elts = [ast.key, ast.value]` — its *elements* are the paths
                    ps = set()
                    for x in n.value.elts:
                        ps |= self.paths(x)
                    old = self.listlit.get(n.targets[0].id, set())
                    if not ps <= old:
                        self.listlit[n.targets[0].id] = old | ps
                        changed = True
                elif isinstance(n, ast.Assign) and len(n.targets) == 1 and isinstance(n.targets[0], ast.Name):
                    changed |= self.bind(n.targets[0].id, self.paths(n.value))
                elif isinstance(n, ast.NamedExpr) and isinstance(n.target, ast.Name):
                    changed |= self.bind(n.target.id, self.paths(n.value))
                elif isinstance(n, ast.For):
                    zp = self.zip_parts(n.iter)
                    if zp is not None and isinstance(n.target, ast.Tuple) and len(zp) == len(n.target.elts):
                        for t, ps in zip(n.target.elts, zp):
                            if isinstance(t, ast.Name):
                                changed |= self.bind(t.id, {p + '[]' for p in ps})
                    elif isinstance(n.target, ast.Name):
                        changed |= self.bind(n.target.id, {p + '[]' for p in self.paths(n.iter)})

    def pushes(self, stmts, stackname='stack') -> set:
        """Paths pushed by a statement list.  A walrus in an `if` test rebinds its name for that `if` only (the helpers
        reuse one temporary name `a` for several fields)."""
        out = set()
        for st in stmts:
            if isinstance(st, ast.If) and isinstance(st.test, ast.Constant):      # an inlined worker called with a literal mode
                out |= self.pushes(st.body if st.test.value else st.orelse, stackname)
                continue
            if isinstance(st, ast.If):
                saved = dict(self.env)
                for x in ast.walk(st.test):
                    if isinstance(x, ast.NamedExpr) and isinstance(x.target, ast.Name):
                        self.env[x.target.id] = self.paths(x.value)
                out |= self.pushes(st.body, stackname)
                out |= self.pushes(st.orelse, stackname)
                self.env = saved
                continue
            if isinstance(st, ast.For):
                out |= self.pushes(st.body, stackname)
                continue
            for n in ast.walk(st):
                if isinstance(n, ast.Call) and isinstance(n.func, ast.Attribute) and isinstance(n.func.value, ast.Name) and \
                        n.func.value.id == stackname and n.args:
                    if n.func.attr == 'append':
                        out |= self.paths(n.args[0])
                    elif n.func.attr == 'extend':
                        out |= {p + '[]' for p in self.paths(n.args[0])}
                elif isinstance(n, ast.Assign) and isinstance(n.targets[0], ast.Name) and n.targets[0].id == stackname:
                    out |= self._assigned(n.value)
        return out

    def _assigned(self, e) -> set:
        if isinstance(e, ast.BinOp) and isinstance(e.op, ast.Add):
            return self._assigned(e.left) | self._assigned(e.right)
        if isinstance(e, ast.IfExp):
            tv = self.truth(e.test)
            if tv is not None:
                return self._assigned(e.body if tv else e.orelse)
            return self._assigned(e.body) | self._assigned(e.orelse)
        if isinstance(e, ast.List):
            out = set()
            for x in e.elts:
                out |= self.paths(x)
            return out
        if isinstance(e, ast.NamedExpr):
            return self._assigned(e.value)
        inner = e
        while isinstance(inner, ast.Subscript) and isinstance(inner.slice, ast.Slice):
            inner = inner.value
        if isinstance(inner, ast.Name) and inner.id in self.listlit:
            return set(self.listlit[inner.id])
        return {p + '[]' for p in self.paths(e)}


def _if_chain(st):
    out = [st]
    while out[-1].orelse and len(out[-1].orelse) == 1 and isinstance(out[-1].orelse[0], ast.If):
        out.append(out[-1].orelse[0])
    return out


def run(ctx):
    F = T.fields(ctx)
    ctx.not_decided += ['generator composition behaviour beyond R16.1c/d (e.g. a walrus inside a lambda inside a comprehension)',
                        'load/store/free/local classification arithmetic on concrete programs']
    ctx.assumptions = ['scope oracle frozen from the language reference (4.2.2, 6.2.4, 8.7), PEP 572 and PEP 695']

    # ---- R16.1a registry ------------------------------------------------------------------------------------------------
    ctx.rule('R16.1a', '_SCOPE_WALK_FUNCS has an entry for every scope-introducing node kind and for arguments / arg / type '
                       'params / comprehension, mapped to the helper of the right kind; generator flag matches the helper', 14)
    S = ctx.ev.get('fst_traverse', '_SCOPE_WALK_FUNCS')
    want = {c: i for i, g in enumerate(HELPER_GROUPS) for c in g}
    gen_kinds = {'ListComp', 'SetComp', 'DictComp', 'GeneratorExp'}
    have = {k.name: v for k, v in S.items()}
    for cname, helper in want.items():
        row = have.get(cname)
        # the classes of one group share one helper, two groups never do (what the helper pushes is checked per class in R16.1b)
        ok = isinstance(row, tuple) and len(row) == 2 and isinstance(row[0], FuncTok)
        if ok:
            same = [have.get(c2) for c2 in HELPER_GROUPS[helper]]
            other = [have.get(c2) for i2, g2 in enumerate(HELPER_GROUPS) if i2 != helper for c2 in g2]
            ok = all(isinstance(r2, tuple) and r2 and isinstance(r2[0], FuncTok) and r2[0].key == row[0].key for r2 in same) and \
                not any(isinstance(r2, tuple) and r2 and isinstance(r2[0], FuncTok) and r2[0].key == row[0].key for r2 in other)
            helper = row[0].name
        if ok:
            fis = ctx.repo.find_funcs('fst_traverse', row[0].qualname)
            def yields_values(fn_node, depth=0):
                # a generator function, or a plain function whose every return hands back the result of calling one (delegation)
                if any(isinstance(n, (ast.Yield, ast.YieldFrom)) for n in walk_no_nested(fn_node)):
                    return True
                rets = [n for n in walk_no_nested(fn_node) if isinstance(n, ast.Return) and n.value is not None]
                if not rets or depth > 2:
                    return False
                for r in rets:
                    v = r.value
                    if not (isinstance(v, ast.Call) and isinstance(v.func, ast.Attribute) and norm(v.func.value) == 'self'):
                        return False
                    tgt = ctx.repo.mod('fst_traverse').func('_ScopeContext.' + v.func.attr)
                    if not tgt or not yields_values(tgt[0].node, depth + 1):
                        return False
                return True
            is_gen = yields_values(fis[0].node) if fis else None
            ok = fis and is_gen == row[1] and (row[1] is True) == (cname in gen_kinds)
        ctx.check('R16.1a', bool(ok), 'fst_traverse', '_SCOPE_WALK_FUNCS', f'{cname}: {helper}',
                  f'{cname} must be handled by _ScopeContext.{helper} (with matching generator flag); found {row!r}: the scope '
                  f'walk would descend into parts that belong to another scope, or call a generator as a function')
    for cname in set(have) - set(want):
        ctx.bad('R16.1a', 'fst_traverse', '_SCOPE_WALK_FUNCS', cname, 'entry for a node kind that does not need scope handling')
    for cname in SCOPE_KINDS:
        ctx.check('R16.1a', cname in have, 'fst_traverse', '_SCOPE_WALK_FUNCS', f'scope kind {cname}', 'scope-introducing kind has no entry')

    # ---- R16.1b pushed paths vs oracle ------------------------------------------------------------------------------------
    ctx.rule('R16.1b', 'the attribute paths each scope helper pushes (back arm and forward arm separately) equal the '
                       'language-reference set of parts that belong to the enclosing (resp. own) scope', 10)
    done_helpers = set()
    for cname_, oracle in ORACLE.items():
        for fi in scope_helper(ctx, cname_):
            if fi.key in done_helpers:
                continue
            done_helpers.add(fi.key)
            q = fi.qualname
            from ..inline import inlined, simplify
            fnode, n_inl = inlined(ctx.repo, fi)      # what the helper does, workers it was split into included
            if n_inl:
                def const_strs(e, fi=fi):
                    try:
                        v = ctx.ev.eval(e, dict(ctx.ev.env(fi.module)), fi.module)
                    except Exception:
                        return None
                    return list(v) if isinstance(v, (tuple, list)) and v and all(isinstance(x, str) for x in v) else None
                fnode = simplify(fnode, const_strs)
            hps = [a.arg for a in fnode.args.posonlyargs + fnode.args.args]
            if len(hps) < 3:
                raise AnalysisError(f'{q}: helper parameters (context, node, stack) not found')
            root_name, stack_name = hps[1], hps[2]
            pe = PathEnv(fnode, root_name)
            pe.solve()
            ifs = find_back_ifs(fnode)
            if not ifs:
                raise AnalysisError(f'{q}: no direction arms found')
            for n in ifs:
                for arm_name, arm in (('back', n.body), ('forward', n.orelse)):
                    got = pe.pushes(arm, stack_name)
                    ctx.check('R16.1b', got == oracle, fi.module, fi.qualname, f'{arm_name} arm pushes {sorted(got)}',
                              f'{arm_name} arm of {q} pushes {sorted(got)}; Python scoping requires exactly {sorted(oracle)} '
                              f'(missing {sorted(oracle - got)}, extra {sorted(got - oracle)})', n.lineno,
                              sample={'helper': q, 'arm': arm_name, 'paths': sorted(got)})
    # first iterable exclusion
    fi = scope_helper(ctx, 'comprehension')[0]
    rootc = [a.arg for a in fi.node.args.posonlyargs + fi.node.args.args][1]

    def excludes_first_iter(t):
        # `(a := <node>.iter) is not <ctx>.scope_first_iter`
        return any(isinstance(c, ast.Compare) and len(c.ops) == 1 and isinstance(c.ops[0], ast.IsNot) and
                   any(isinstance(y, ast.Attribute) and y.attr == 'scope_first_iter' for y in ast.walk(c.comparators[0])) and
                   any(isinstance(y, ast.Attribute) and y.attr == 'iter' and norm(y.value) == rootc for y in ast.walk(c.left))
                   for c in ast.walk(t))
    guards = [n for n in walk_no_nested(fi.node) if isinstance(n, ast.If) and excludes_first_iter(n.test)]
    ctx.check('R16.1b', len(guards) == 2, fi.module, fi.qualname,
              'iter pushed only `if (a := ast.iter) is not self.scope_first_iter`',
              'the first iterable of the root comprehension belongs to the enclosing scope and must be excluded in both arms',
              fi.lineno)
    # create(): initial stacks, per root class.  The function (or, with a dispatch table {class: builder}, the builder of the class) is
    # specialised for each scope-root class by deciding its tests on the class of the root; what is pushed on the feasible statements has to
    # be the in-scope parts of that class (both directions together).
    cr = ctx.repo.funcs('fst_traverse', '_ScopeContext.create')[0]
    COMP_ALL = {'elt', 'key', 'value', 'generators[]'}
    WANT = {'FunctionDef': {'type_params[]', 'args', 'body[]'}, 'AsyncFunctionDef': {'type_params[]', 'args', 'body[]'},
            'Lambda': {'args', 'body'}, 'ClassDef': {'type_params[]', 'body[]'},
            'ListComp': {'elt', 'generators[]'}, 'SetComp': {'elt', 'generators[]'}, 'GeneratorExp': {'elt', 'generators[]'},
            'DictComp': {'key', 'value', 'generators[]'}}
    from ..cfg import CFG, subnodes

    def specialised_pushes(fi_, root, K):
        fn_ = fi_.node
        cls_vars = set()
        for x in ast.walk(fn_):
            tg = val = None
            if isinstance(x, ast.Assign) and len(x.targets) == 1:
                tg, val = x.targets[0], x.value
            elif isinstance(x, ast.NamedExpr):
                tg, val = x.target, x.value
            if isinstance(tg, ast.Name) and isinstance(val, ast.Attribute) and val.attr == '__class__' and norm(val.value) == root:
                cls_vars.add(tg.id)
        boolenv = {}

        def is_cls(e):
            return (isinstance(e, ast.Name) and e.id in cls_vars) or (isinstance(e, ast.Attribute) and e.attr == '__class__' and norm(e.value) == root)

        def truth(e):
            if isinstance(e, ast.NamedExpr):
                v = truth(e.value)
                if isinstance(e.target, ast.Name) and v is not None:
                    boolenv.setdefault(e.target.id, set()).add(v)
                return v
            if isinstance(e, ast.UnaryOp) and isinstance(e.op, ast.Not):
                v = truth(e.operand)
                return None if v is None else not v
            if isinstance(e, ast.BoolOp):
                vs = [truth(v) for v in e.values]
                if isinstance(e.op, ast.And):
                    return False if False in vs else (True if all(v is True for v in vs) else None)
                return True if True in vs else (False if all(v is False for v in vs) else None)
            if isinstance(e, ast.Compare) and len(e.ops) == 1 and is_cls(e.left):
                S = T.classes_mentioned(ctx, fi_.module, e.comparators[0])
                if not S:
                    return None
                op = e.ops[0]
                if isinstance(op, (ast.Is, ast.Eq)):
                    return K in S
                if isinstance(op, (ast.IsNot, ast.NotEq)):
                    return K not in S
                if isinstance(op, ast.In):
                    return K in S
                if isinstance(op, ast.NotIn):
                    return K not in S
            if isinstance(e, ast.Name) and len(boolenv.get(e.id, ())) == 1:
                return next(iter(boolenv[e.id]))
            return None
        # flags bound from a class test: `is_def = ast.__class__ in ASTS_LEAF_FUNCDEF`, `(is_elt := ...)`.  Only bindings on statements that
        # are feasible for this class count (`is_def = True` in the ClassDef arm says nothing about a Lambda): iterate to a fixed point.
        cfg_ = CFG(fn_)

        def edge(n_, lab, s_):
            if lab == 'exc':
                return False
            if n_.kind == 'test' and lab in ('true', 'false') and isinstance(n_.ast, ast.expr):
                v = truth(n_.ast)
                if v is not None:
                    return lab == ('true' if v else 'false')
            return True
        reach = set(range(len(cfg_.nodes)))
        for _ in range(4):
            boolenv.clear()
            for i in sorted(reach):
                for x in subnodes(cfg_, cfg_.nodes[i]):
                    if isinstance(x, ast.Assign) and len(x.targets) == 1 and isinstance(x.targets[0], ast.Name):
                        if isinstance(x.value, ast.Constant) and isinstance(x.value.value, bool):
                            boolenv.setdefault(x.targets[0].id, set()).add(x.value.value)
                        else:
                            v = truth(x.value)
                            if v is not None:
                                boolenv.setdefault(x.targets[0].id, set()).add(v)
                    elif isinstance(x, ast.NamedExpr):
                        truth(x)
            new_reach = cfg_.reachable(cfg_.entry, edge) | {cfg_.entry}
            if new_reach == reach:
                break
            reach = new_reach
        pe_ = PathEnv(fn_, root, truth)
        pe_.solve()
        got = set()
        for i in reach:
            nd = cfg_.nodes[i]
            if nd.kind == 'stmt' and isinstance(nd.ast, ast.stmt) and not isinstance(nd.ast, (ast.If, ast.For, ast.While, ast.Try, ast.With)):
                got |= pe_.pushes([nd.ast])
        return got
    # dispatch table in create(): {class: builder(root, back)}
    table = None
    for x in ast.walk(cr.node):
        if isinstance(x, ast.Call) and isinstance(x.func, ast.Attribute) and x.func.attr == 'get' and isinstance(x.func.value, ast.Name) and x.args and \
                isinstance(x.args[0], ast.Attribute) and x.args[0].attr == '__class__':
            try:
                tv = ctx.ev.get(cr.module, x.func.value.id)
            except AnalysisError:
                tv = None
            if isinstance(tv, dict) and tv and all(isinstance(k, ClassTok) for k in tv):
                table = {k.name: v for k, v in tv.items()}
    root_create = [a.arg for a in cr.node.args.posonlyargs + cr.node.args.args][-1]
    n_roots = 0
    for K, want in WANT.items():
        if table is not None:
            row = table.get(K)
            g = ctx.repo.find_funcs(row.module, row.qualname) if isinstance(row, FuncTok) else []
            if not g:
                ctx.bad('R16.1b', cr.module, cr.qualname, f'create: {K}', f'{K} is a scope root but the dispatch table of create() has no builder for it', cr.lineno)
                continue
            gps = [a.arg for a in g[0].node.args.posonlyargs + g[0].node.args.args]
            got = specialised_pushes(g[0], gps[0], K)
        else:
            got = specialised_pushes(cr, root_create, K)
        n_roots += 1
        upper = (COMP_ALL if K.endswith('Comp') or K == 'GeneratorExp' else want | ({'type_params[]'} if K == 'Lambda' else set()))
        ctx.check('R16.1b', want <= got <= upper, cr.module, cr.qualname, f'create {K}: pushes {sorted(got)}',
                  f'initial scope stack for a {K} root {sorted(got)} differs from the in-scope parts {sorted(want)}', cr.lineno)
    # the first iterable of a root comprehension is recorded (`<generators>[0].iter`), in create() or the builder it dispatches to
    from ..struct import called_helpers
    units = called_helpers(ctx.repo, cr, 1) + ([g_ for v in (table or {}).values() if isinstance(v, FuncTok) for g_ in ctx.repo.find_funcs(v.module, v.qualname)])
    sfi = [n for u_ in units for n in walk_no_nested(u_.node) if isinstance(n, ast.Assign) and
           any(isinstance(y, ast.Attribute) and y.attr == 'iter' and isinstance(y.value, ast.Subscript) and isinstance(y.value.slice, ast.Constant) and
               y.value.slice.value == 0 and 'generators' in norm(y.value.value) for y in ast.walk(n.value))]
    ctx.check('R16.1b', len(sfi) >= 1, cr.module, cr.qualname, 'scope_first_iter = generators[0].iter ...', 'first iterable of the root comprehension is not recorded', cr.lineno)

    # ---- R16.1c walk_Comp: first iterable and walrus targets go to the enclosing scope ------------------------------------
    ctx.rule('R16.1c', 'walk_Comp yields exactly the first iterable (`a is first_iter`, first_iter = ast.generators[0].iter) and '
                       'walrus targets (parent NamedExpr, pfield target) of a nested comprehension to the enclosing scope', 3)
    wc = ctx.repo.funcs('fst_traverse', '_ScopeContext.walk_Comp')[0]
    from ..struct import parent_map, enclosing_tests
    # (1) the first iterable is selected structurally: `<param>.generators[0].iter`, bound to a local or handed to the helper that does the walk
    first = None
    wpar0 = parent_map(wc.node)
    p0 = [x.arg for x in wc.node.args.args if x.arg != 'self'][0]
    for v in ast.walk(wc.node):
        if isinstance(v, ast.Attribute) and v.attr == 'iter' and isinstance(v.value, ast.Subscript) and isinstance(v.value.value, ast.Attribute) and \
                v.value.value.attr == 'generators' and norm(v.value.value.value) == p0 and isinstance(v.value.slice, ast.Constant) and v.value.slice.value == 0:
            par_ = wpar0.get(v)
            if isinstance(par_, ast.Assign) and isinstance(par_.targets[0], ast.Name):
                first = par_.targets[0].id
            else:
                if isinstance(par_, ast.keyword):
                    kwname, par_ = par_.arg, wpar0.get(par_)
                else:
                    kwname = None
                if isinstance(par_, ast.Call) and isinstance(par_.func, ast.Attribute) and norm(par_.func.value) == 'self' and \
                        (kwname is not None or v in par_.args):
                    helper = ctx.repo.mod('fst_traverse').func('_ScopeContext.' + par_.func.attr)
                    if helper:
                        hp = [x.arg for x in helper[0].node.args.args if x.arg != 'self']
                        first = kwname if kwname is not None else hp[par_.args.index(v)]
                        wc = helper[0]
    wpar = parent_map(wc.node)
    ctx.check('R16.1c', first is not None, wc.module, wc.qualname, 'first iterable selection',
              'walk_Comp does not select `<comprehension>.generators[0].iter` (the only part of a comprehension evaluated in the enclosing scope)', wc.lineno)
    # the enumerating loop `for f in <gen>` where <gen> = <node>.walk(...)
    loops = [n for n in walk_no_nested(wc.node) if isinstance(n, ast.For) and isinstance(n.target, ast.Name)]
    lv = loops[0].target.id if loops else None
    yields = [y for y in walk_no_nested(wc.node) if isinstance(y, ast.Yield) and isinstance(y.value, ast.Name)]

    def guards(y):
        return [(t, tr) for t, tr in enclosing_tests(wc.node, y, wpar)]

    def mentions(t, pred):
        return any(pred(x) for x in ast.walk(t))

    y_first = [y for y in yields if any(tr and mentions(t, lambda x: isinstance(x, ast.Compare) and isinstance(x.ops[0], ast.Is) and
                                                      norm(x.comparators[0]) == first) for t, tr in guards(y))]
    ctx.check('R16.1c', bool(y_first), wc.module, wc.qualname, 'first iterable test',
              'no yield of the walked node is control dependent on `<node> is <first iterable>`: the first iterable is not handed to the enclosing scope',
              wc.lineno)
    y_walrus = [y for y in yields if any(tr and mentions(t, lambda x: isinstance(x, ast.Name) and x.id == 'NamedExpr') and
                                         mentions(t, lambda x: isinstance(x, ast.Constant) and x.value == 'target') for t, tr in guards(y))]
    # the other encoding: the decision is taken at the NamedExpr node itself and its `.target` is yielded.  Then the NamedExpr must not be pruned
    # from the locating walk: its value is evaluated in the same scope and can hold further walruses (`(a := (b := f(x)))`)
    pruned_at_walrus = None
    if not y_walrus:
        tbinds = {}
        for n_ in walk_no_nested(wc.node):
            if isinstance(n_, ast.Assign) and len(n_.targets) == 1 and isinstance(n_.targets[0], ast.Name) and \
                    any(isinstance(x, ast.Attribute) and x.attr == 'target' for x in ast.walk(n_.value)):
                tbinds.setdefault(n_.targets[0].id, []).append(n_)
        for y in yields:
            gs = [(t, tr) for t, tr in guards(y) if tr and mentions(t, lambda x: isinstance(x, ast.Name) and x.id == 'NamedExpr')]
            if not gs or y.value.id not in tbinds:
                continue
            # the arm of the class test that holds the yield
            cur = y
            while cur in wpar and not (isinstance(wpar[cur], ast.If) and wpar[cur].test is gs[0][0]):
                cur = wpar[cur]
            arm = wpar[cur].body if cur in wpar else []
            if not any(b in arm for bs in tbinds[y.value.id] for b in [bs]):
                continue
            y_walrus.append(y)
            for st in arm:
                for x in ast.walk(st):
                    if isinstance(x, ast.Call) and call_name(x) == 'send' and x.args and isinstance(x.args[0], ast.Constant) and x.args[0].value is False \
                            and loops and norm(x.func.value) == norm(loops[0].iter):
                        pruned_at_walrus = x
    ctx.check('R16.1c', bool(y_walrus), wc.module, wc.qualname, 'walrus target test',
              'no yield is control dependent on "parent is a NamedExpr and field is target": walrus targets of a nested comprehension are not handed '
              'to the enclosing scope (PEP 572)', wc.lineno)
    if pruned_at_walrus is not None:
        ctx.bad('R16.1c', wc.module, wc.qualname, 'walrus decided at the NamedExpr node and the node pruned',
                'the target is picked up at the NamedExpr and the locating walk is then told not to descend into it: a walrus inside its value '
                '(`(a := (b := f(x)))`, a nested comprehension, a lambda default) is evaluated in the same scope and is never handed to the enclosing scope',
                pruned_at_walrus.lineno)
    # ---- R16.1d the locating walk is not constrained by the caller's filter; the filter is applied to what is yielded -----------------
    ctx.rule('R16.1d', 'walk_Comp locates the first iterable / walrus targets with an unfiltered walk and applies the caller\'s `all` filter only '
                       'to what it yields', 1)
    filt_names = {'all'} | {n.targets[0].id for n in walk_no_nested(wc.node) if isinstance(n, ast.Assign) and isinstance(n.targets[0], ast.Name)
                            and norm(n.value) == 'self.all'}
    gens = [n.value for n in walk_no_nested(wc.node) if isinstance(n, ast.Assign) and isinstance(n.value, ast.Call) and call_name(n.value) == 'walk'
            and loops and norm(n.targets[0]) == norm(loops[0].iter)]
    if not gens:
        raise AnalysisError('walk_Comp: the enumerating walk was not found')
    g0 = gens[0]
    a0 = g0.args[0] if g0.args else next((k.value for k in g0.keywords if k.arg == 'all'), None)
    ctx.check('R16.1d', not (isinstance(a0, ast.Name) and a0.id in filt_names) and not (a0 is not None and norm(a0) == 'self.all'),
              wc.module, wc.qualname, f'locating walk: {norm(g0, 60)}',
              'the walk that has to find the first iterable and the walrus targets is filtered by the caller\'s `all` types: a first iterable of another '
              'class (e.g. the Call in `for i in range(n)`) is never seen, so nothing under it reaches the enclosing scope', g0.lineno)
    # ---- R16.1e a lambda inside the comprehension is its own scope -------------------------------------------------------------------
    ctx.rule('R16.1e', 'the walrus collection of walk_Comp does not descend into the body of a nested Lambda (own scope); it re-enters only through '
                       'the parts stack_Lambda assigns to the enclosing scope', 1)
    from ..struct import called_helpers

    def pushes_lambda_defaults_only(call):
        """The call re-enters the lambda through the parts that belong to the enclosing scope only: stack_Lambda, or a worker that reads the
        default values (`defaults`, `kw_defaults`) of an `arguments` node and never a `body`."""
        nm = call_name(call)
        if not nm:
            return False
        cands = ctx.repo.mod('fst_traverse').func('_ScopeContext.' + nm) if isinstance(call.func, ast.Attribute) else ctx.repo.find_funcs('fst_traverse', nm)
        for g in cands:
            attrs = {y.attr for h in called_helpers(ctx.repo, g, 1) for y in ast.walk(h.node) if isinstance(y, ast.Attribute)}
            if {'defaults', 'kw_defaults'} <= attrs and 'body' not in attrs:
                return True
        return False
    lam_arm = False
    for n in walk_no_nested(wc.node):
        if isinstance(n, ast.If):
            arms = [n]
            while arms[-1].orelse and len(arms[-1].orelse) == 1 and isinstance(arms[-1].orelse[0], ast.If):
                arms.append(arms[-1].orelse[0])
            for arm in arms:
                if any(isinstance(x, ast.Name) and x.id == 'Lambda' for x in ast.walk(arm.test)) and \
                        any(isinstance(x, ast.Call) and call_name(x) == 'send' and x.args and isinstance(x.args[0], ast.Constant) and x.args[0].value is False
                            and loops and norm(x.func.value) == norm(loops[0].iter) for b in arm.body for x in ast.walk(b)) and \
                        any(isinstance(x, ast.Call) and pushes_lambda_defaults_only(x) for b in arm.body for x in ast.walk(b)):
                    # the arm must be one of the loop's top-level decisions (not inside the first-iterable arm, which handles a lambda *as* first iterable)
                    if loops and arm in [y for st in loops[0].body if isinstance(st, ast.If) for y in _if_chain(st)]:
                        lam_arm = True
    ctx.check('R16.1e', lam_arm, wc.module, wc.qualname, 'Lambda arm in the locating loop',
              'NamedExpr targets inside the body of a lambda that sits in a comprehension are handed to the enclosing scope although they bind in the '
              'lambda (symtable: local to the lambda)', wc.lineno)
    unfiltered = not (isinstance(a0, ast.Name) and a0.id in filt_names) and not (a0 is not None and norm(a0) == 'self.all')
    from .c14 import filter_callable_names
    filt_callables = filter_callable_names(ctx)
    for y in (y_first + y_walrus) if unfiltered else []:
        gd = any(tr and mentions(t, lambda x: isinstance(x, ast.Call) and call_name(x) in filt_callables) for t, tr in guards(y))
        ctx.check('R16.1d', gd, wc.module, wc.qualname, f'yield {norm(y.value)} @{"first" if y in y_first else "walrus"}',
                  'a located node is yielded without asking the caller\'s filter', y.lineno)

    # ---- R16.2 binders ---------------------------------------------------------------------------------------------------
    ctx.rule('R16.2', 'every identifier field that binds a name is covered by scope_symbols(): its class is in the walk filter '
                      '_ASTS_LEAF_SCOPE_SYMBOLS and a branch for that class reads the field', 16)
    for c, fs in F.items():
        for f, t in fs:
            if t.rstrip('?*') == 'identifier' and (c.name, f) not in BINDERS and (c.name, f) not in NON_BINDERS:
                raise AnalysisError(f'identifier field {c.name}.{f} is not classified as binder / non-binder in the C16 oracle')
    filt = ctx.ev.get('fst', '_ASTS_LEAF_SCOPE_SYMBOLS')
    filt_names = {c.name for c in filt if isinstance(c, ClassTok)}
    ss = ctx.repo.funcs('fst', 'FST.scope_symbols')[0]
    # the walk must use the filter
    walks = [n for n in walk_no_nested(ss.node) if isinstance(n, ast.Call) and call_name(n) == 'walk']
    ok = any(any(kw.arg == 'all' and norm(kw.value) == '_ASTS_LEAF_SCOPE_SYMBOLS' for kw in w.keywords) and
             any(kw.arg == 'scope' and norm(kw.value) == 'True' for kw in w.keywords) for w in walks)
    ctx.check('R16.2', ok, 'fst', 'FST.scope_symbols', 'self.walk(all=_ASTS_LEAF_SCOPE_SYMBOLS, scope=True)',
              'scope_symbols must walk with the binder filter and scope=True', ss.lineno)
    branches = symbol_branches(ctx, ss)
    for cname, field in sorted(BINDERS):
        under = HANDLED_UNDER.get(cname, (cname,))
        for u in under:
            in_filter = u in filt_names
            reads = branches.get(u, set())
            ok = in_filter and field in reads
            ctx.check('R16.2', ok, 'fst', 'FST.scope_symbols', f'{cname}.{field}' + (f' (under {u})' if u != cname else ''),
                      f'name bound by {cname}.{field} is never reported: ' +
                      (f'{u} is not in _ASTS_LEAF_SCOPE_SYMBOLS' if not in_filter else
                       f'the {u} branch of scope_symbols reads {sorted(reads)} but not `{field}`'), ss.lineno,
                      sample={'binder': f'{cname}.{field}', 'branch_reads': sorted(reads)})
    check_category_independence(ctx)
    check_prune_only_handled(ctx)


def symbol_branches(ctx, ss) -> dict[str, set]:
    """{class name: attributes read on the node (a / alias_) in the branch of the if/elif chain that handles it}"""
    loop = None
    for n in walk_no_nested(ss.node):
        it = n.iter.value if isinstance(n, ast.For) and isinstance(n.iter, ast.NamedExpr) else getattr(n, 'iter', None)     # `for f in (gen := X.walk(..))`
        if isinstance(n, ast.For) and isinstance(it, ast.Call) and call_name(it) == 'walk':
            loop = n
    if loop is None:
        raise AnalysisError('scope_symbols: walk loop not found')
    # the class variable of the dispatch (`a_cls = a.__class__`), the node it belongs to, and the locals derived from the node's fields
    cls_vars, node_vars = set(), set()
    for x in ast.walk(loop):
        tg = val = None
        if isinstance(x, ast.Assign) and len(x.targets) == 1:
            tg, val = x.targets[0], x.value
        elif isinstance(x, ast.NamedExpr):
            tg, val = x.target, x.value
        if isinstance(tg, ast.Name) and isinstance(val, ast.Attribute) and val.attr == '__class__' and isinstance(val.value, ast.Name):
            cls_vars.add(tg.id)
            node_vars.add(val.value.id)
    derived = set(node_vars)
    for x in ast.walk(loop):
        if isinstance(x, ast.For) and isinstance(x.target, ast.Name) and any(isinstance(y, ast.Name) and y.id in node_vars for y in ast.walk(x.iter)):
            derived.add(x.target.id)
        elif isinstance(x, (ast.Assign, ast.NamedExpr)):
            tg = x.targets[0] if isinstance(x, ast.Assign) else x.target
            if isinstance(tg, ast.Name) and isinstance(x.value, ast.Attribute) and isinstance(x.value.value, ast.Name) and x.value.value.id in node_vars and \
                    x.value.attr != '__class__':
                derived.add(tg.id)

    def on_cls(test):
        return any(isinstance(y, ast.Compare) and isinstance(y.left, ast.Name) and y.left.id in cls_vars for y in ast.walk(test))
    chain = None
    for st in loop.body:
        if isinstance(st, ast.If) and on_cls(st.test):
            chain = st
            break
    if chain is None:
        raise AnalysisError('scope_symbols: dispatch chain on the node class not found')
    env = dict(ctx.ev.env('fst'))
    out: dict[str, set] = {}
    handled = set()

    def reads(stmts):
        r = set()
        for s in stmts:
            for x in ast.walk(s):
                if isinstance(x, ast.Attribute) and isinstance(x.value, ast.Name) and x.value.id in derived:
                    r.add(x.attr)
        return r

    def classes_of(test) -> set:
        cs = set()
        for x in ast.walk(test):
            if isinstance(x, ast.Compare) and isinstance(x.left, ast.Name) and x.left.id in cls_vars and len(x.ops) == 1:
                v = ctx.ev.eval(x.comparators[0], dict(env), 'fst')
                if isinstance(x.ops[0], ast.Is) and isinstance(v, ClassTok):
                    cs.add(v.name)
                elif isinstance(x.ops[0], ast.In) and isinstance(v, (set, frozenset, tuple, list)):
                    cs |= {c.name for c in v if isinstance(c, ClassTok)}
        return cs
    def table_arm(test):
        """`name_attr := TABLE.get(<class var>)` with TABLE = {class: attribute name}: the arm of every key, reading that attribute through
        `getattr(<node>, name_attr)`.  -> {class name: attribute} or None"""
        for x in ast.walk(test):
            if isinstance(x, ast.Call) and isinstance(x.func, ast.Attribute) and x.func.attr == 'get' and isinstance(x.func.value, ast.Name) and \
                    x.args and isinstance(x.args[0], ast.Name) and x.args[0].id in cls_vars:
                try:
                    tv = ctx.ev.get('fst', x.func.value.id)
                except AnalysisError:
                    continue
                if isinstance(tv, dict) and tv and all(isinstance(k, ClassTok) and isinstance(v, str) for k, v in tv.items()):
                    return {k.name: v for k, v in tv.items()}
        return None

    def on_cls(test, _plain=on_cls):
        return _plain(test) or table_arm(test) is not None
    cur = chain
    while True:
        cs = classes_of(cur.test)
        r = reads(cur.body)
        tab = table_arm(cur.test)
        if tab:
            uses_getattr = any(isinstance(x, ast.Call) and call_name(x) == 'getattr' and len(x.args) >= 2 and isinstance(x.args[0], ast.Name) and
                               x.args[0].id in derived for b_ in cur.body for x in ast.walk(b_))
            for c, attr in tab.items():
                out.setdefault(c, set()).update(r | ({attr} if uses_getattr else set()))
            cs = cs | set(tab)
        for c in cs:
            out.setdefault(c, set()).update(r)
        handled |= cs
        if len(cur.orelse) == 1 and isinstance(cur.orelse[0], ast.If) and on_cls(cur.orelse[0].test):
            cur = cur.orelse[0]
            continue
        # final else: nested tests (Nonlocal / Global)
        r = reads(cur.orelse)
        inner = set()
        for s in cur.orelse:
            for x in ast.walk(s):
                if isinstance(x, ast.If):
                    inner |= classes_of(x.test)
                if isinstance(x, ast.Assert):
                    inner |= classes_of(x.test)
        for c in inner:
            out.setdefault(c, set()).update(r)
        break
    return out


# ---- R16.3 -----------------------------------------------------------------------------------------------------------

def check_category_independence(ctx):
    """scope_symbols() computes several result categories selected by independent flags (`local`, `free`, ...).  A helper container that is
    filled only under one flag must not be read under another one: with the first flag off the second category is computed from an empty
    (or half-filled) set."""
    from ..struct import parent_map, enclosing_tests
    ctx.rule('R16.3', 'in scope_symbols() a container filled only under one category flag is not read outside that flag', 8)
    n = 0
    for fi in ctx.repo.funcs('fst', 'FST.scope_symbols'):
        fn = fi.node
        params = set(fi.params())
        par = parent_map(fn)

        def flags(node):
            return {t.id for t, truth in enclosing_tests(fn, node, par) if isinstance(t, ast.Name) and t.id in params and truth}

        MUT = ('update', 'add', 'append', 'extend', 'setdefault', 'difference_update', 'discard')
        names = set()
        for x in walk_no_nested(fn):
            if isinstance(x, ast.Assign) and isinstance(x.targets[0], ast.Name):
                v = x.value
                if isinstance(v, (ast.List, ast.Dict, ast.Set)) or (isinstance(v, ast.Call) and call_name(v) in ('set', 'dict', 'list')):
                    names.add(x.targets[0].id)
        for name in sorted(names):
            muts, reads, binds = [], [], []
            for x in walk_no_nested(fn):
                if isinstance(x, ast.Call) and isinstance(x.func, ast.Attribute) and isinstance(x.func.value, ast.Name) and x.func.value.id == name and \
                        x.func.attr in MUT:
                    muts.append(x)
                elif isinstance(x, ast.Name) and x.id == name:
                    if isinstance(x.ctx, ast.Store):
                        binds.append(x)
                    else:
                        p = par.get(x)
                        if not (isinstance(p, ast.Attribute) and p.attr in MUT):
                            reads.append(x)
            n += 1
            # flags under which the container gets its content: creation + every population
            fill = [flags(m) for m in muts] + [flags(b) for b in binds]
            common = set.intersection(*fill) if fill else set()
            mut_common = set.intersection(*[flags(m) for m in muts]) if muts else set()
            for guard in (common | mut_common):
                for r in reads:
                    if guard not in flags(r):
                        stmt = r
                        while stmt in par and not isinstance(stmt, ast.stmt):
                            stmt = par[stmt]
                        ctx.bad('R16.3', fi.module, fi.qualname, f'{name}: filled under `{guard}`, read in `{norm(stmt, 60)}`',
                                f'`{name}` gets its content only when `{guard}` is requested, but it is read where `{guard}` need not be set: with '
                                f'{guard}=False the other category is computed from an empty set (e.g. declared global / nonlocal names reported as free)',
                                r.lineno)
                        break
                else:
                    continue
                break
            else:
                ctx.ok('R16.3', f'{fi.module}|{fi.qualname}|{name}')
    if n < 8:
        raise AnalysisError(f'scope_symbols: only {n} helper containers found')


# ---- R16.4 -----------------------------------------------------------------------------------------------------------

def check_prune_only_handled(ctx):
    """scope_symbols() classifies names while it walks the scope.  Telling the walk not to descend below a node (`<gen>.send(False)`) in
    the arm of a node class is sound only if everything below that node is dealt with in the arm itself: every node-valued field of the class
    is read there (Import: the aliases), or the class has none (Global / Nonlocal).  `MatchAs` looks like a bare capture but also is
    `<pattern> as name`: pruning it hides every name bound or referenced inside the sub-pattern."""
    from ..struct import parent_map, enclosing_tests
    ctx.rule('R16.4', 'scope_symbols() prunes the walk below a node only in arms that handle all node-valued fields of that class themselves', 0)
    F = T.fields(ctx)
    byname = {c.name: fs for c, fs in F.items()}
    for ss in ctx.repo.funcs('fst', 'FST.scope_symbols'):
        par = parent_map(ss.node)
        env = dict(ctx.ev.env('fst'))
        for c in walk_no_nested(ss.node):
            if not (isinstance(c, ast.Call) and call_name(c) == 'send' and c.args and isinstance(c.args[0], ast.Constant) and c.args[0].value is False):
                continue
            # the arm: innermost enclosing `if` whose test names node classes
            classes, arm = set(), None
            for t, pol in enclosing_tests(ss.node, c, par):
                if pol:
                    cs = T.classes_mentioned(ctx, 'fst', t)
                    if cs:
                        classes = cs
                        break
            cur = c
            while cur in par and not (isinstance(par[cur], ast.If) and cur in par[cur].body):
                cur = par[cur]
            arm = par.get(cur)
            reads = {y.attr for b in (arm.body if isinstance(arm, ast.If) else []) for y in ast.walk(b) if isinstance(y, ast.Attribute)} | \
                {y.args[1].value for b in (arm.body if isinstance(arm, ast.If) else []) for y in ast.walk(b)
                 if isinstance(y, ast.Call) and call_name(y) == 'getattr' and len(y.args) >= 2 and isinstance(y.args[1], ast.Constant)}
            for cn in sorted(classes):
                unhandled = [f for f, ty in byname.get(cn, []) if T.is_ast_type(ty.rstrip('?*')) and f not in reads and
                             ty.rstrip('?*') not in ('expr_context',)]
                ctx.check('R16.4', not unhandled, ss.module, ss.qualname, f'send(False) in the {cn} arm',
                          f'the walk is told not to descend below a {cn}, but its node-valued field(s) {unhandled} are not handled in the arm: names '
                          f'bound or referenced inside them are never classified', c.lineno, sample={'class': cn, 'unhandled': unhandled})
