"""Shared path-sensitive typestate used by C07 (copy mode leaves the source alone) and C12 (failed edit leaves the target
alone): over the constant-propagating flow of one function it tracks

  $mut          the tree of `param` has been (permanently) modified -- set by the first mutating construct;
  $tmp:<acq>    a temporary normalisation of that tree is in force -- set by an acquire call, cleared by its release.

Acquire / release pairs (DESIGN R7.2), all defined in fst_get_slice.py:
"""
from __future__ import annotations

import ast
import re

from ..model import norm, call_name
from ..cfg import subnodes
from ..constprop import ConstFlow, lit

PAIRS = {
    '_normalize_solo_call_arg_genexp': '_restore_solo_call_arg_genexp',
    '_move_arglikes_into_one_field': '_split_arglikes_into_two_fields',
    '_move_Compare_left_into_comparators': '_move_Compare_first_comparator_into_left',
    '_add_MatchMapping_rest_as_real_node': '_remove_MatchMapping_rest_real_node',
    '_make_arguments_allargs_w_markers': '_remove_arguments_allargs_markers',
}
RELEASE_OF = {v: k for k, v in PAIRS.items()}
# pairs whose release may be skipped when the list handed to the acquire is empty afterwards (both fields empty: nothing to split)
SKIP_WHEN_EMPTY = {'_move_arglikes_into_one_field'}

# the request-validating family (DESIGN R12.3)
VALIDATOR_RE = re.compile(r'^(code_as\w*|_code_as\w*|_code_to_slice\w*|_coerce_\w+|_validate_\w+|validate_\w+|fixup_slice_indices|'
                          r'fixup_one_index|fixup_field_body|_fixup_slice_index_for_raw|check_options|_normalize_code\w*|'
                          r'_params_Compare|parse\w*|_parse\w*|_check_\w+|_put_one_NOT_IMPLEMENTED\w*|_get_one_NOT_IMPLEMENTED\w*)$')


def validator_calls(cfg, node):
    out = []
    for x in subnodes(cfg, node):
        if isinstance(x, ast.Call):
            cn = call_name(x)
            if cn and VALIDATOR_RE.match(cn):
                out.append(x)
            elif cn == 'code_as' and isinstance(x.func, ast.Attribute) and norm(x.func.value) == 'static':
                out.append(x)
    return out


def _first_arg_roots(ef, fi, call):
    """Roots of the tree argument of an acquire / release call (first positional, or receiver for bound calls)."""
    if call.args:
        return ef.expr_roots(fi, call.args[0])
    if isinstance(call.func, ast.Attribute):
        return ef.expr_roots(fi, call.func.value)
    return set()


class Flow:
    """Runs the typestate for (fi, param, consts).  After construction: .fl (ConstFlow), .events per node."""

    def __init__(self, ef, fi, param='self', consts=None):
        self.ef, self.fi, self.param = ef, fi, param
        self.consts = dict(consts or {})
        self.cfg = cfg = ef.cfg(fi)
        self._mut_cache = {}
        self.pair_calls = {}     # node id -> [(kind 'acq'|'rel', acquire name, call)]
        for n in cfg.nodes:
            if n.kind not in ('stmt', 'test', 'iter', 'with', 'case'):
                continue
            for x in subnodes(cfg, n):
                if isinstance(x, ast.Call):
                    cn = call_name(x)
                    if cn in PAIRS and param in _first_arg_roots(ef, fi, x):
                        self.pair_calls.setdefault(n.id, []).append(('acq', cn, x))
                    elif cn in RELEASE_OF and param in _first_arg_roots(ef, fi, x):
                        self.pair_calls.setdefault(n.id, []).append(('rel', RELEASE_OF[cn], x))
        keep = set()
        for evs in self.pair_calls.values():
            for kind, acq, call in evs:
                if kind == 'acq' and acq in SKIP_WHEN_EMPTY:
                    keep |= {a.id for a in call.args[1:2] if isinstance(a, ast.Name)}
        for n in cfg.nodes:
            if n.kind == 'stmt' and isinstance(n.ast, ast.Assign) and isinstance(n.ast.value, ast.Call) and \
                    call_name(n.ast.value) in SKIP_WHEN_EMPTY and isinstance(n.ast.targets[0], ast.Tuple):
                keep |= {t.id for t in n.ast.targets[0].elts if isinstance(t, ast.Name) and t.id != '_'}
        self.fl = ConstFlow(cfg, dict(consts or {}), self._hook, keep)

    def _hook(self, node, facts):
        if node.kind not in ('stmt', 'test', 'iter', 'with', 'case'):
            return None
        upd = {}
        for kind, acq, call in self.pair_calls.get(node.id, ()):
            if kind == 'acq':
                argname = None
                if acq in SKIP_WHEN_EMPTY:
                    # names whose emptiness means "nothing was moved": the list handed in, and the lists handed back
                    names = []
                    if len(call.args) >= 2 and isinstance(call.args[1], ast.Name):
                        names.append(call.args[1].id)
                    st = node.ast
                    if isinstance(st, ast.Assign) and st.value is call and isinstance(st.targets[0], ast.Tuple):
                        names += [t.id for t in st.targets[0].elts if isinstance(t, ast.Name) and t.id != '_']
                    argname = tuple(names) or None
                upd['$tmp:' + acq] = lit((call.lineno, argname))
            else:
                upd['$tmp:' + acq] = None
        # skipping the release under `if <list>:` false
        if node.kind == 'test' and isinstance(node.ast, ast.Name):
            pass
        if '$mut' not in facts:
            clean = {k: v for k, v in facts.items() if k[:1] != '$'}
            fk = tuple(sorted((k, repr(v)) for k, v in clean.items()))
            key = (node.id, fk)
            if key not in self._mut_cache:
                self._mut_cache[key] = self.ef.node_mutates(self.fi, self.cfg, node, self.param, [clean],
                                                            ignore=set(PAIRS) | set(RELEASE_OF), consts=self.consts)
            hits = self._mut_cache[key]
            if hits:
                mut = {'$mut': lit(getattr(hits[0], 'lineno', node.lineno))}
                # `if [not] helper(self, ...):` where the helper mutates only on the paths on which it returns a truthy value
                rv = self._return_correlated(node, hits, clean)
                if rv is not None:
                    edges = {}
                    for lab in ('true', 'false'):
                        callee_truth = (lab == 'true') != rv[0]
                        e = dict(upd)
                        if rv[1][callee_truth]:
                            e.update(mut)
                        edges[lab] = e
                    return {'@edges': edges}
                upd.update(mut)
        return upd or None

    def _return_correlated(self, node, hits, facts):
        """For a test node `f(...)` / `not f(...)` whose only mutating construct is that call: (negated?, {True: mutates when it
        returns truthy, False: mutates when it returns falsy}); None when not applicable."""
        if node.kind != 'test' or len(hits) != 1 or not isinstance(hits[0], ast.Call):
            return None
        t, neg = node.ast, False
        while isinstance(t, ast.UnaryOp) and isinstance(t.op, ast.Not):
            t, neg = t.operand, not neg
        if t is not hits[0]:
            return None
        ce = self.ef._ce(self.fi).get(id(t), [])
        if len(ce) != 1:
            return None
        cal, binding = ce[0]
        res = {True: False, False: False}
        for cc in self.ef.call_consts_all(cal, binding, [facts]):
            r = mutation_by_return(self.ef, cal, self._callee_param(cal, binding), cc)
            if r is None:
                return None
            res[True] |= r[True]
            res[False] |= r[False]
        return neg, res

    def _callee_param(self, cal, binding):
        for q, a in binding.items():
            if self.param in self.ef.expr_roots(self.fi, a):
                return q
        return 'self'


    # ------------------------------------------------------------------------------------------------------------------
    def states(self, node_id):
        return self.fl.all_facts(node_id)

    def tmp_held(self, d) -> dict:
        """{acquire name: (line, argname)} still in force under fact set d; honours the skip-when-empty idiom."""
        out = {}
        for k, v in d.items():
            if k.startswith('$tmp:'):
                acq = k[5:]
                line, argname = v[1]
                if argname is not None:
                    # one of the lists involved is known empty on this path (`if body:` / `if keywords:` false): nothing to restore
                    skip = False
                    for nm in (argname if isinstance(argname, tuple) else (argname,)):
                        av = d.get(nm)
                        if av is not None and (av == ('falsy',) or (av[0] == 'c' and not av[1])):
                            skip = True
                    if skip:
                        continue
                out[acq] = (line, argname)
        return out

    def exception_leaves(self, node, need_release: set | None = None) -> bool:
        """Does an exception raised while evaluating `node` leave the function -- and, if `need_release` names pairs in
        force, does it leave on a path that did not call their release?"""
        cfg = self.cfg
        for lab, s in node.succ:
            if lab != 'exc':
                continue
            if s == cfg.raise_:
                return True
            blockers = set()
            if need_release:
                for nid, evs in self.pair_calls.items():
                    # on a failure path nothing is known about how far the protected region got: only the complete form of a release
                    # (no narrowing arguments) is a release there
                    rels = {acq for kind, acq, c in evs if kind == 'rel' and len(c.args) <= 1 and not c.keywords}
                    if need_release <= rels:
                        blockers.add(nid)
            reach = cfg.reachable(s, lambda nn, l2, s2: nn.id not in blockers) | {s}
            if cfg.raise_ in reach and s not in blockers:
                return True
        return False

    def exit_preds(self):
        cfg = self.cfg
        return [(lab, cfg.nodes[p]) for lab, p in cfg.preds()[cfg.exit]]


def mutation_by_return(ef, cal, param, consts):
    """{True: the callee can have mutated the tree of `param` when it returns a truthy value, False: ... a falsy value}.
    None if some return value's truthiness is unknown."""
    from ..constprop import eval_expr, truth
    key = ('byret', cal.key, param, tuple(sorted((k, repr(v)) for k, v in consts.items())))
    c = ef._raises.get(key, 0)
    if c != 0:
        return c
    ef._raises[key] = None
    flow = Flow(ef, cal, param, {k: v for k, v in consts.items() if k in cal.params()})
    res = {True: False, False: False}
    ok = True
    for lab, pn in flow.exit_preds():
        for d in flow.states(pn.id):
            if pn.kind == 'stmt' and isinstance(pn.ast, ast.Return):
                tv = truth(eval_expr(pn.ast.value, d)) if pn.ast.value is not None else False
            else:
                tv = False        # falling off the end returns None
            mutated = '$mut' in d
            if not mutated:
                # the return statement itself may contain the mutating call (`return helper(self)`)
                mutated = bool(ef.node_mutates(cal, flow.cfg, pn, param, [{k: v for k, v in d.items() if k[:1] != '$'}], consts=flow.consts))
            if tv is None:
                if mutated:
                    ok = False
                continue
            if mutated:
                res[tv] = True
    out = res if ok else None
    ef._raises[key] = out
    return out
