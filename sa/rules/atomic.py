"""Shared path-sensitive typestate used by C07 (copy mode leaves the source alone) and C12 (failed edit leaves the target
alone): over the constant-propagating flow of one function it tracks

  $mut          the tree of `param` has been (permanently) modified -- set by the first mutating construct;
  $tmp:<acq>    a temporary normalisation of that tree is in force -- set by an acquire call, cleared by its release.

Acquire / release pairs (DESIGN R7.2), all defined in fst_get_slice.py:
"""
from __future__ import annotations

import ast
import re

from ..model import norm, call_name
from ..cfg import subnodes
from ..constprop import ConstFlow, lit

PAIRS = {
    '_normalize_solo_call_arg_genexp': '_restore_solo_call_arg_genexp',
    '_move_arglikes_into_one_field': '_split_arglikes_into_two_fields',
    '_move_Compare_left_into_comparators': '_move_Compare_first_comparator_into_left',
    '_add_MatchMapping_rest_as_real_node': '_remove_MatchMapping_rest_real_node',
    '_make_arguments_allargs_w_markers': '_remove_arguments_allargs_markers',
}
RELEASE_OF = {v: k for k, v in PAIRS.items()}
# pairs whose release may be skipped when the list handed to the acquire is empty afterwards (both fields empty: nothing to split)
SKIP_WHEN_EMPTY = {'_move_arglikes_into_one_field'}

# the request-validating family (DESIGN R12.3)
VALIDATOR_RE = re.compile(r'^(code_as\w*|_code_as\w*|_code_to_slice\w*|_coerce_\w+|_validate_\w+|validate_\w+|fixup_slice_indices|'
                          r'fixup_one_index|fixup_field_body|_fixup_slice_index_for_raw|check_options|_normalize_code\w*|'
                          r'_params_Compare|parse\w*|_parse\w*|_check_\w+|_put_one_NOT_IMPLEMENTED\w*|_get_one_NOT_IMPLEMENTED\w*)$')


def validator_calls(cfg, node):
    out = []
    for x in subnodes(cfg, node):
        if isinstance(x, ast.Call):
            cn = call_name(x)
            if cn and VALIDATOR_RE.match(cn):
                out.append(x)
            elif cn == 'code_as' and isinstance(x.func, ast.Attribute) and norm(x.func.value) == 'static':
                out.append(x)
    return out


def _first_arg_roots(ef, fi, call):
    """Roots of the tree argument of an acquire / release call (first positional, or receiver for bound calls)."""
    if call.args:
        return ef.expr_roots(fi, call.args[0])
    if isinstance(call.func, ast.Attribute):
        return ef.expr_roots(fi, call.func.value)
    return set()


class Flow:
    """Runs the typestate for (fi, param, consts).  After construction: .fl (ConstFlow), .events per node."""

    def __init__(self, ef, fi, param='self', consts=None):
        self.ef, self.fi, self.param = ef, fi, param
        self.cfg = cfg = ef.cfg(fi)
        self._mut_cache = {}
        self.pair_calls = {}     # node id -> [(kind 'acq'|'rel', acquire name, call)]
        for n in cfg.nodes:
            if n.kind not in ('stmt', 'test', 'iter', 'with', 'case'):
                continue
            for x in subnodes(cfg, n):
                if isinstance(x, ast.Call):
                    cn = call_name(x)
                    if cn in PAIRS and param in _first_arg_roots(ef, fi, x):
                        self.pair_calls.setdefault(n.id, []).append(('acq', cn, x))
                    elif cn in RELEASE_OF and param in _first_arg_roots(ef, fi, x):
                        self.pair_calls.setdefault(n.id, []).append(('rel', RELEASE_OF[cn], x))
        self.fl = ConstFlow(cfg, dict(consts or {}), self._hook)

    def _hook(self, node, facts):
        if node.kind not in ('stmt', 'test', 'iter', 'with', 'case'):
            return None
        upd = {}
        for kind, acq, call in self.pair_calls.get(node.id, ()):
            if kind == 'acq':
                argname = None
                if acq in SKIP_WHEN_EMPTY and len(call.args) >= 2 and isinstance(call.args[1], ast.Name):
                    argname = call.args[1].id
                upd['$tmp:' + acq] = lit((call.lineno, argname))
            else:
                upd['$tmp:' + acq] = None
        # skipping the release under `if <list>:` false
        if node.kind == 'test' and isinstance(node.ast, ast.Name):
            pass
        if '$mut' not in facts:
            fk = tuple(sorted((k, repr(v)) for k, v in facts.items() if k[:1] != '$'))
            key = (node.id, fk)
            if key not in self._mut_cache:
                self._mut_cache[key] = self.ef.node_mutates(self.fi, self.cfg, node, self.param,
                                                            [{k: v for k, v in facts.items() if k[:1] != '$'}],
                                                            ignore=set(PAIRS) | set(RELEASE_OF))
            hits = self._mut_cache[key]
            if hits:
                upd['$mut'] = lit(getattr(hits[0], 'lineno', node.lineno))
        return upd or None

    # ------------------------------------------------------------------------------------------------------------------
    def states(self, node_id):
        return self.fl.all_facts(node_id)

    def tmp_held(self, d) -> dict:
        """{acquire name: (line, argname)} still in force under fact set d; honours the skip-when-empty idiom."""
        out = {}
        for k, v in d.items():
            if k.startswith('$tmp:'):
                acq = k[5:]
                line, argname = v[1]
                if argname is not None:
                    # the list is known empty on this path (`if body:` false): nothing to restore
                    av = d.get(argname)
                    if av is not None and (av == ('falsy',) or (av[0] == 'c' and not av[1])):
                        continue
                out[acq] = (line, argname)
        return out

    def exception_leaves(self, node, need_release: set | None = None) -> bool:
        """Does an exception raised while evaluating `node` leave the function -- and, if `need_release` names pairs in
        force, does it leave on a path that did not call their release?"""
        cfg = self.cfg
        for lab, s in node.succ:
            if lab != 'exc':
                continue
            if s == cfg.raise_:
                return True
            blockers = set()
            if need_release:
                for nid, evs in self.pair_calls.items():
                    rels = {acq for kind, acq, _ in evs if kind == 'rel'}
                    if need_release <= rels:
                        blockers.add(nid)
            reach = cfg.reachable(s, lambda nn, l2, s2: nn.id not in blockers) | {s}
            if cfg.raise_ in reach and s not in blockers:
                return True
        return False

    def exit_preds(self):
        cfg = self.cfg
        return [(lab, cfg.nodes[p]) for lab, p in cfg.preds()[cfg.exit]]
