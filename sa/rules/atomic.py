"""Shared path-sensitive typestate used by C07 (copy mode leaves the source alone) and C12 (failed edit leaves the target
alone): over the constant-propagating flow of one function it tracks

  $mut          the tree of `param` has been (permanently) modified -- set by the first mutating construct;
  $tmp:<acq>    a temporary normalisation of that tree is in force -- set by an acquire call, cleared by its release.

Acquire / release pairs (DESIGN R7.2), all defined in fst_get_slice.py:
"""
from __future__ import annotations

import ast
import re

from ..model import norm, call_name
from ..cfg import subnodes
from ..constprop import ConstFlow, lit

PAIRS = {
    '_normalize_solo_call_arg_genexp': '_restore_solo_call_arg_genexp',
    '_move_arglikes_into_one_field': '_split_arglikes_into_two_fields',
    '_move_Compare_left_into_comparators': '_move_Compare_first_comparator_into_left',
    '_add_MatchMapping_rest_as_real_node': '_remove_MatchMapping_rest_real_node',
    '_make_arguments_allargs_w_markers': '_remove_arguments_allargs_markers',
}
RELEASE_OF = {v: k for k, v in PAIRS.items()}
# pairs whose release may be skipped when the list handed to the acquire is empty afterwards (both fields empty: nothing to split)
SKIP_WHEN_EMPTY = {'_move_arglikes_into_one_field'}

# the request-validating family (DESIGN R12.3)
VALIDATOR_RE = re.compile(r'^(code_as\w*|_code_as\w*|_code_to_slice\w*|_coerce_\w+|_validate_\w+|validate_\w+|fixup_slice_indices|'
                          r'fixup_one_index|fixup_field_body|_fixup_slice_index_for_raw|check_options|_normalize_code\w*|'
                          r'_params_Compare|parse\w*|_parse\w*|_check_\w+|_put_one_NOT_IMPLEMENTED\w*|_get_one_NOT_IMPLEMENTED\w*)$')


def validator_calls(cfg, node):
    out = []
    for x in subnodes(cfg, node):
        if isinstance(x, ast.Call):
            cn = call_name(x)
            if cn and VALIDATOR_RE.match(cn):
                out.append(x)
            elif cn == 'code_as' and isinstance(x.func, ast.Attribute) and norm(x.func.value) == 'static':
                out.append(x)
    return out


def _first_arg_roots(ef, fi, call):
    """Roots of the tree argument of an acquire / release call (first positional, or receiver for bound calls)."""
    if call.args:
        return ef.expr_roots(fi, call.args[0])
    if isinstance(call.func, ast.Attribute):
        return ef.expr_roots(fi, call.func.value)
    return set()


class Flow:
    """Runs the typestate for (fi, param, consts).  After construction: .fl (ConstFlow), .events per node."""

    def __init__(self, ef, fi, param='self', consts=None):
        self.ef, self.fi, self.param = ef, fi, param
        self.consts = dict(consts or {})
        self.cfg = cfg = ef.cfg(fi)
        self._mut_cache = {}
        self.pair_calls = {}     # node id -> [(kind 'acq'|'rel', acquire name, call)]
        for n in cfg.nodes:
            if n.kind not in ('stmt', 'test', 'iter', 'with', 'case'):
                continue
            for x in subnodes(cfg, n):
                if isinstance(x, ast.Call):
                    cn = call_name(x)
                    if cn in PAIRS and param in _first_arg_roots(ef, fi, x):
                        self.pair_calls.setdefault(n.id, []).append(('acq', cn, x))
                    elif cn in RELEASE_OF and param in _first_arg_roots(ef, fi, x):
                        self.pair_calls.setdefault(n.id, []).append(('rel', RELEASE_OF[cn], x))
        keep = set()
        for evs in self.pair_calls.values():
            for kind, acq, call in evs:
                if kind == 'acq' and acq in SKIP_WHEN_EMPTY:
                    keep |= {a.id for a in call.args[1:2] if isinstance(a, ast.Name)}
        for n in cfg.nodes:
            if n.kind == 'stmt' and isinstance(n.ast, ast.Assign) and isinstance(n.ast.value, ast.Call) and \
                    call_name(n.ast.value) in SKIP_WHEN_EMPTY and isinstance(n.ast.targets[0], ast.Tuple):
                keep |= {t.id for t in n.ast.targets[0].elts if isinstance(t, ast.Name) and t.id != '_'}
        self.fl = ConstFlow(cfg, dict(consts or {}), self._hook, keep)

    def _hook(self, node, facts):
        if node.kind not in ('stmt', 'test', 'iter', 'with', 'case'):
            return None
        upd = {}
        for kind, acq, call in self.pair_calls.get(node.id, ()):
            if kind == 'acq':
                argname = None
                if acq in SKIP_WHEN_EMPTY:
                    # names whose emptiness means "nothing was moved": the list handed in, and the lists handed back
                    names = []
                    if len(call.args) >= 2 and isinstance(call.args[1], ast.Name):
                        names.append(call.args[1].id)
                    st = node.ast
                    if isinstance(st, ast.Assign) and st.value is call and isinstance(st.targets[0], ast.Tuple):
                        names += [t.id for t in st.targets[0].elts if isinstance(t, ast.Name) and t.id != '_']
                    argname = tuple(names) or None
                upd['$tmp:' + acq] = lit((call.lineno, argname))
            else:
                upd['$tmp:' + acq] = None
        # skipping the release under `if <list>:` false
        if node.kind == 'test' and isinstance(node.ast, ast.Name):
            pass
        if '$mut' not in facts:
            fk = tuple(sorted((k, repr(v)) for k, v in facts.items() if k[:1] != '$'))
            key = (node.id, fk)
            if key not in self._mut_cache:
                self._mut_cache[key] = self.ef.node_mutates(self.fi, self.cfg, node, self.param,
                                                            [{k: v for k, v in facts.items() if k[:1] != '$'}],
                                                            ignore=set(PAIRS) | set(RELEASE_OF), consts=self.consts)
            hits = self._mut_cache[key]
            if hits:
                upd['$mut'] = lit(getattr(hits[0], 'lineno', node.lineno))
        return upd or None

    # ------------------------------------------------------------------------------------------------------------------
    def states(self, node_id):
        return self.fl.all_facts(node_id)

    def tmp_held(self, d) -> dict:
        """{acquire name: (line, argname)} still in force under fact set d; honours the skip-when-empty idiom."""
        out = {}
        for k, v in d.items():
            if k.startswith('$tmp:'):
                acq = k[5:]
                line, argname = v[1]
                if argname is not None:
                    # one of the lists involved is known empty on this path (`if body:` / `if keywords:` false): nothing to restore
                    skip = False
                    for nm in (argname if isinstance(argname, tuple) else (argname,)):
                        av = d.get(nm)
                        if av is not None and (av == ('falsy',) or (av[0] == 'c' and not av[1])):
                            skip = True
                    if skip:
                        continue
                out[acq] = (line, argname)
        return out

    def exception_leaves(self, node, need_release: set | None = None) -> bool:
        """Does an exception raised while evaluating `node` leave the function -- and, if `need_release` names pairs in
        force, does it leave on a path that did not call their release?"""
        cfg = self.cfg
        for lab, s in node.succ:
            if lab != 'exc':
                continue
            if s == cfg.raise_:
                return True
            blockers = set()
            if need_release:
                for nid, evs in self.pair_calls.items():
                    rels = {acq for kind, acq, _ in evs if kind == 'rel'}
                    if need_release <= rels:
                        blockers.add(nid)
            reach = cfg.reachable(s, lambda nn, l2, s2: nn.id not in blockers) | {s}
            if cfg.raise_ in reach and s not in blockers:
                return True
        return False

    def exit_preds(self):
        cfg = self.cfg
        return [(lab, cfg.nodes[p]) for lab, p in cfg.preds()[cfg.exit]]
