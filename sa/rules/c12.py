"""C12 — a failed edit leaves the target tree untouched and still editable.

R12.1 lock typestate: every _modifying()/_Modifying() use is a `with` item or follows the manual enter / fail+re-raise /
      success protocol.
R12.2 the manager itself: enter() raises only before it stores into _MODIFYING; success()/fail() release the registry
      entry before doing anything that can raise; __exit__ calls exactly one of them and never swallows.
R12.3 validate, then mutate: in every function that mutates the tree of its `self` (put handlers, kernel, helpers), no
      explicit user-triggerable `raise` and no call that can raise one is reachable after the first mutation of that tree
      (path sensitive, callees specialised by constant arguments; a raising-then-mutating callee is analysed itself).
R12.4 = R20.5 (options rejected before anything is touched).
Not decided: implicit exceptions (AttributeError / IndexError from a corrupted intermediate state); that the next valid
edit satisfies C01.
"""
from __future__ import annotations

import ast

from ..model import AnalysisError, norm, walk_no_nested, call_name
from ..consteval import FuncTok
from ..cfg import CFG, subnodes
from ..callgraph import Resolver
from ..effects import Effects, USER_EXC
from ..constprop import ConstFlow, lit
from ..struct import parent_map

PROP = 'C12'

KERNEL_MODULES = ('fst_put_one', 'fst_put_slice', 'slice_exprlike', 'slice_stmtlike', 'fst_misc', 'fst_core', 'fst_trivia',
                  'fst', 'view', 'fst_get_slice', 'fst_get_one', 'code', 'fst_locs', 'reconcile')


def run(ctx):
    ctx.not_decided += ['implicit exceptions raised from a corrupted intermediate state (AttributeError, IndexError, ...)',
                        'that the tree still satisfies C01 after the failed edit and the next valid one']
    res = Resolver(ctx.repo, ctx.ev)
    ef = Effects(ctx.repo, res)
    ctx.effects = ef
    check_lock_typestate(ctx)
    check_manager(ctx)
    check_validate_then_mutate(ctx, ef)
    from .c20 import check_validate_first
    # R12.4 is decided under C20 (R20.5); not repeated here


# ----------------------------------------------------------------------------------------------------------------------

def check_lock_typestate(ctx):
    ctx.rule('R12.1', 'every _modifying(...) / _Modifying(...) is the context expression of a `with`, or uses the manual protocol: '
                      'm = ....enter(); try: ...; except: m.fail(); raise; else: m.success()', 12)
    n = 0
    for fi in ctx.repo.all_funcs():
        if isinstance(fi.node, ast.Lambda) or fi.qualname.startswith('_Modifying') or fi.qualname == '_modifying':
            continue
        par = None
        for c in walk_no_nested(fi.node):
            if isinstance(c, ast.Call) and call_name(c) in ('_modifying', '_Modifying'):
                par = par or parent_map(fi.node)
                n += 1
                p = par.get(c)
                if isinstance(p, ast.withitem):
                    ctx.ok('R12.1', f'{fi.module}|{fi.qualname}|with {norm(c, 60)}', sample=norm(c, 60))
                    continue
                # manual protocol: X = <call>.enter()
                ok = False
                why = 'lock object is neither a with-item nor entered through the manual protocol'
                if isinstance(p, ast.Attribute) and p.attr == 'enter' and isinstance(par.get(p), ast.Call):
                    ecall = par[p]
                    asg = par.get(ecall)
                    if isinstance(asg, ast.Assign) and isinstance(asg.targets[0], ast.Name):
                        var = asg.targets[0].id
                        ok, why = manual_protocol(fi.node, asg, var, par)
                ctx.check('R12.1', ok, fi.module, fi.qualname, c, why + ': a failing edit would leave the tree locked '
                          '("nested modification" errors on every later edit)', c.lineno, sample=norm(c, 60))
    if n < 10:
        raise AnalysisError(f'only {n} uses of the modification lock found')


def manual_protocol(fn, asg, var, par):
    """After `var = X.enter()`: the next statement is a try with a catch-all handler that calls var.fail() and re-raises, an
    else that calls var.success(), and no return inside the try body."""
    body = par.get(asg)
    # find statement list containing asg
    holder = None
    for n in ast.walk(fn):
        for fld in ('body', 'orelse', 'finalbody'):
            lst = getattr(n, fld, None)
            if isinstance(lst, list) and asg in lst:
                holder = lst
    if holder is None:
        return False, 'manual enter() not found in a statement list'
    i = holder.index(asg)
    if i + 1 >= len(holder) or not isinstance(holder[i + 1], ast.Try):
        return False, 'manual enter() is not immediately followed by try/except/else'
    t = holder[i + 1]
    catch_all = [h for h in t.handlers if h.type is None or norm(h.type) == 'BaseException']
    if not catch_all:
        return False, 'manual protocol: no bare `except:` / `except BaseException:` handler'
    h = catch_all[0]
    calls_fail = any(isinstance(x, ast.Call) and call_name(x) == 'fail' and norm(x.func.value) == var for s in h.body for x in ast.walk(s))
    reraises = any(isinstance(s, ast.Raise) and s.exc is None for s in h.body)
    if not (calls_fail and reraises):
        return False, 'manual protocol: catch-all handler must call fail() and re-raise'
    succ = any(isinstance(x, ast.Call) and call_name(x) == 'success' and norm(x.func.value) == var for s in t.orelse for x in ast.walk(s))
    if not succ:
        return False, 'manual protocol: success() must be called in the else clause'
    for s in t.body:
        for x in ast.walk(s):
            if isinstance(x, ast.Return):
                return False, 'manual protocol: `return` inside the try body skips success()'
    return True, ''


def check_manager(ctx):
    ctx.rule('R12.2', '_Modifying (all version variants): enter() cannot raise after its first store into _MODIFYING; success() / '
                      'fail() release the registry entry before any call other than _MODIFYING.get; __exit__ calls exactly one '
                      'of success / fail and returns False', 8)
    m = ctx.repo.mod('fst_core')
    for q in ('_Modifying.enter', '_Modifying.success', '_Modifying.fail', '_Modifying.__exit__'):
        fis = m.func(q)
        if not fis:
            raise AnalysisError(f'fst_core.{q} not found')
        for fi in fis:
            cfg = CFG(fi.node)

            def is_store(n):
                return any((isinstance(x, (ast.Assign, ast.Delete)) and any(isinstance(t, ast.Subscript) and norm(t.value) == '_MODIFYING'
                            for t in (x.targets if isinstance(x, (ast.Assign, ast.Delete)) else [])))
                           for x in ([n.ast] if n.kind == 'stmt' else []))

            def may_raise(n):
                if n.kind == 'stmt' and isinstance(n.ast, ast.Raise):
                    return True
                for x in subnodes(cfg, n):
                    if isinstance(x, ast.Call) and not (isinstance(x.func, ast.Attribute) and norm(x.func.value) == '_MODIFYING' and x.func.attr == 'get'):
                        return True
                return False
            stores = [n for n in cfg.nodes if is_store(n)]
            name = q.split('.')[1]
            if name == 'enter':
                if not stores:
                    raise AnalysisError(f'{fi.key}: no store into _MODIFYING')
                for s in stores:
                    after = cfg.reachable(s.id, lambda n, lab, s2: lab != 'exc')
                    bad = [cfg.nodes[i] for i in after if may_raise(cfg.nodes[i])]
                    ctx.check('R12.2', not bad, fi.module, fi.key.split('.', 1)[1], f'after {norm(s.ast, 60)}',
                              f'enter() registers the tree and can then still fail in {[norm(b.ast, 50) for b in bad][:2]}: the entry is '
                              f'never released (with-statement does not call __exit__ when __enter__ raises)', s.lineno)
            elif name in ('success', 'fail'):
                if not stores:
                    raise AnalysisError(f'{fi.key}: no release of _MODIFYING')
                # every path from entry reaches a release store before any node that may raise
                rel_ids = {s.id for s in stores}
                reach = cfg.reachable(cfg.entry, lambda n, lab, s2: lab != 'exc' and n.id not in rel_ids)
                bad = [cfg.nodes[i] for i in reach if i not in rel_ids and may_raise(cfg.nodes[i])]
                ctx.check('R12.2', not bad, fi.module, fi.key.split('.', 1)[1], 'release precedes anything that can raise',
                          f'{name}() can raise in {[norm(b.ast, 50) for b in bad][:2]} before the registry entry is released: the tree stays '
                          f'locked after the edit', fi.lineno)
                # and every normal path to exit passes a release
                reach2 = cfg.reachable(cfg.entry, lambda n, lab, s2: lab != 'exc' and n.id not in rel_ids)
                ctx.check('R12.2', cfg.exit not in reach2, fi.module, fi.key.split('.', 1)[1], 'every return passes a release',
                          f'{name}() has a path to return that neither decrements nor deletes the registry entry', fi.lineno)
            else:
                txt = norm(ast.unparse(fi.node), 5000)
                rets = [n for n in walk_no_nested(fi.node) if isinstance(n, ast.Return)]
                ok = len(rets) == 1 and norm(rets[0].value) == 'False'
                ifs = [n for n in fi.node.body if isinstance(n, ast.If)]
                ok = ok and len(ifs) == 1 and norm(ifs[0].test) == 'exc_type is None' and \
                    any(call_name(x) == 'success' for s in ifs[0].body for x in ast.walk(s) if isinstance(x, ast.Call)) and \
                    any(call_name(x) == 'fail' for s in ifs[0].orelse for x in ast.walk(s) if isinstance(x, ast.Call))
                ctx.check('R12.2', ok, fi.module, fi.key.split('.', 1)[1], 'if exc_type is None: success() else: fail(); return False',
                          '__exit__ must release on both outcomes and must not swallow the exception', fi.lineno)


# ----------------------------------------------------------------------------------------------------------------------

import re

# the request-validating family (DESIGN R12.3): functions whose job is to parse / coerce / validate the caller's request and
# which raise NodeError / ValueError / ParseError / IndexError when it is unacceptable.  Naming conventions of the repository.
VALIDATOR_RE = re.compile(r'^(code_as\w*|_code_as\w*|_code_to_slice\w*|_coerce_\w+|_validate_\w+|validate_\w+|fixup_slice_indices|'
                          r'fixup_one_index|fixup_field_body|_fixup_slice_index_for_raw|check_options|_normalize_code\w*|'
                          r'_params_Compare|parse\w*|_parse\w*|_check_\w+|_put_one_NOT_IMPLEMENTED\w*|_get_one_NOT_IMPLEMENTED\w*)$')


def validator_calls(cfg, node):
    out = []
    for x in subnodes(cfg, node):
        if isinstance(x, ast.Call):
            cn = call_name(x)
            if cn and VALIDATOR_RE.match(cn):
                out.append(x)
            elif cn == 'code_as' and isinstance(x.func, ast.Attribute) and norm(x.func.value) == 'static':
                out.append(x)
    return out


def early_raisers(ctx, ef):
    """{function key: description} for functions whose *own body* can reject the request before it mutates anything:
    an explicit request-dependent raise or a validator-family call reachable with no prior mutation of its `self`."""
    cache = getattr(ctx, '_early', None)
    if cache is not None:
        return cache
    cache = {}
    for fi in ctx.repo.all_funcs():
        if isinstance(fi.node, ast.Lambda) or fi.module not in KERNEL_MODULES:
            continue
        if VALIDATOR_RE.match(fi.name):
            continue
        cfg = ef.cfg(fi)
        for n in cfg.nodes:
            if n.kind == 'stmt' and isinstance(n.ast, ast.Raise) and ef.is_user_raise(fi, n.ast):
                cache[fi.key] = f'raise at line {n.lineno}'
                break
    ctx._early = cache
    return cache


def analyse_function(ctx, ef, fi, param='self', consts=None, rid='R12.3'):
    """Path-sensitive: the '$mut' pseudo fact is set by the first construct that mutates the tree of `param`; afterwards
    (a) an explicit request-dependent raise of this function, (b) a call into the request-validating family, (c) a call to a
    kernel function whose own body can reject the request (depth 1), are findings when the exception leaves the function."""
    cfg = ef.cfg(fi)
    consts = dict(consts or {})
    mut_cache = {}

    def hook(node, facts):
        if '$mut' in facts:
            return None
        if node.kind not in ('stmt', 'test', 'iter', 'with', 'case'):
            return None
        fk = tuple(sorted((k, repr(v)) for k, v in facts.items() if k[:1] != '$'))
        key = (node.id, fk)
        if key not in mut_cache:
            mut_cache[key] = ef.node_mutates(fi, cfg, node, param, [facts])
        hits = mut_cache[key]
        if hits:
            return {'$mut': lit(getattr(hits[0], 'lineno', node.lineno))}
        return None
    fl = ConstFlow(cfg, consts, hook)
    early = early_raisers(ctx, ef)
    findings = []
    n_checked = 0
    for node in cfg.nodes:
        disj = [d for d in fl.all_facts(node.id) if '$mut' in d]
        if not disj or node.kind not in ('stmt', 'test', 'iter', 'with', 'case'):
            continue
        n_checked += 1
        srcs = []
        if node.kind == 'stmt' and isinstance(node.ast, ast.Raise):
            if ef.is_user_raise(fi, node.ast):
                srcs.append((node.ast, 'explicit raise'))
        else:
            for c in validator_calls(cfg, node):
                srcs.append((c, f'request validation `{call_name(c)}`'))
            ce = ef._ce(fi)
            for x in subnodes(cfg, node):
                if isinstance(x, ast.Call) and id(x) in ce:
                    for cal, binding in ce[id(x)]:
                        if cal.key in early and not VALIDATOR_RE.match(cal.name):
                            # the callee must be able to reach that raise under the constants passed here
                            clean = [{k: v for k, v in d.items() if k[:1] != '$'} for d in disj]
                            for cc in ef.call_consts_all(cal, binding, clean):
                                if own_raise_feasible(ef, cal, cc):
                                    srcs.append((x, f'call to {cal.qualname} whose own body can reject the request ({early[cal.key]})'))
                                    break
        if not srcs:
            continue
        leaves = False
        for lab, s in node.succ:
            if lab == 'exc':
                if s == cfg.raise_ or cfg.raise_ in cfg.reachable(s, lambda nn, l2, s2: True):
                    leaves = True
        if not leaves:
            continue
        mut_line = min(d['$mut'][1] for d in disj)
        for construct, how in srcs:
            findings.append((construct, how, mut_line))
    return findings, n_checked


def own_raise_feasible(ef, cal, consts) -> bool:
    """Can `cal` (specialised) reach one of its own explicit request-dependent raises before mutating its own `self`?"""
    key = ('own', cal.key, tuple(sorted((k, repr(v)) for k, v in consts.items())))
    c = ef._raises.get(key)
    if c is not None:
        return c
    cfg = ef.cfg(cal)
    mutc = {}

    def hook(node, facts):
        if '$mut' in facts or node.kind not in ('stmt', 'test', 'iter', 'with', 'case'):
            return None
        if 'self' in cal.params() and ef.node_mutates(cal, cfg, node, 'self', [facts]):
            return {'$mut': lit(node.lineno)}
        return None
    fl = ConstFlow(cfg, {k: v for k, v in consts.items() if k in cal.params()}, hook)
    res = False
    for n in cfg.nodes:
        if n.kind == 'stmt' and isinstance(n.ast, ast.Raise) and ef.is_user_raise(cal, n.ast, consts):
            if any('$mut' not in d for d in fl.all_facts(n.id)):
                res = True
                break
    ef._raises[key] = res
    return res


def roots_for_r123(ctx, ef):
    """Functions to analyse: everything in the edit-kernel modules whose `self` tree is mutated."""
    out = []
    for fi in ctx.repo.all_funcs():
        if isinstance(fi.node, ast.Lambda) or fi.module not in KERNEL_MODULES:
            continue
        ps = fi.params()
        if not ps or ps[0] != 'self':
            continue
        if fi.cls and fi.cls not in ('FST',) and not fi.cls.startswith('FSTView') and fi.cls not in ('SrcEdit', 'Reconcile'):
            continue
        if 'self' in ef.mutated_params(fi):
            out.append(fi)
    return out


def check_validate_then_mutate(ctx, ef):
    ctx.rule('R12.3', 'no user-triggerable raise (explicit, or through a callee that can raise one) is reachable after the first '
                      'mutation of the tree of `self` in any kernel function (path sensitive, constant-specialised callees)', 150)
    fns = roots_for_r123(ctx, ef)
    if len(fns) < 150:
        raise AnalysisError(f'only {len(fns)} tree-mutating kernel functions found (>= 150 expected)')
    total = 0
    for fi in fns:
        findings, n = analyse_function(ctx, ef, fi)
        total += n
        if not findings:
            ctx.ok('R12.3', f'{fi.module}|{fi.qualname}', sample={'function': fi.key, 'nodes_after_mutation_checked': n})
        seen = set()
        for construct, how, mut_line in findings:
            k = norm(construct, 90)
            if k in seen:
                continue
            seen.add(k)
            ctx.bad('R12.3', fi.module, fi.key.split('.', 1)[1], k,
                    f'{how} is reachable after the target tree was already modified (first mutation at line {mut_line}): a rejected '
                    f'request leaves a half-applied edit', getattr(construct, 'lineno', 0))
    ctx.extra['r123_functions'] = len(fns)
    ctx.extra['r123_nodes_after_mutation_examined'] = total
