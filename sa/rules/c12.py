"""C12 — a failed edit leaves the target tree untouched and still editable.

R12.1 lock typestate: every _modifying()/_Modifying() use is a `with` item or follows the manual enter / fail+re-raise /
      success protocol.
R12.2 the manager itself: enter() raises only before it stores into _MODIFYING; success()/fail() release the registry
      entry before doing anything that can raise; __exit__ calls exactly one of them and never swallows.
R12.3 validate, then mutate: in every function that mutates the tree of its `self` (put handlers, kernel, helpers), no
      explicit user-triggerable `raise` and no call that can raise one is reachable after the first mutation of that tree
      (path sensitive, callees specialised by constant arguments; a raising-then-mutating callee is analysed itself).
R12.4 = R20.5 (options rejected before anything is touched).
R12.7 a caller-supplied FST that is adopted as the code without going through a `code_as*` normaliser is checked to be a root first.
R12.6 admission guards: every path that installs caller-supplied code checks "not circular" and "not consumed" before the first mutation.
Not decided: implicit exceptions (AttributeError / IndexError from a corrupted intermediate state); that the next valid
edit satisfies C01.
"""
from __future__ import annotations

import ast
import re

from ..model import AnalysisError, norm, walk_no_nested, call_name
from ..consteval import FuncTok
from ..cfg import CFG, subnodes
from ..callgraph import Resolver
from ..effects import Effects, USER_EXC
from ..constprop import ConstFlow, lit
from ..struct import parent_map

PROP = 'C12'

KERNEL_MODULES = ('fst_put_one', 'fst_put_slice', 'slice_exprlike', 'slice_stmtlike', 'fst_misc', 'fst_core', 'fst_trivia',
                  'fst', 'view', 'fst_get_slice', 'fst_get_one', 'code', 'fst_locs', 'reconcile')


def run(ctx):
    ctx.not_decided += ['implicit exceptions raised from a corrupted intermediate state (AttributeError, IndexError, ...)',
                        'that the tree still satisfies C01 after the failed edit and the next valid one']
    res = Resolver(ctx.repo, ctx.ev)
    ef = Effects(ctx.repo, res)
    ctx.effects = ef
    check_lock_typestate(ctx)
    check_manager(ctx)
    check_validate_then_mutate(ctx, ef)
    check_kernel_lock(ctx)
    from .c20 import check_validate_first
    # R12.4 is decided under C20 (R20.5); not repeated here


# ----------------------------------------------------------------------------------------------------------------------
    check_admission_guards(ctx)
    check_passthrough_is_root(ctx)


def check_lock_typestate(ctx):
    ctx.rule('R12.1', 'every _modifying(...) / _Modifying(...) is the context expression of a `with`, or uses the manual protocol: '
                      'm = ....enter(); try: ...; except: m.fail(); raise; else: m.success()', 12)
    n = 0
    for fi in ctx.repo.all_funcs():
        if isinstance(fi.node, ast.Lambda) or fi.qualname.startswith('_Modifying') or fi.qualname == '_modifying':
            continue
        par = None
        for c in walk_no_nested(fi.node):
            if isinstance(c, ast.Call) and call_name(c) in ('_modifying', '_Modifying'):
                par = par or parent_map(fi.node)
                n += 1
                p = par.get(c)
                # `with X._modifying(f) if cond else nullcontext():` — the lock is still the context expression of the with
                q = c
                while isinstance(par.get(q), ast.IfExp) and par[q].test is not q:
                    q = par[q]
                if isinstance(par.get(q), ast.withitem):
                    p = par[q]
                if isinstance(p, ast.withitem):
                    ctx.ok('R12.1', f'{fi.module}|{fi.qualname}|with {norm(c, 60)}', sample=norm(c, 60))
                    continue
                # manual protocol: X = <call>.enter()   (or  X = X or <call>.enter()  inside the guarded try)
                ok = False
                why = 'lock object is neither a with-item nor entered through the manual protocol'
                if isinstance(p, ast.Attribute) and p.attr == 'enter' and isinstance(par.get(p), ast.Call):
                    ecall = par[p]
                    asg = par.get(ecall)
                    if isinstance(asg, ast.BoolOp) and isinstance(asg.op, ast.Or):
                        asg = par.get(asg)
                    if isinstance(asg, ast.Assign) and isinstance(asg.targets[0], ast.Name):
                        var = asg.targets[0].id
                        ok, why = manual_protocol(fi.node, asg, var, par)
                        if not ok:
                            ok, why = manual_protocol_inside_try(fi.node, asg, var, par)
                        if not ok:
                            ok2, why2 = manual_protocol_paths(fi.node, asg, var)
                            if ok2:
                                ok, why = True, ''
                            elif 'overwrites' in why2:
                                why = why2
                ctx.check('R12.1', ok, fi.module, fi.qualname, c, why + ': a failing edit would leave the tree locked '
                          '("nested modification" errors on every later edit)', c.lineno, sample=norm(c, 60))
    if n < 10:
        raise AnalysisError(f'only {n} uses of the modification lock found')


def manual_protocol(fn, asg, var, par):
    """After `var = X.enter()`: the next statement is a try with a catch-all handler that calls var.fail() and re-raises, an
    else that calls var.success(), and no return inside the try body."""
    body = par.get(asg)
    # find statement list containing asg
    holder = None
    for n in ast.walk(fn):
        for fld in ('body', 'orelse', 'finalbody'):
            lst = getattr(n, fld, None)
            if isinstance(lst, list) and asg in lst:
                holder = lst
    if holder is None:
        return False, 'manual enter() not found in a statement list'
    i = holder.index(asg)
    if i + 1 >= len(holder) or not isinstance(holder[i + 1], ast.Try):
        return False, 'manual enter() is not immediately followed by try/except/else'
    t = holder[i + 1]
    catch_all = [h for h in t.handlers if h.type is None or norm(h.type) == 'BaseException']
    if not catch_all:
        return False, 'manual protocol: no bare `except:` / `except BaseException:` handler'
    h = catch_all[0]
    calls_fail = any(isinstance(x, ast.Call) and call_name(x) == 'fail' and norm(x.func.value) == var for s in h.body for x in ast.walk(s))
    reraises = any(isinstance(s, ast.Raise) and s.exc is None for s in h.body)
    if not (calls_fail and reraises):
        return False, 'manual protocol: catch-all handler must call fail() and re-raise'
    succ = any(isinstance(x, ast.Call) and call_name(x) == 'success' and norm(x.func.value) == var for s in t.orelse for x in ast.walk(s))
    if not succ:
        return False, 'manual protocol: success() must be called in the else clause'
    for s in t.body:
        for x in ast.walk(s):
            if isinstance(x, ast.Return):
                return False, 'manual protocol: `return` inside the try body skips success()'
    return True, ''


def manual_protocol_paths(fn, asg, var):
    """The protocol as a typestate over the flow graph, whatever the syntactic shape: from `var = ....enter()` on, (1) every normal path
    to the function's return passes `var.success()`, (2) every path to the function's exceptional exit passes `var.fail()` (or comes after
    the success), (3) after `var.fail()` the function does not return normally (the handler re-raises).  `if var:` / `if not var:` are
    decided: on these paths `var` holds the entered manager."""
    cfg = CFG(fn)
    enter_nodes = [n for n in cfg.nodes if any(x is asg for x in subnodes(cfg, n)) or n.ast is asg]
    if not enter_nodes:
        return False, 'manual enter() not found in the flow graph'

    def calls(n, meth):
        return any(isinstance(x, ast.Call) and call_name(x) == meth and isinstance(x.func, ast.Attribute) and norm(x.func.value) == var
                   for x in subnodes(cfg, n))
    succ_nodes = {n.id for n in cfg.nodes if calls(n, 'success')}
    fail_nodes = {n.id for n in cfg.nodes if calls(n, 'fail')}
    if not succ_nodes or not fail_nodes:
        return False, 'manual protocol: success() / fail() of the entered manager not found'

    def trivially_safe(e):
        # evaluating a bare name / constant / `not name` / `a is b` cannot raise
        while isinstance(e, ast.UnaryOp) and isinstance(e.op, ast.Not):
            e = e.operand
        if isinstance(e, (ast.Name, ast.Constant)):
            return True
        return isinstance(e, ast.Compare) and all(isinstance(o, (ast.Is, ast.IsNot)) for o in e.ops) and \
            all(isinstance(x, (ast.Name, ast.Constant)) for x in [e.left] + e.comparators)

    def feasible(n, lab, s):
        if lab == 'exc':
            if n.kind == 'test' and trivially_safe(n.ast):
                return False
            if n.kind == 'stmt' and isinstance(n.ast, ast.Return) and (n.ast.value is None or trivially_safe(n.ast.value)):
                return False
        if n.kind == 'test' and lab in ('true', 'false'):
            t, neg = n.ast, False
            while isinstance(t, ast.UnaryOp) and isinstance(t.op, ast.Not):
                t, neg = t.operand, not neg
            if isinstance(t, ast.Name) and t.id == var:
                return lab == ('false' if neg else 'true')
        return True
    for e in enter_nodes:
        starts = [s for lab, s in e.succ if lab != 'exc']
        reach = set(starts)
        for st in starts:
            if st not in succ_nodes | fail_nodes:
                reach |= cfg.reachable(st, feasible, stop=succ_nodes | fail_nodes)
        # one release per enter: the holder of an entered manager is not overwritten by a second plain enter()
        for n2 in cfg.nodes:
            if n2.id in reach and n2.id != e.id:
                for x in subnodes(cfg, n2):
                    if isinstance(x, ast.Assign) and len(x.targets) == 1 and norm(x.targets[0]) == var and isinstance(x.value, ast.Call) and \
                            call_name(x.value) == 'enter':
                        return False, (f'manual protocol: `{var} = ....enter()` at line {x.lineno} overwrites a manager that may already be entered '
                                       f'(two enters, one release: the registry count never returns to zero)')
        if cfg.exit in reach:
            return False, 'manual protocol: a normal path from enter() to the return skips success()'
        if cfg.raise_ in reach:
            return False, 'manual protocol: an exception after enter() can leave the function without fail()'
    for f in fail_nodes:
        if cfg.exit in cfg.reachable(f, lambda n, lab, s: lab != 'exc'):
            return False, 'manual protocol: after fail() the handler must re-raise'
    return True, ''


def manual_protocol_inside_try(fn, asg, var, par):
    """Variant used by unpar(): `var = None` before a try; `var = ....enter()` inside the try body; a catch-all handler does
    `if var: var.fail()` and re-raises; the else clause does `if var: var.success()`; no return inside the try body."""
    t = asg
    while t in par and not isinstance(t, ast.Try):
        t = par[t]
        if t is fn:
            return False, 'manual enter() is neither followed by nor inside a try/except/else'
    if not isinstance(t, ast.Try) or not any(asg is x for s in t.body for x in ast.walk(s)):
        return False, 'manual enter() is neither followed by nor inside a try body'
    # var initialised to None right before the try
    holder = None
    for n in ast.walk(fn):
        for fld in ('body', 'orelse', 'finalbody'):
            lst = getattr(n, fld, None)
            if isinstance(lst, list) and t in lst:
                holder = lst
    i = holder.index(t) if holder else -1
    init = i > 0 and isinstance(holder[i - 1], ast.Assign) and norm(holder[i - 1]) == f'{var} = None'
    if not init:
        return False, f'manual protocol inside try: `{var} = None` must precede the try'
    catch_all = [h for h in t.handlers if h.type is None or norm(h.type) == 'BaseException']
    if not catch_all:
        return False, 'manual protocol: no bare `except:` handler'
    h = catch_all[0]

    def guarded_call(stmts, meth):
        for s_ in stmts:
            if isinstance(s_, ast.If) and norm(s_.test) == var:
                if any(isinstance(x, ast.Call) and call_name(x) == meth and norm(x.func.value) == var for b in s_.body for x in ast.walk(b)):
                    return True
        return False
    if not (guarded_call(h.body, 'fail') and any(isinstance(s_, ast.Raise) and s_.exc is None for s_ in h.body)):
        return False, 'manual protocol: handler must do `if m: m.fail()` and re-raise'
    if not guarded_call(t.orelse, 'success'):
        return False, 'manual protocol: else clause must do `if m: m.success()`'
    for s_ in t.body:
        for x in ast.walk(s_):
            if isinstance(x, ast.Return):
                return False, 'manual protocol: `return` inside the try body skips success()'
    # one release per enter: the holder must not be overwritten by a second enter() while it may already hold an entered manager
    # (`m = m or X.enter()` keeps the first one and is fine)
    from ..cfg import CFG, solve, subnodes
    cfg = CFG(fn)

    def enters(node):
        out = []
        for x in subnodes(cfg, node):
            if isinstance(x, ast.Assign) and len(x.targets) == 1 and norm(x.targets[0]) == var:
                v = x.value
                if isinstance(v, ast.Call) and call_name(v) == 'enter':
                    out.append('plain')
                elif isinstance(v, ast.BoolOp) and isinstance(v.op, ast.Or) and norm(v.values[0]) == var:
                    out.append('guarded')
                elif isinstance(v, ast.Constant) and v.value is None:
                    out.append('none')
                else:
                    out.append('other')
        return out

    def transfer(node, st):
        for k in enters(node):
            st = 'N' if k == 'none' else 'H'
        return st

    ins = solve(cfg, 'N', transfer, lambda a_, b_: 'H' if 'H' in (a_, b_) else 'N')
    for node in cfg.nodes:
        if 'plain' in enters(node) and ins.get(node.id) == 'H':
            return False, (f'manual protocol: `{var} = ....enter()` at line {node.lineno} overwrites a manager that may already be entered '
                           f'(two enters, one release: the registry count never returns to zero)')
    return True, ''


def check_manager(ctx):
    ctx.rule('R12.2', '_Modifying (all version variants): enter() cannot raise after its first store into _MODIFYING; success() / '
                      'fail() release the registry entry before any call other than _MODIFYING.get; __exit__ calls exactly one '
                      'of success / fail and returns False', 8)
    m = ctx.repo.mod('fst_core')

    def store_stmt(x):
        return isinstance(x, (ast.Assign, ast.Delete)) and any(isinstance(t, ast.Subscript) and norm(t.value) == '_MODIFYING' for t in x.targets)

    def release_analysis(fi, releasers):
        """(stores, nodes that may raise before a release, exit reachable without a release) for one function."""
        cfg = CFG(fi.node)

        def is_store(n):
            if n.kind == 'stmt' and store_stmt(n.ast):
                return True
            return any(isinstance(x, ast.Call) and call_name(x) in releasers for x in subnodes(cfg, n))

        def may_raise(n):
            if n.kind == 'stmt' and isinstance(n.ast, ast.Raise):
                return True
            for x in subnodes(cfg, n):
                if isinstance(x, ast.Call) and not (isinstance(x.func, ast.Attribute) and norm(x.func.value) == '_MODIFYING' and x.func.attr == 'get') \
                        and call_name(x) not in releasers:
                    return True
            return False
        stores = [n for n in cfg.nodes if is_store(n)]
        rel_ids = {s_.id for s_ in stores}
        reach = cfg.reachable(cfg.entry, lambda n, lab, s2: lab != 'exc' and n.id not in rel_ids)
        bad = [cfg.nodes[i] for i in reach if i not in rel_ids and may_raise(cfg.nodes[i])]
        return cfg, stores, bad, cfg.exit in reach

    # a module-level helper — or a method of the manager classes, `self._leave()` — that releases the entry on every path before anything
    # that can raise is a release (wrapper summary)
    releasers = set()
    for q, fis in m.funcs.items():
        for fi in fis:
            if ('.' in q and not q.startswith('_Modifying')) or q.split('.')[-1] in ('enter', 'success', 'fail', '__exit__', '__enter__', '__init__') or \
                    isinstance(fi.node, ast.Lambda) or not any(store_stmt(x) for x in walk_no_nested(fi.node)):
                continue
            _, stores, bad, leak = release_analysis(fi, set())
            if stores and not bad and not leak:
                releasers.add(fi.name)
    ctx.extra['registry_release_helpers'] = sorted(releasers)

    def manager_methods(name):
        """Definitions of `_Modifying.<name>`, looked up through the base classes when the variants share a version-independent base."""
        out, seen, todo = [], set(), ['_Modifying']
        while todo:
            c = todo.pop()
            if c in seen:
                continue
            seen.add(c)
            got = m.func(f'{c}.{name}')
            if got:
                out += got
                continue
            for st in m.tree.body:
                if isinstance(st, ast.ClassDef) and st.name == c:
                    todo += [b.id for b in st.bases if isinstance(b, ast.Name)]
        return out
    for q in ('_Modifying.enter', '_Modifying.success', '_Modifying.fail', '_Modifying.__exit__'):
        fis = manager_methods(q.split('.')[1])
        if not fis:
            raise AnalysisError(f'fst_core.{q} not found')
        for fi in fis:
            cfg = CFG(fi.node)

            def is_store(n):
                if n.kind == 'stmt' and store_stmt(n.ast):
                    return True
                return any(isinstance(x, ast.Call) and call_name(x) in releasers for x in subnodes(cfg, n))

            def may_raise(n):
                if n.kind == 'stmt' and isinstance(n.ast, ast.Raise):
                    return True
                for x in subnodes(cfg, n):
                    if isinstance(x, ast.Call) and not (isinstance(x.func, ast.Attribute) and norm(x.func.value) == '_MODIFYING' and x.func.attr == 'get') \
                            and call_name(x) not in releasers:
                        return True
                return False
            stores = [n for n in cfg.nodes if is_store(n)]
            name = q.split('.')[1]
            if name == 'enter':
                if not stores:
                    raise AnalysisError(f'{fi.key}: no store into _MODIFYING')
                for s in stores:
                    after = cfg.reachable(s.id, lambda n, lab, s2: lab != 'exc')
                    bad = [cfg.nodes[i] for i in after if may_raise(cfg.nodes[i])]
                    ctx.check('R12.2', not bad, fi.module, fi.key.split('.', 1)[1], f'after {norm(s.ast, 60)}',
                              f'enter() registers the tree and can then still fail in {[norm(b.ast, 50) for b in bad][:2]}: the entry is '
                              f'never released (with-statement does not call __exit__ when __enter__ raises)', s.lineno)
            elif name in ('success', 'fail'):
                if not stores:
                    raise AnalysisError(f'{fi.key}: no release of _MODIFYING')
                # every path from entry reaches a release store before any node that may raise
                rel_ids = {s.id for s in stores}
                reach = cfg.reachable(cfg.entry, lambda n, lab, s2: lab != 'exc' and n.id not in rel_ids)
                bad = [cfg.nodes[i] for i in reach if i not in rel_ids and may_raise(cfg.nodes[i])]
                ctx.check('R12.2', not bad, fi.module, fi.key.split('.', 1)[1], 'release precedes anything that can raise',
                          f'{name}() can raise in {[norm(b.ast, 50) for b in bad][:2]} before the registry entry is released: the tree stays '
                          f'locked after the edit', fi.lineno)
                # and every normal path to exit passes a release
                reach2 = cfg.reachable(cfg.entry, lambda n, lab, s2: lab != 'exc' and n.id not in rel_ids)
                ctx.check('R12.2', cfg.exit not in reach2, fi.module, fi.key.split('.', 1)[1], 'every return passes a release',
                          f'{name}() has a path to return that neither decrements nor deletes the registry entry', fi.lineno)
            else:
                txt = norm(ast.unparse(fi.node), 5000)
                rets = [n for n in walk_no_nested(fi.node) if isinstance(n, ast.Return)]
                ok = len(rets) == 1 and norm(rets[0].value) == 'False'
                ifs = [n for n in fi.node.body if isinstance(n, ast.If)]
                ok = ok and len(ifs) == 1 and norm(ifs[0].test) == 'exc_type is None' and \
                    any(call_name(x) == 'success' for s in ifs[0].body for x in ast.walk(s) if isinstance(x, ast.Call)) and \
                    any(call_name(x) == 'fail' for s in ifs[0].orelse for x in ast.walk(s) if isinstance(x, ast.Call))
                ctx.check('R12.2', ok, fi.module, fi.key.split('.', 1)[1], 'if exc_type is None: success() else: fail(); return False',
                          '__exit__ must release on both outcomes and must not swallow the exception', fi.lineno)


# ----------------------------------------------------------------------------------------------------------------------

from .atomic import Flow, VALIDATOR_RE, validator_calls, PAIRS

# reviewed instances: (function qualname, prefix of the reported construct) -> reason it cannot violate the property
REVIEWED = {
    ('_put_one_Raise_exc', '_put_one_exprlike_optional(self, code, idx', 'call to _put_one_exprlike_optional whose own body'):
        'deleting Raise.exc first deletes the dependent `cause` (a complete edit); the following delete of `exc` runs with '
        'code=None, can_del=True, an index already rejected by the dispatcher for this non-list field, and a deletion location '
        'that exists whenever the child exists: it cannot be refused',
    ('_put_one_ExceptHandler_type', '_put_one_exprlike_optional(self, code, idx', 'call to _put_one_exprlike_optional whose own body'):
        ('same shape as Raise.exc: the dependent `name` is removed first, the delete of `type` with code=None cannot be refused '
         '(the except* case is rejected before the first splice: premise checked on every run)', 'except_star_rejected_first'),
    ('_get_slice_stmtlike_old', "raise ValueError('cannot specify `one=True` if getting multiple statements')"):
        'one=True is passed only by _get_one_stmtlike with the range (idx, idx + 1), i.e. exactly one statement; the source marks '
        'the raise "doesn\'t currently happen" (internal invariant, not a request)',
    ('_put_slice_stmtlike_old', 'raise ValueError(f"cannot insert empty statement into empty'):
        'reached after _elif_to_else_if only when len_body == 1 and the request is an insertion (start == stop in 0..1): then '
        'body[0] is fpre or fpost, so the final `else` arm (neither neighbour exists) is infeasible on that path',
    ('_put_slice_stmtlike_old', '_src_edit.get_slice_stmt(self, field, True, block_loc'):
        ("the only request-dependent raise in SrcEdit.get_slice_stmt rejects a 'pep8space' value outside {True, False, 1}; "
         'check_options (_check_opt_pep8space) has rejected such a value before any kernel call (R20.5; that the screen implies the deep check is '
         'folded over a set of probe values on every run)', 'pep8space_screen_implies_range'),
    ('FST.put_docstr', "self._put_slice(text, 0, has_docstr, 'body'"):
        're-put: the old docstring is deleted by a complete edit, then the new one is put; `text` is the output of '
        'repr_str_multiline (always a valid string literal statement) and the options were validated by check_options at entry',
}


def premise_except_star_rejected_first(ctx, ef, fi) -> bool:
    """The handler refuses `except*` by an explicit raise under a test that asks is_except_star(), and that raise precedes every splice / store."""
    from ..struct import enclosing_tests
    par = parent_map(fi.node)
    first_mut = min([c.lineno for c in walk_no_nested(fi.node) if isinstance(c, ast.Call) and call_name(c) == '_put_src'] +
                    [a.lineno for a in walk_no_nested(fi.node) if isinstance(a, ast.Assign) and any(isinstance(t, ast.Attribute) for t in a.targets)] +
                    [10 ** 9])
    for r in walk_no_nested(fi.node):
        if isinstance(r, ast.Raise) and r.lineno < first_mut:
            tests = enclosing_tests(fi.node, r, par)
            vals = {}
            for a in walk_no_nested(fi.node):
                if isinstance(a, ast.Assign):
                    for t_ in a.targets:
                        if isinstance(t_, ast.Name):
                            vals.setdefault(t_.id, []).append(a.value)
                elif isinstance(a, ast.NamedExpr):
                    vals.setdefault(a.target.id, []).append(a.value)
            # a local that holds the answer of is_except_star() - on every path that binds it
            asks = {k for k, vs in vals.items() if all(any(isinstance(x, ast.Call) and call_name(x) == 'is_except_star' for x in ast.walk(v)) for v in vs)}
            if any((isinstance(x, ast.Call) and call_name(x) == 'is_except_star') or (isinstance(x, ast.Name) and x.id in asks)
                   for t, _ in tests for x in ast.walk(t)):
                return True
    return False


PEP8SPACE_PROBES = (True, False, 0, 1, 2, 3, 10, -1, 0.5, 1.5, 'x', '', None, (), 'strict')


def premise_pep8space_screen_implies_range(ctx, ef, fi) -> bool:
    """Every value the up-front option screen lets through (the `pep8space` row of the option check table returns None for it) is one the
    deep checks in the statement source editor do not refuse: both predicates are folded by the static evaluator over a set of probe values."""
    from ..struct import enclosing_tests
    try:
        table = ctx.ev.get('fst_options', '_ALL_OPTION_CHECK_FUNCS')
        screen = table.get('pep8space')
    except Exception:
        return False
    if not isinstance(screen, FuncTok):
        return False
    deep = []
    for g in ctx.repo.all_funcs():
        if isinstance(g.node, ast.Lambda) or g.module != 'slice_stmtlike':
            continue
        par = None
        for r in walk_no_nested(g.node):
            if isinstance(r, ast.Raise) and any(isinstance(c, ast.Constant) and isinstance(c.value, str) and 'pep8space' in c.value for c in ast.walk(r)):
                par = par or parent_map(g.node)
                tests = enclosing_tests(g.node, r, par)
                # the local that holds the option value: bound from get_option('pep8space', ...)
                names = {t.id for a in walk_no_nested(g.node) if isinstance(a, ast.Assign) and isinstance(a.value, ast.Call) and call_name(a.value) == 'get_option'
                         and a.value.args and isinstance(a.value.args[0], ast.Constant) and a.value.args[0].value == 'pep8space'
                         for t in a.targets if isinstance(t, ast.Name)}
                rel = [(t, pol) for t, pol in tests if any(isinstance(y, ast.Name) and y.id in names for y in ast.walk(t))]
                if rel and names:
                    deep.append((g, names, rel))
    if not deep:
        return False
    for v in PEP8SPACE_PROBES:
        try:
            verdict = ctx.ev.call_repo_function(screen, ['pep8space', v], {})
        except Exception:
            return False
        if verdict is not None and not isinstance(verdict, str):
            return False                      # the screen did not fold for this value: the premise is not established
        if verdict is not None:
            continue
        for g, names, rel in deep:
            env = {nm: v for nm in names}
            refused = True
            for t, pol in rel:
                try:
                    val = ctx.ev.eval(t, dict(env), g.module)
                except Exception:
                    return False
                if not isinstance(val, (bool, int, float, str, type(None), tuple)):
                    return False              # did not fold: the premise is not established
                if bool(val) != pol:
                    refused = False
                    break
            if refused:
                return False
    return True


PREMISES = {'except_star_rejected_first': premise_except_star_rejected_first,
            'pep8space_screen_implies_range': premise_pep8space_screen_implies_range}


def reviewed_reasons(ctx, ef, fi, k, how):
    """Reasons of the REVIEWED entries that cover construct `k` reported for `fi` with explanation `how` (an entry may name the kind of
    rejection it reviewed, and a premise that is re-established structurally on every run)."""
    out = []
    for key, val in REVIEWED.items():
        q, pre = key[0], key[1]
        if q != fi.qualname or not k.startswith(pre):
            continue
        if len(key) > 2 and not how.startswith(key[2]):
            continue
        reason, premise = (val, None) if isinstance(val, str) else val
        if premise is not None and not PREMISES[premise](ctx, ef, fi):
            continue
        out.append(reason)
    return out


def row_info_functions(ctx):
    """{handler function key: [info FuncInfo]}: the `getinfo` slot of the put-one rows a handler serves."""
    cache = getattr(ctx, '_row_infos', None)
    if cache is not None:
        return cache
    cache = {}
    P1 = ctx.ev.get('fst_put_one', '_PUT_ONE_HANDLERS')
    for row in P1.values():
        if isinstance(row, tuple) and len(row) == 3 and isinstance(row[1], FuncTok):
            gi = getattr(row[2], 'fields', {}).get('getinfo') if hasattr(row[2], 'fields') else getattr(row[2], 'getinfo', None)
            if isinstance(gi, FuncTok):
                for h in ctx.repo.mod(row[1].module).func(row[1].qualname):
                    for g in ctx.repo.mod(gi.module).func(gi.qualname):
                        if g not in cache.setdefault(h.key, []):
                            cache[h.key].append(g)
    ctx._row_infos = cache
    return cache


def asks_row_info(ctx, cal) -> bool:
    """Does `cal` consult the info function of the row it is called for (`static.getinfo(...)`)?"""
    return any(isinstance(c, ast.Call) and ((isinstance(c.func, ast.Attribute) and c.func.attr == 'getinfo') or
                                            (isinstance(c.func, ast.Name) and c.func.id == 'getinfo')) for c in walk_no_nested(cal.node))


def early_raisers(ctx, ef):
    """{function key: description} for kernel functions whose *own body* has an explicit request-dependent raise."""
    cache = getattr(ctx, '_early', None)
    if cache is not None:
        return cache
    cache = {}
    for fi in ctx.repo.all_funcs():
        if isinstance(fi.node, ast.Lambda) or fi.module not in KERNEL_MODULES:
            continue
        if VALIDATOR_RE.match(fi.name):
            continue
        cfg = ef.cfg(fi)
        for n in cfg.nodes:
            if n.kind == 'stmt' and isinstance(n.ast, ast.Raise) and ef.is_user_raise(fi, n.ast):
                cache[fi.key] = f'raise at line {n.lineno}'
                break
    ctx._early = cache
    return cache


def raise_sources(ctx, ef, fi, flow, node, disj, consts):
    """Constructs evaluated at `node` that can reject the caller's request: (construct, description)."""
    cfg = flow.cfg
    srcs = []
    if node.kind == 'stmt' and isinstance(node.ast, ast.Raise):
        if is_reraise(fi, node.ast):
            return srcs       # propagates what the try body raised; the sources in the try body are examined on their own
        if ef.is_user_raise(fi, node.ast, consts):
            srcs.append((node.ast, 'explicit raise'))
        return srcs
    for c in validator_calls(cfg, node):
        srcs.append((c, f'request validation `{call_name(c)}`'))
    early = early_raisers(ctx, ef)
    ce = ef._ce(fi)
    clean = [{k: v for k, v in d.items() if k[:1] != '$'} for d in disj]
    for x in subnodes(cfg, node):
        if isinstance(x, ast.Call) and id(x) in ce:
            for cal, binding in ce[id(x)]:
                if cal.key in early and not VALIDATOR_RE.match(cal.name) and cal.name not in PAIRS:
                    for cc in ef.call_consts_all(cal, binding, clean):
                        if own_raise_feasible(ef, cal, cc):
                            srcs.append((x, f'call to {cal.qualname} whose own body can reject the request ({early[cal.key]})'))
                            break
                # the callee asks the info function of the table row this handler serves: that function must not reject either
                infos = row_info_functions(ctx).get(fi.key)
                if infos and asks_row_info(ctx, cal):
                    for g in infos:
                        if ef.raises(g, {}):
                            srcs.append((x, f'info function {g.qualname} of the table row, consulted by {cal.qualname}, can reject the request'))
    return srcs


def is_reraise(fi, st: ast.Raise) -> bool:
    """bare `raise`, or `raise <name bound by the enclosing except clause>` (possibly after attaching context)."""
    if st.exc is None:
        return True
    if isinstance(st.exc, ast.Name):
        for n in ast.walk(fi.node):
            if isinstance(n, ast.ExceptHandler) and n.name == st.exc.id and any(x is st for s in n.body for x in ast.walk(s)):
                return True
    return False


def analyse_function(ctx, ef, fi, param='self', consts=None):
    """(findings, nodes examined): after the first permanent mutation of the tree of `param` ($mut), or while a temporary
    normalisation is in force ($tmp) and no handler restores it, nothing may reject the request."""
    consts = dict(consts or {})
    flow = Flow(ef, fi, param, consts)
    cfg = flow.cfg
    findings = []
    n_checked = 0
    for node in cfg.nodes:
        if node.kind not in ('stmt', 'test', 'iter', 'with', 'case'):
            continue
        states = flow.states(node.id)
        mut = [d for d in states if '$mut' in d]
        tmp = [d for d in states if flow.tmp_held(d)]
        if not mut and not tmp:
            continue
        n_checked += 1
        srcs = raise_sources(ctx, ef, fi, flow, node, mut + tmp, consts)
        if not srcs:
            continue
        for construct, how in srcs:
            if mut and flow.exception_leaves(node):
                line = min(d['$mut'][1] for d in mut)
                findings.append((construct, how, f'the target tree was already modified (first mutation at line {line})', 'after-mutation'))
            if tmp:
                held = set()
                for d in tmp:
                    held |= set(flow.tmp_held(d))
                if flow.exception_leaves(node, held):
                    findings.append((construct, how, f'the temporary normalisation {sorted(held)} is in force and no handler restores it',
                                     'unrestored:' + ','.join(sorted(held))))
    return findings, n_checked


def own_raise_feasible(ef, cal, consts) -> bool:
    """Can `cal` (specialised) reach one of its own explicit request-dependent raises before mutating its own `self`?"""
    key = ('own', cal.key, tuple(sorted((k, repr(v)) for k, v in consts.items())))
    c = ef._raises.get(key)
    if c is not None:
        return c
    ps = cal.params()
    flow = Flow(ef, cal, 'self' if 'self' in ps else (ps[0] if ps else 'self'), {k: v for k, v in consts.items() if k in ps})
    res = False
    for n in flow.cfg.nodes:
        if n.kind == 'stmt' and isinstance(n.ast, ast.Raise) and ef.is_user_raise(cal, n.ast, consts):
            if any('$mut' not in d for d in flow.states(n.id)):
                res = True
                break
    ef._raises[key] = res
    return res


def roots_for_r123(ctx, ef):
    """Functions to analyse: everything in the edit-kernel modules whose `self` tree is mutated."""
    out = []
    ef.compute_mutations()
    for fi in ctx.repo.all_funcs():
        if isinstance(fi.node, ast.Lambda) or fi.module not in KERNEL_MODULES:
            continue
        ps = fi.params()
        if not ps or ps[0] != 'self':
            continue
        if fi.cls and fi.cls not in ('FST',) and not fi.cls.startswith('FSTView') and fi.cls not in ('SrcEdit',):
            continue
        if 'self' in ef._mut.get(fi.key, ()):       # unspecialised fixpoint (upper bound) is enough to select candidates
            out.append(fi)
    return out


def reviewed_through_worker(ctx, ef, fi, how):
    """A reviewed raise that was moved, with the arm it sits in, into a private worker: the review is about the raise statement and the function it
    is reached from.  It carries over when the worker is called by that function only and *every* request-dependent raise of the worker's own
    body is a reviewed construct of that function."""
    m = re.match(r'call to (\S+) whose own body can reject the request', how)
    if not m:
        return []
    workers = [w for w in ctx.repo.mod(fi.module).func(m.group(1)) if not isinstance(w.node, ast.Lambda)] if m.group(1) in ctx.repo.mod(fi.module).funcs else []
    if len(workers) != 1 or not workers[0].name.startswith('_'):
        return []
    w = workers[0]
    callers = {f.key for f in ctx.repo.all_funcs() if not isinstance(f.node, ast.Lambda) and f is not w and
               any(isinstance(c, ast.Call) and call_name(c) == w.name for c in ast.walk(f.node))}
    if callers != {fi.key}:
        return []
    reasons = []
    for n in walk_no_nested(w.node):
        if isinstance(n, ast.Raise) and ef.is_user_raise(w, n) and not is_reraise(w, n):
            rv = reviewed_reasons(ctx, ef, fi, norm(n, 80), 'explicit raise')
            if not rv:
                return []
            reasons.append(rv[0])
    return reasons


def check_validate_then_mutate(ctx, ef):
    ctx.rule('R12.3', 'no user-triggerable raise (explicit, or through a callee that can raise one) is reachable after the first '
                      'mutation of the tree of `self` in any kernel function (path sensitive, constant-specialised callees)', 150)
    fns = roots_for_r123(ctx, ef)
    if len(fns) < 150:
        raise AnalysisError(f'only {len(fns)} tree-mutating kernel functions found (>= 150 expected)')
    total = 0
    early_raisers(ctx, ef)          # computed once before forking
    for fi in fns:
        ef.caller_consts(fi)
        break
    fns.sort(key=lambda f: -len(ef.cfg(f).nodes))

    def work(fi):
        consts = ef.caller_consts(fi)
        findings, n = analyse_function(ctx, ef, fi, 'self', consts)
        return [(norm(c, 80) + ' @' + tag, getattr(c, 'lineno', 0), how, state) for c, how, state, tag in findings], n, {k: repr(v) for k, v in consts.items()}
    from ..engine import parallel_map
    results = parallel_map(work, fns)
    for fi, (findings, n, consts) in zip(fns, results):
        total += n
        seen = set()
        real = []
        for k, line, how, state in findings:
            if k in seen:
                continue
            seen.add(k)
            rv = reviewed_reasons(ctx, ef, fi, k, how)
            if not rv:
                rv = reviewed_through_worker(ctx, ef, fi, how)
            if rv:
                ctx.ok('R12.3', f'{fi.module}|{fi.qualname}|reviewed: {k}', sample={'reviewed': fi.qualname, 'how': how[:100], 'reason': rv[0][:120]})
                continue
            real.append((k, line, how, state))
        if not real:
            ctx.ok('R12.3', f'{fi.module}|{fi.qualname}', sample={'function': fi.key, 'nodes_after_mutation_checked': n,
                                                                  'specialised_for': consts})
        for k, line, how, state in real:
            ctx.bad('R12.3', fi.module, fi.key.split('.', 1)[1], k,
                    f'{how} is reachable while {state}: a rejected request leaves a half-applied edit', line)
    ctx.extra['r123_functions'] = len(fns)
    ctx.extra['r123_nodes_after_mutation_examined'] = total


def check_kernel_lock(ctx):
    """R12.5: the kernel dispatchers run every handler that can modify the tree under the modification lock."""
    from ..struct import enclosing_tests
    ctx.rule('R12.5', 'in _put_one / _put_slice / _get_slice / _get_one every dispatch to a handler that can modify the tree (any put; a get with '
                      '`cut` not known to be false) is inside `with self._modifying(...)`; the lock is what repairs f-string debug text '
                      'after an edit and excludes nested edits of other nodes', 6)
    targets = [('fst_put_one', '_put_one'), ('fst_put_slice', '_put_slice'), ('fst_get_slice', '_get_slice'), ('fst_get_one', '_get_one')]
    for mod, q in targets:
        for fi in ctx.repo.funcs(mod, q):
            par = parent_map(fi.node)
            n = 0
            for c in walk_no_nested(fi.node):
                if not (isinstance(c, ast.Call) and isinstance(c.func, ast.Name) and c.func.id in ('handler', '_put_one_raw', '_put_slice_raw')):
                    continue
                n += 1
                locked = False
                cur = c
                while cur in par:
                    cur = par[cur]
                    if isinstance(cur, ast.With) and any(isinstance(i.context_expr, ast.Call) and call_name(i.context_expr) == '_modifying' for i in cur.items):
                        locked = True
                    if cur is fi.node:
                        break
                ok = locked
                why = ''
                if not locked and q in ('_get_slice', '_get_one'):
                    tests = enclosing_tests(fi.node, c, par)
                    # not under `if cut:` -> this is the copy path: allowed if an `if cut:` sibling handles the cut under the lock, i.e. the
                    # same function has a locked dispatch guarded by `cut`, or deletes through the kernel afterwards (`if cut: self._put_one(None..`)
                    under_cut = any(norm(t) == 'cut' and pol for t, pol in tests)
                    has_locked_cut = False
                    for c2 in walk_no_nested(fi.node):
                        if isinstance(c2, ast.Call) and ((isinstance(c2.func, ast.Name) and c2.func.id == 'handler') or call_name(c2) == '_put_one'):
                            t2 = enclosing_tests(fi.node, c2, par)
                            if any(norm(t) == 'cut' and pol for t, pol in t2):
                                cur2, l2 = c2, call_name(c2) == '_put_one'
                                while cur2 in par and not l2:
                                    cur2 = par[cur2]
                                    if isinstance(cur2, ast.With) and any(isinstance(i.context_expr, ast.Call) and call_name(i.context_expr) == '_modifying' for i in cur2.items):
                                        l2 = True
                                    if cur2 is fi.node:
                                        break
                                has_locked_cut = has_locked_cut or l2
                    ok = (not under_cut) and has_locked_cut
                    # the unlocked dispatch must be unreachable when cut is true, or harmless: for _get_slice it follows `if cut: with ...: return`
                    if ok and q == '_get_slice':
                        # the copy dispatch must come after an `if cut:` whose body returns
                        ifs = [x for x in fi.node.body if isinstance(x, ast.If) and norm(x.test) == 'cut']
                        ok = bool(ifs) and any(isinstance(y, ast.Return) for x in ifs for y in ast.walk(x)) and c.lineno > ifs[0].lineno
                    why = ' (a get that may cut must take the lock on the cut path)'
                ctx.check('R12.5', ok, fi.module, fi.qualname, c,
                          'handler dispatched without holding the modification lock' + why + ': f-string self-documenting text is not repaired '
                          'after the edit (source and Constant.value diverge) and a concurrent nested edit is not refused', c.lineno, sample=norm(c, 70))
            if n == 0:
                raise AnalysisError(f'{fi.key}: no handler dispatch found')


# ---- R12.6 -----------------------------------------------------------------------------------------------------------

def check_admission_guards(ctx):
    """The kernel (_put_one, _put_slice) admits a caller-supplied FST only after two checks made before anything is touched: it is not the
    tree's own root (circular put) and it still has its AST (not consumed / deleted).  An entry point that installs caller-supplied code
    *without* going through the kernel (FST.replace on the root: `self._lines = code._lines; self._set_ast(code.a, ...)`) must make the same
    checks before its first mutation, otherwise a consumed tree is grafted (`code.a` is None) after the source lines were already replaced."""
    from ..cfg import CFG, subnodes
    ctx.rule('R12.6', 'every path that installs caller-supplied code (kernel or direct) checks "not circular" and "not consumed" before the first mutation', 3)

    def guards(fn, code_name):
        """cfg node ids of raises guarded by `<code> is self[.root]` / `not <code>.a`"""
        cfg = CFG(fn)
        circ, cons = set(), set()
        for nd in cfg.nodes:
            if nd.kind != 'test' or nd.ast is None:
                continue
            t = nd.ast if isinstance(nd.ast, ast.expr) else getattr(nd.ast, 'test', None)
            if t is None:
                continue
            for x in ast.walk(t):
                if isinstance(x, ast.Compare) and len(x.ops) == 1 and isinstance(x.ops[0], ast.Is) and norm(x.left) == code_name and \
                        norm(x.comparators[0]) in ('self', 'self.root', 'root'):
                    circ.add(nd.id)
                if isinstance(x, ast.UnaryOp) and isinstance(x.op, ast.Not) and norm(x.operand) == code_name + '.a':
                    cons.add(nd.id)
        return cfg, circ, cons

    sites = [('fst_put_one', '_put_one'), ('fst_put_slice', '_put_slice'), ('fst', 'FST.replace')]
    for mod, q in sites:
        for fi in ctx.repo.funcs(mod, q):
            if 'code' not in fi.params():
                raise AnalysisError(f'{q}: parameter `code` vanished')
            from ..inline import inlined
            fnode, _ = inlined(ctx.repo, fi)         # an entry point split into wrapper + worker is read as one function
            cfg, circ, cons = guards(fnode, 'code')
            # first "installation" of the code: the handler dispatch in the kernel, the direct graft in replace()
            inst = []
            for nd in cfg.nodes:
                for x in subnodes(cfg, nd):
                    if isinstance(x, ast.Call) and call_name(x) == '_set_ast' and x.args and norm(x.args[0]).startswith('code'):
                        inst.append(nd)
                    elif isinstance(x, ast.Assign) and norm(x.targets[0]) == 'self._lines':
                        inst.append(nd)
                    elif isinstance(x, ast.Call) and call_name(x) == '_modifying' and q != 'FST.replace':
                        inst.append(nd)
            if not inst:
                raise AnalysisError(f'{q}: no installation point found')
            for name, gset in (('circular put (`code is self` / `self.root`)', circ), ('consumed tree (`not code.a`)', cons)):
                unguarded = cfg.reachable(cfg.entry, lambda n_, lab, s: lab != 'exc', stop=gset) | {cfg.entry}
                bad = [nd for nd in inst if nd.id in unguarded and nd.id not in gset]
                # paths of replace() that go through the kernel (non-root: parent._put_one) are guarded there
                if q == 'FST.replace':
                    bad = [nd for nd in bad if not any(isinstance(x, ast.Call) and call_name(x) in ('_put_one', '_put_slice') for x in subnodes(cfg, nd))]
                ctx.check('R12.6', bool(gset) and not bad, fi.module, fi.qualname, f'{name} before installing `code`',
                          f'caller-supplied code is installed on a path that did not check for a {name.split(" (")[0]}: e.g. a consumed FST (its .a is None) '
                          f'is grafted after the source lines were already replaced, leaving the tree without an AST', (bad[0].lineno if bad else fi.lineno),
                          sample={'function': fi.key, 'guard': name, 'guard_sites': len(gset)})


# ---- R12.7 -----------------------------------------------------------------------------------------------------------

def check_passthrough_is_root(ctx):
    """The `code_as*` normalisers reject an FST that is not the root of its own tree ("expecting root node") before anything happens.
    A coercion helper that passes a caller-supplied FST *through* (`fst_ = code` under an "is FST" test, no normaliser on that path) has
    to make the same check itself before it uses the node: otherwise a node that still sits in a tree (possibly the target tree) is
    edited in place (`_delimit_node()`), grafted, and the request fails later with the trees already changed."""
    ctx.rule('R12.7', 'a caller-supplied FST adopted as the code without a code_as* normaliser is checked to be a root before it is used', 3)
    n = 0
    for fi in ctx.repo.all_funcs():
        if isinstance(fi.node, ast.Lambda) or fi.module not in ('fst_put_slice', 'fst_put_one', 'slice_exprlike', 'slice_stmtlike') or 'code' not in fi.params():
            continue
        adopts = [x for x in walk_no_nested(fi.node) if isinstance(x, ast.Assign) and len(x.targets) == 1 and isinstance(x.targets[0], ast.Name) and
                  isinstance(x.value, ast.Name) and x.value.id == 'code' and x.targets[0].id != 'code']
        if not adopts:
            continue
        cfg = CFG(fi.node)

        def root_test(nd):
            # `if code.parent: raise` / `if not code.is_root: raise` (on `code` or on the adopting local)
            if nd.kind != 'test' or not isinstance(nd.ast, ast.expr):
                return False
            return any(isinstance(y, ast.Attribute) and y.attr in ('parent', 'is_root') and isinstance(y.value, ast.Name) and y.value.id in names
                       for y in ast.walk(nd.ast))
        for asg in adopts:
            var = asg.targets[0].id
            names = {'code', var}
            # is the adopted value used as a node afterwards (method call on it / handed to a callee)?  then every path from the function
            # entry to the adoption must have passed the root test
            used = any(isinstance(y, ast.Call) and ((isinstance(y.func, ast.Attribute) and isinstance(y.func.value, ast.Name) and y.func.value.id == var) or
                                                    any(isinstance(a, ast.Name) and a.id == var for a in y.args))
                       for y in walk_no_nested(fi.node)) or \
                any(isinstance(y, ast.Return) and y.value is not None and any(isinstance(z, ast.Name) and z.id == var for z in ast.walk(y.value))
                    for y in walk_no_nested(fi.node))
            if not used:
                continue
            # "either normalise here or the caller already did": the adoption is one arm of an `if` on another *parameter* (e.g. `validated`)
            # whose other arm calls a code_as* normaliser
            par_ = parent_map(fi.node)
            cur, delegated = asg, False
            while cur in par_:
                up = par_[cur]
                if isinstance(up, ast.If) and (cur in up.body or cur in up.orelse):
                    other = up.orelse if cur in up.body else up.body
                    tnames = {y.id for y in ast.walk(up.test) if isinstance(y, ast.Name)}
                    if tnames and tnames <= set(fi.params()) - {'code'} and \
                            any(isinstance(y, ast.Call) and 'code_as' in (call_name(y) or '') for o in other for y in ast.walk(o)):
                        delegated = True
                cur = up
            if delegated:
                continue
            n += 1
            tests = {nd.id for nd in cfg.nodes if root_test(nd)}
            anodes = [nd for nd in cfg.nodes if any(y is asg for y in subnodes(cfg, nd))]
            reach = cfg.reachable(cfg.entry, lambda n_, lab, s_: lab != 'exc', stop=tests) | {cfg.entry}
            ok = bool(anodes) and all(nd.id not in reach for nd in anodes)
            if not ok and anodes:
                # ... or the check comes right after the adoption: no use of the adopted node is reachable from it without passing the test
                def uses(nd):
                    if nd.id in tests:
                        return False
                    return any((isinstance(y, ast.Call) and ((isinstance(y.func, ast.Attribute) and isinstance(y.func.value, ast.Name) and y.func.value.id == var) or
                                                             any(isinstance(a, ast.Name) and a.id == var for a in y.args))) or
                               (isinstance(y, ast.Return) and y.value is not None and any(isinstance(z, ast.Name) and z.id == var for z in ast.walk(y.value)))
                               for y in subnodes(cfg, nd))
                ok = True
                for nd in anodes:
                    after = cfg.reachable(nd.id, lambda n_, lab, s_: lab != 'exc', stop=tests)
                    if any(uses(cfg.nodes[i]) for i in after if i != nd.id):
                        ok = False
            ctx.check('R12.7', ok, fi.module, fi.qualname, f'{norm(asg)} (caller-supplied node passed through)',
                      f'`{var} = code` adopts the caller\'s FST without the "expecting root node" check the code_as* normalisers make: a node that is '
                      f'still part of a tree (even of the target tree) is edited in place and grafted, and the request fails afterwards with both '
                      f'trees changed', asg.lineno, sample={'function': fi.key, 'adoption': norm(asg)})
    if n < 3:
        raise AnalysisError(f'only {n} pass-through adoptions of caller-supplied nodes found')
