"""C11 — whitespace-only source edits in offset mode keep every node on its text: the two static preconditions.

R11.1 syntax-order table: _offset() stops at the first child that ends before the edit point, which is sound only if children are
      enumerated completely and in source order: _SYNTAX_ORDERED_CHILDREN vs FIELDS (same decision procedure as R14.1a), and the
      interleaved builders hand back the reversed remainder of a list they consume with pop() un-reversed.
R11.2 units of the offset primitive: _params_offset computes byte deltas, _offset receives dcol_offset in bytes and compares / adds
      it only to byte columns (instances of the R6.1 unit inference on fst_core._offset, _params_offset, _offset_lns, _put_src).
R11.4 sentinel agreement: callers of the modification context pass `field` within its declared domain (sa/litdomain.py).
R11.3 early-termination anchors: every `break` of the walk in _offset() is guarded by a comparison of the child's *end* position with
      the offset point, and nodes starting on a later line are skipped only under `dln == 0`... (structure of the walk).
Not decided: the head / tail rules at the edit point (integer logic over runtime positions).
"""
from __future__ import annotations

import ast

from ..model import AnalysisError, norm, walk_no_nested, call_name
from ..callgraph import Resolver
from .. import tables as T

PROP = 'C11'
VERSIONED = True


def check_modifying_sentinel(ctx):
    from .. import litdomain
    ctx.rule('R11.4', 'the modification context is entered with a `field` inside its declared domain `str | Literal[False]`: it tells "the node is '
                      'the child" from "the node is the container" by `field is False`, so another falsy literal (None, 0, \'\') starts the '
                      'walk that collects the self-documenting f-string texts to refresh from the wrong node', 8)
    litdomain.check(ctx, 'R11.4', lambda fi, p, ann: fi.qualname in ('_modifying', '_Modifying.__init__') and p == 'field', 8)


def check_offset_arm(ctx):
    """R11.5: `put_src(..., action='offset')` promises that every node after the spot moves by the size of the change.  In the arm that serves that
    action every text splice is an offsetting one (`_put_src(..., tail, ...)`), and where the splice excludes `self` from its own walk the `_offset()`
    of `self`'s subtree follows on every path.  A splice without offsetting is what `action=None` is for."""
    from ..inline import inlined
    from ..cfg import CFG, subnodes
    from ..struct import parent_map, enclosing_tests
    from .c02 import put_src_offsets, pos_args
    ctx.rule('R11.5', 'in the `action == \'offset\'` arm of put_src() every text splice offsets the tree, and a splice that excludes `self` is followed '
                      'on every path by the _offset() of self', 1)
    n = 0
    for fi in ctx.repo.funcs('fst', 'FST.put_src'):
        fn, _ = inlined(ctx.repo, fi, 2)
        par = parent_map(fn)
        cfg = CFG(fn)

        def in_offset_arm(x):
            for t, pol in enclosing_tests(fn, x, par):
                if pol and isinstance(t, ast.Compare) and len(t.ops) == 1 and isinstance(t.ops[0], ast.Eq) and isinstance(t.left, ast.Name) and \
                        t.left.id == 'action' and isinstance(t.comparators[0], ast.Constant) and t.comparators[0].value == 'offset':
                    return True
            return False
        off_nodes = {nd.id for nd in cfg.nodes if any(isinstance(x, ast.Call) and call_name(x) == '_offset' for x in subnodes(cfg, nd))}
        for nd in cfg.nodes:
            for x in subnodes(cfg, nd):
                if not (isinstance(x, ast.Call) and call_name(x) == '_put_src' and in_offset_arm(x)):
                    continue
                n += 1
                offs = put_src_offsets(x)
                ctx.check('R11.5', offs, fi.module, fi.qualname, f'splice in the offset arm: {norm(x, 70)}',
                          'a text splice in the arm that serves action=\'offset\' does not offset the tree (no `tail` argument): every node after the spot '
                          'keeps its old position unless the new text happens to have the same shape', x.lineno, sample=norm(x, 90))
                pa = pos_args(x)
                excl = pa[7] if len(pa) > 7 else next((k.value for k in x.keywords if k.arg == 'exclude'), None)
                if offs and excl is not None and not (isinstance(excl, ast.Constant) and excl.value is None):
                    esc = cfg.reachable(nd.id, lambda n_, lab, s_: lab != 'exc', stop=off_nodes)
                    ctx.check('R11.5', cfg.exit not in esc, fi.module, fi.qualname, f'_offset() of the excluded node after {norm(x, 50)}',
                              f'the splice excludes `{norm(excl)}` from the offset walk and a path reaches the end of put_src() without the separate '
                              f'_offset() of that node: its own subtree keeps the old positions', x.lineno)
    if n < 1:
        raise AnalysisError("put_src(): no text splice found in the arm for action == 'offset' (anchor vanished)")


def check_line_only_nodes(ctx, F):
    """R11.6: a node class that carries a line number as a *field* (`TypeIgnore.lineno`; no end position, no columns) and is a syntax-order child of
    another class is walked by `_offset()` like any other child.  The arm of `_offset()` that moves positions is entered through a test on
    `end_col_offset`; such a node needs its own arm that stores `.lineno`, otherwise every edit that adds or removes a line above the comment
    leaves it on the old line (the tree no longer equals a fresh parse with `type_comments=True`)."""
    ctx.rule('R11.6', 'every grammar class with a `lineno` field but no end position that is enumerated as a child has an arm in _offset() that '
                      'moves its line', 1)
    line_only = [c for c, fs in F.items() if any(f == 'lineno' for f, _ in fs)]
    if not line_only:
        raise AnalysisError('no grammar class with a `lineno` field found (TypeIgnore expected)')
    for fi in ctx.repo.funcs('fst_core', '_offset'):
        stores = []
        for n in walk_no_nested(fi.node):
            if isinstance(n, ast.If) and any((isinstance(x, ast.Constant) and x.value == 'end_col_offset') or
                                             (isinstance(x, ast.Attribute) and x.attr == 'end_col_offset') for x in ast.walk(n.test)):
                # the arm(s) for nodes *without* an end position
                for st in n.orelse:
                    for x in ast.walk(st):
                        if isinstance(x, (ast.Assign, ast.AugAssign)):
                            for t in (x.targets if isinstance(x, ast.Assign) else [x.target]):
                                if isinstance(t, ast.Attribute) and t.attr == 'lineno':
                                    stores.append(x)
        for c in line_only:
            ctx.check('R11.6', bool(stores), fi.module, fi.qualname, f'{c.name}.lineno moved by _offset()',
                      f'{c.name} carries its line number as a field and has no end position: _offset() enters its position arm only for nodes with '
                      f'`end_col_offset`, and there is no other arm that stores `.lineno` - after an edit that adds or removes lines above it the node '
                      f'stays on the old line (verify() with type_comments=True fails)', fi.lineno, sample={'class': c.name, 'stores': [norm(x, 60) for x in stores]})


def run(ctx):
    check_modifying_sentinel(ctx)
    check_offset_arm(ctx)
    check_line_only_nodes(ctx, T.fields(ctx))
    ctx.not_decided += ['head / tail rules for nodes that begin or end exactly at the edit point', 'equality with a from-scratch parse of the new source']
    F = T.fields(ctx)
    ctx.rule('R11.1', 'children are enumerated completely and in source order (table vs grammar); interleaved builders restore the '
                      'orientation of reversed work lists', 120)
    from .c14 import check_soc_vs_fields
    check_soc_vs_fields(ctx, F, 'R11.1')
    check_orientation(ctx, 'R11.1')

    ctx.rule('R11.2', 'byte / character units in the offset primitives (fst_core._params_offset, _offset, _offset_lns, _put_src)', 20)
    from .c06 import check_units
    res = Resolver(ctx.repo, ctx.ev)
    n0 = len(ctx.instances.get('R6.1', []))
    for q in ('_params_offset', '_offset', '_offset_lns', '_put_src', '_set_start_pos', '_set_end_pos'):
        # `_params_offset` may be inlined into its only caller `_put_src`; the other five are the primitives themselves
        for fi in (ctx.repo.find_funcs('fst_core', q) if q == '_params_offset' else ctx.repo.funcs('fst_core', q)):
            before = len(ctx.findings)
            check_units(ctx, fi, res)
    # re-label the unit instances collected under R6.1 as R11.2
    inst = ctx.instances.pop('R6.1', [])
    ctx.instances.setdefault('R11.2', []).extend(inst)
    for f in ctx.findings:
        if f.rule == 'R6.1':
            f.rule = 'R11.2'
    po = (ctx.repo.find_funcs('fst_core', '_params_offset') or ctx.repo.funcs('fst_core', '_put_src'))[0]
    bytes_src = any((isinstance(x, ast.Call) and call_name(x) in ('encode', 'c2b')) or (isinstance(x, ast.Attribute) and x.attr == 'lenbytes')
                    for x in ast.walk(po.node))
    ctx.check('R11.2', bytes_src, 'fst_core', po.qualname, 'byte deltas via encode() / c2b / lenbytes',
              'the offset parameters of a text splice must carry the column delta in bytes', po.lineno)

    ctx.rule('R11.3', 'in _offset(): the walk enumerates children through syntax_ordered_children and every early `break` is control dependent on a '
                      'comparison of the child\'s end position with the offset point', 2)
    from ..struct import enclosing_tests, parent_map
    for fi in ctx.repo.funcs('fst_core', '_offset'):
        par = parent_map(fi.node)
        calls = [c for c in walk_no_nested(fi.node) if isinstance(c, ast.Call) and call_name(c) == 'syntax_ordered_children']
        ctx.check('R11.3', bool(calls), fi.module, fi.qualname, 'uses syntax_ordered_children', '_offset must enumerate children in syntax order', fi.lineno)
        END = {'end_lineno', 'end_col_offset'}

        def reads_end(e):
            return any((isinstance(x, ast.Attribute) and x.attr in END) or
                       (isinstance(x, ast.Call) and call_name(x) == 'getattr' and len(x.args) >= 2 and isinstance(x.args[1], ast.Constant) and x.args[1].value in END)
                       for x in ast.walk(e))
        end_derived = set()      # locals holding an end position of the walked child (whatever they are called)
        for _ in range(2):
            for x in walk_no_nested(fi.node):
                tg = val = None
                if isinstance(x, ast.Assign) and len(x.targets) == 1 and isinstance(x.targets[0], ast.Name):
                    tg, val = x.targets[0].id, x.value
                elif isinstance(x, ast.NamedExpr):
                    tg, val = x.target.id, x.value
                if tg is not None and (reads_end(val) or any(isinstance(y, ast.Name) and y.id in end_derived for y in ast.walk(val))):
                    end_derived.add(tg)
        for b in walk_no_nested(fi.node):
            if isinstance(b, ast.Break):
                tests = enclosing_tests(fi.node, b, par)
                ok = any(reads_end(t) or any(isinstance(x, ast.Name) and x.id in end_derived for x in ast.walk(t)) for t, pol in tests[:2])
                ctx.check('R11.3', ok, fi.module, fi.qualname, f'break under {[norm(t, 50) for t, _ in tests[:2]]}',
                          'early termination of the offset walk must be decided by the END position of the child (a child that starts before but '
                          'ends after the edit point still has to be offset)', b.lineno)


def check_orientation(ctx, rid):
    """Interleaved builders (ClassDef / Call ...) consume `x = x[::-1]` / `x[:0:-1]` lists with pop(); whatever remains is in
    reversed orientation and must be re-reversed when appended wholesale to `children`."""
    m = ctx.repo.mod('astutil')
    n = 0
    from ..struct import called_helpers
    builders = [fi for q, fis in m.funcs.items() if q.startswith('_syntax_ordered_children_') for fi in fis if not isinstance(fi.node, ast.Lambda)]
    # the interleaving may be written once in a worker that the builders hand their `children` list to
    for fi in list(builders):
        for h in called_helpers(ctx.repo, fi, 2):
            if h not in builders and not isinstance(h.node, ast.Lambda):
                builders.append(h)
    for fi in builders:
        if True:
            rev = set()
            for x in walk_no_nested(fi.node):
                if isinstance(x, ast.Assign) and isinstance(x.targets[0], ast.Name) and isinstance(x.value, ast.Subscript) and \
                        isinstance(x.value.slice, ast.Slice) and isinstance(x.value.slice.step, ast.UnaryOp):
                    rev.add(x.targets[0].id)
            if not rev:
                continue
            for c in walk_no_nested(fi.node):
                if isinstance(c, ast.Call) and call_name(c) == 'extend' and isinstance(c.func.value, ast.Name) and c.args:
                    a = c.args[0]
                    base = a.value if isinstance(a, ast.Subscript) else a
                    if isinstance(base, ast.Name) and base.id in rev:
                        n += 1
                        # extends that happen *before* the list was reversed (the fast path) are lexically before the reversing assignment
                        rev_line = min(x.lineno for x in walk_no_nested(fi.node) if isinstance(x, ast.Assign) and isinstance(x.targets[0], ast.Name)
                                       and x.targets[0].id == base.id and isinstance(x.value, ast.Subscript) and isinstance(x.value.slice, ast.Slice)
                                       and isinstance(x.value.slice.step, ast.UnaryOp))
                        if c.lineno < rev_line:
                            ctx.ok(rid, f'astutil|{fi.qualname}|{norm(c)} (before reversal)')
                            continue
                        ok = isinstance(a, ast.Subscript) and isinstance(a.slice, ast.Slice) and isinstance(a.slice.step, ast.UnaryOp)
                        ctx.check(rid, ok, 'astutil', fi.qualname, c,
                                  f'`{base.id}` was reversed to be consumed with pop(); appending its remainder without `[::-1]` yields the remaining '
                                  f'children in reverse source order, and _offset() / walk() rely on source order', c.lineno, sample=norm(c))
    if n < 2:
        raise AnalysisError('orientation rule found fewer than 2 wholesale appends of reversed work lists')
