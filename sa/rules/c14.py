"""C14 — traversal order: four-way agreement of the child-order artefacts and direction handling in walk().

Decides (structure only): FIELDS order == _SYNTAX_ORDERED_CHILDREN order == linearisation of the generated successor
automaton NEXT_FUNCS == reverse linearisation of PREV_FUNCS, for every AST class; key coverage of both automata;
polarity of every child push in walk(); mirrored push programs in the scope helpers.
Not decided: once-only / parents-first for every tree, order inside interleaved classes, path bijection.
"""
from __future__ import annotations

import ast

from ..model import AnalysisError, norm, walk_no_nested
from ..consteval import ClassTok, FuncTok, LambdaTok
from .. import tables as T

PROP = 'C14'
VERSIONED = True

# classes whose syntax order interleaves several fields by position (astutil.py comment block above FIELDS)
INTERLEAVED = {'ClassDef', 'Call', 'Dict', 'Compare', 'arguments', 'MatchMapping'}

# fields that exist only from a given python minor version on (grammar history; FIELDS lists them unconditionally)
FIELD_SINCE = {'type_params': 12, 'default_value': 13}


# classes that exist only from a given minor version on: on older interpreters they are never instantiated (dummy classes), their
# table rows are dead and are not compared for those versions
CLASS_SINCE = {'TypeAlias': 12, 'TypeVar': 12, 'ParamSpec': 12, 'TypeVarTuple': 12, '_type_params': 12, 'TemplateStr': 14,
               'Interpolation': 14, 'TryStar': 11}


def present(ctx, cls: ClassTok, field: str) -> bool:
    v = FIELD_SINCE.get(field)
    return v is None or ctx.ev.pyver[1] >= v


def soc_sequences(ctx):
    """{ClassTok: ('seq', [(field, star)]) | ('set', {fields}, FuncTok)} from _SYNTAX_ORDERED_CHILDREN."""
    S = ctx.ev.get('astutil', '_SYNTAX_ORDERED_CHILDREN')
    out = {}
    for c, v in S.items():
        if isinstance(v, LambdaTok):
            seq = T.lambda_child_sequence(v.node)
            if seq is None:
                raise AnalysisError(f'_SYNTAX_ORDERED_CHILDREN[{c.name}] lambda has a shape the extractor does not '
                                    f'understand: {norm(v.node)}')
            out[c] = ('seq', seq, v)
        elif isinstance(v, FuncTok):
            nodes = T.func_nodes(ctx, v)
            s = set()
            helpers = {q: fis[0].node for q, fis in ctx.repo.mod(v.module).funcs.items()
                       if '.' not in q and len(fis) == 1 and isinstance(fis[0].node, ast.FunctionDef)}
            for n in nodes:
                s |= T.flows_into(n, 'children', helpers=helpers)
            out[c] = ('set', s, v)
        else:
            raise AnalysisError(f'_SYNTAX_ORDERED_CHILDREN[{c.name}] is not a function: {v!r}')
    return out


# ----------------------------------------------------------------------------------------------------------------------
# generated automaton: abstract each _next_/_prev_ function to the ordered list of fields it tries

def tried_fields(fn: ast.FunctionDef):
    """-> (own_list_step: '+1' | '-1' | None, [(field, terminal: bool)], returns_none_at_end: bool)
    Ordered by statement.  A `return <param>.<F>.f` statement is terminal (required field)."""
    p = fn.args.args[0].arg
    own = None
    tried = []
    ends_none = False
    for st in fn.body:
        if isinstance(st, ast.Expr) and isinstance(st.value, ast.Constant):
            continue
        reads = []
        for x in ast.walk(st):
            if isinstance(x, ast.Attribute) and isinstance(x.value, ast.Name) and x.value.id == p:
                reads.append((x.attr, x))
            elif (isinstance(x, ast.Call) and isinstance(x.func, ast.Name) and x.func.id == 'getattr' and len(x.args) >= 2
                  and isinstance(x.args[0], ast.Name) and x.args[0].id == p and isinstance(x.args[1], ast.Constant)):
                reads.append((x.args[1].value, x))
        reads.sort(key=lambda r: (r[1].lineno, r[1].col_offset))
        txt = ast.unparse(st)
        if isinstance(st, ast.If):
            t = ast.unparse(st.test)
            if 'idx := idx + 1' in t or 'idx + 1' in t:
                own = '+1'
            elif 'idx := idx - 1' in t or 'idx - 1' in t:
                own = '-1'
            for f, _ in reads:
                tried.append((f, False))
        elif isinstance(st, ast.Return):
            if st.value is None or (isinstance(st.value, ast.Constant) and st.value.value is None):
                ends_none = True
            else:
                for f, _ in reads:
                    tried.append((f, True))
        else:
            for f, _ in reads:
                tried.append((f, False))
    # unique, keep order
    seen, out = set(), []
    for f, term in tried:
        if f not in seen:
            seen.add(f)
            out.append((f, term))
        elif term:
            out = [(a, b or (a == f)) for a, b in out]
    return own, out, ends_none


def trav_fields(F, cls):
    """Fields that hold nodes for the purposes of traversal: the AST-valued ones plus `type_ignore*` (TypeIgnore nodes get an FST, are part
    of the syntax-order children and are yielded by walk(); every other way of moving through the tree has to reach them too)."""
    return [(f, t) for f, t in F[cls] if T.is_ast_type(t) or t.rstrip('?*') == 'type_ignore']


def check_soc_vs_fields(ctx, F, rid):
    """_SYNTAX_ORDERED_CHILDREN vs FIELDS (used as R14.1a, R11.1 and R1.4)."""
    ctx.rule(rid, 'for every class of FIELDS: _SYNTAX_ORDERED_CHILDREN has an entry whose child sequence is exactly '
                       'the AST-valued fields of FIELDS, in FIELDS order (interleaved builders: field-set coverage via '
                       'flow into `children`)', 112)
    soc = soc_sequences(ctx)
    for c in F:
        if CLASS_SINCE.get(c.name, 0) > ctx.ev.pyver[1]:
            continue
        want = [f for f, t in trav_fields(F, c) if present(ctx, c, f)]
        allowed_extra = set()
        if c not in soc:
            ctx.bad(rid, 'astutil', '_SYNTAX_ORDERED_CHILDREN', f'{c.name}: <missing>',
                    f'class {c.name} of FIELDS has no syntax-order entry; walk() would fall back to the generic builder')
            continue
        kind, seq, tok = soc[c]
        if kind == 'seq':
            got = [f for f, _ in seq if f not in allowed_extra]
            stars_ok = all(star == (T.card(dict(F[c])[f]) == 'list') for f, star in seq if f in dict(F[c]))
            ctx.check(rid, got == want and stars_ok, 'astutil', '_SYNTAX_ORDERED_CHILDREN',
                      f'{c.name}: {norm(tok.node)}',
                      f'child sequence {got} differs from AST fields of FIELDS[{c.name}] {want} (order / omission / '
                      f'star-ness); _offset() and walk() rely on complete source-ordered children',
                      getattr(tok.node, 'lineno', 0), sample={'class': c.name, 'sequence': got})
        else:
            # within one list expression (`ast.a + ast.b`, `[ast.x, *ast.y]`) the fields must come in FIELDS order
            order = {f: i for i, (f, _) in enumerate(F[c])}
            for fnode in T.func_nodes(ctx, tok):
                p0 = fnode.args.args[0].arg if fnode.args.args else None
                for x in ast.walk(fnode):
                    e = None
                    if isinstance(x, ast.Assign) and isinstance(x.value, (ast.BinOp, ast.List)):
                        e = x.value
                    elif isinstance(x, ast.Return) and isinstance(x.value, (ast.BinOp, ast.List)):
                        e = x.value
                    elif isinstance(x, ast.Call) and isinstance(x.func, ast.Attribute) and x.func.attr == 'extend' and x.args and \
                            isinstance(x.args[0], (ast.BinOp, ast.List)):
                        e = x.args[0]
                    if e is None:
                        continue
                    if isinstance(e, ast.BinOp) and not isinstance(e.op, ast.Add):
                        continue
                    refs = sorted(((y.lineno, y.col_offset, y.attr) for y in ast.walk(e)
                                   if isinstance(y, ast.Attribute) and isinstance(y.value, ast.Name) and y.value.id == p0 and y.attr in order))
                    fl = [r[2] for r in refs]
                    fl = [f for i, f in enumerate(fl) if f not in fl[:i]]
                    if len(fl) >= 2:
                        ctx.check(rid, fl == sorted(fl, key=order.get), 'astutil', tok.qualname, f'{c.name}: {norm(e, 60)}',
                                  f'fields {fl} are concatenated out of syntax order (FIELDS[{c.name}] order is '
                                  f'{sorted(fl, key=order.get)}); _offset() pops children from the end and stops at the first one that ends '
                                  f'before the edit, walk() yields them in this order', e.lineno)
            missing = set(want) - seq
            ctx.check(rid, not missing and c.name in INTERLEAVED, 'astutil', tok.qualname, f'{c.name}: fields->children',
                      f'interleaved builder for {c.name} never puts field(s) {sorted(missing)} into `children`'
                      if missing else f'{c.name} uses a custom builder but is not a known interleaved class',
                      T.func_nodes(ctx, tok)[0].lineno, sample={'class': c.name, 'fields_flowing': sorted(seq)})
    for c in soc:
        if c not in F:
            ctx.bad(rid, 'astutil', '_SYNTAX_ORDERED_CHILDREN', f'{c.name}: <not in FIELDS>',
                    'syntax-order entry for a class that FIELDS does not describe')



def run(ctx):
    F = T.fields(ctx)
    ctx.not_decided += [
        'visit-once / parents-before-children for every tree (needs runtime link consistency)',
        'relative order inside the interleaved classes ' + ', '.join(sorted(INTERLEAVED)) + ' beyond field coverage',
        'step_fwd/step_back/next/prev agreement with walk on concrete trees; child_path/child_from_path inverse',
    ]
    ctx.assumptions = ['order of AST-valued fields in astutil.FIELDS is the syntax order for non-interleaved classes '
                       '(stated in the source: "DO NOT CHANGE THE ORDER OF FIELDS")']

    check_soc_vs_fields(ctx, F, 'R14.1a')
    from .c11 import check_orientation
    ctx.rule('R14.1e', 'interleaved child builders re-reverse the remainder of work lists they consume with pop()', 4)
    check_orientation(ctx, 'R14.1e')

    # ---- R14.1b  key coverage of NEXT_FUNCS / PREV_FUNCS ------------------------------------------------------------
    ctx.rule('R14.1b', 'keys of NEXT_FUNCS and PREV_FUNCS == {(cls, None)} + {(cls, f) : f AST-valued field of cls}', 580)
    expected = set()
    for c, fs in F.items():
        expected.add((c, None))
        for f, t in fs:
            if T.is_ast_type(t) or t.rstrip('?*') == 'type_ignore':
                expected.add((c, f))
    tabs = {'NEXT_FUNCS': ('traverse_next', ctx.ev.get('traverse_next', 'NEXT_FUNCS')),
            'PREV_FUNCS': ('traverse_prev', ctx.ev.get('traverse_prev', 'PREV_FUNCS'))}
    for tname, (mod, tab) in tabs.items():
        for k in expected:
            ok = k in tab and isinstance(tab[k], FuncTok)
            ctx.check('R14.1b', ok, mod, tname, f'({k[0].name}, {k[1]!r})',
                      f'{tname} has no function for ({k[0].name}, {k[1]!r}): next()/prev()/step from that position fails or '
                      f'skips siblings')
        for k in set(tab) - expected:
            ctx.bad('R14.1b', mod, tname, f'({getattr(k[0], "name", k[0])}, {k[1]!r})', 'key does not correspond to an AST-valued field of FIELDS')

    # ---- R14.1c  automaton linearisation ------------------------------------------------------------------------------
    ctx.rule('R14.1c', 'each generated successor (predecessor) function tries exactly the fields after (before) its own '
                       'in syntax order, up to and including the first required one, own list continued first', 400)
    for tname, (mod, tab) in tabs.items():
        fwd = tname == 'NEXT_FUNCS'
        for c in F:
            if c.name in INTERLEAVED:
                continue
            order = [(f, T.card(t)) for f, t in trav_fields(F, c)]
            seqd = order if fwd else order[::-1]
            names = [f for f, _ in seqd]
            for pos in range(-1, len(seqd)):
                key = (c, None) if pos < 0 else (c, names[pos])
                tok = tab.get(key)
                if not isinstance(tok, FuncTok):
                    continue
                fn = ctx.repo.mod(mod).func(tok.qualname)
                if not fn:
                    raise AnalysisError(f'{tname} references undefined function {tok.qualname}')
                own_step, tried, ends_none = tried_fields(fn[0].node)
                own = names[pos] if pos >= 0 else None
                rest = seqd[pos + 1:]
                exp = []
                for f, cd in rest:
                    exp.append(f)
                    if cd == 'req':
                        break
                exp_terminal_req = bool(rest) and any(cd == 'req' for _, cd in rest[:len(exp)])
                got = [f for f, _ in tried if f != own]
                # fields absent in old pythons are read through getattr(); still must be tried
                ok = got == exp
                if own is not None and seqd[pos][1] == 'list':
                    ok = ok and own_step == ('+1' if fwd else '-1')
                if ok and not exp_terminal_req and not ends_none and exp:
                    # last tried field is optional/list: function must fall through to `return None`
                    ok = False
                ctx.check('R14.1c', ok, mod, tok.qualname, f'({c.name}, {key[1]!r}) tries {got}',
                          f'{"successor" if fwd else "predecessor"} of ({c.name}, {key[1]!r}) tries fields {got}, but syntax order '
                          f'{names} requires {exp}' + ('' if own is None or seqd[pos][1] != 'list' else
                                                       f' after continuing its own list with idx{"+1" if fwd else "-1"} (found {own_step})'),
                          fn[0].lineno, sample={'key': [c.name, key[1]], 'tries': got})

    # ---- R14.1d  shared generated functions only between classes with identical field lists -------------------------
    ctx.rule('R14.1d', 'a generated function shared by several (cls, field) keys is shared only between classes with '
                       'identical AST field lists and the same field', 250)
    for tname, (mod, tab) in tabs.items():
        by_func = {}
        for k, tok in tab.items():
            if isinstance(tok, FuncTok) and tok.name not in ('_next_None', '_prev_None'):
                by_func.setdefault(tok.key, []).append(k)
        for fk, keys in by_func.items():
            sigs = {(tuple(trav_fields(F, c)), f) for c, f in keys if c in F}
            ctx.check('R14.1d', len(sigs) == 1, mod, fk.split('.', 1)[1], f'shared by {[(c.name, f) for c, f in keys]}',
                      'one generated function serves keys whose classes differ in field lists or whose field differs')
        # a (cls, f) -> _next_None entry is right only if nothing can follow f
        for k, tok in tab.items():
            if isinstance(tok, FuncTok) and tok.name in ('_next_None', '_prev_None') and k[0] in F and k[0].name not in INTERLEAVED:
                order = [f for f, t in T.ast_fields_of(F, k[0])]
                if k[1] is None:
                    last = not order
                else:
                    i = order.index(k[1])
                    last = (i == len(order) - 1) if tname == 'NEXT_FUNCS' else (i == 0)
                    last = last and T.card(dict(F[k[0]])[k[1]]) != 'list'
                ctx.check('R14.1d', last, mod, tname, f'({k[0].name}, {k[1]!r}) -> {tok.name}',
                          'entry maps to the "nothing follows" function although other children can follow in syntax order')

    # ---- R14.2a  polarity of child pushes in walk() ------------------------------------------------------------------------
    ctx.rule('R14.2a', 'every child list obtained from syntax_ordered_children() in walk() is pushed reversed iff not '
                       '`back` (inline `X if back else X[::-1]` or a preceding `if not back: X.reverse()/X = X[::-1]`)', 6)
    for fi in ctx.repo.funcs('fst_traverse', 'walk'):
        check_walk_polarity(ctx, fi)

    # ---- R14.2b  mirrored push programs in the scope helpers ------------------------------------------------------------
    ctx.rule('R14.2b', 'in _ScopeContext.create/stack_*: the `back` arm and the forward arm push the same items in '
                       'mirrored order', 6)
    from .c16 import scope_helper
    units, seen_u = list(ctx.repo.funcs('fst_traverse', '_ScopeContext.create')), set()
    for cname in ('FunctionDef', 'ClassDef', 'Lambda', 'arguments', 'comprehension'):      # the helpers _SCOPE_WALK_FUNCS names for these
        units += scope_helper(ctx, cname)
    for fi in units:
        if fi.key not in seen_u:
            seen_u.add(fi.key)
            check_mirror(ctx, 'R14.2b', fi)


# ----------------------------------------------------------------------------------------------------------------------
    check_filter_discipline(ctx)
    check_filter_twins(ctx)


def _is_back(e) -> bool | None:
    """True if expr is `back` / `self.back`, False if `not back`."""
    if isinstance(e, ast.UnaryOp) and isinstance(e.op, ast.Not):
        r = _is_back(e.operand)
        return None if r is None else not r
    if isinstance(e, ast.Name) and e.id == 'back':
        return True
    if isinstance(e, ast.Attribute) and e.attr == 'back':
        return True
    return None


def _is_rev_of(e, name: str) -> bool:
    return (isinstance(e, ast.Subscript) and isinstance(e.value, ast.Name) and e.value.id == name
            and isinstance(e.slice, ast.Slice) and e.slice.lower is None and e.slice.upper is None
            and isinstance(e.slice.step, ast.UnaryOp) and isinstance(e.slice.step.op, ast.USub)
            and isinstance(e.slice.step.operand, ast.Constant) and e.slice.step.operand.value == 1)


def _is_plain_copy_or_name(e, name: str) -> bool:
    if isinstance(e, ast.Name) and e.id == name:
        return True
    return (isinstance(e, ast.Subscript) and isinstance(e.value, ast.Name) and e.value.id == name
            and isinstance(e.slice, ast.Slice) and e.slice.lower is None and e.slice.upper is None and e.slice.step is None)


def polarity_ok(e, name: str) -> bool:
    """`name if back else name[::-1]` or `name[::-1] if not back else name`."""
    if not isinstance(e, ast.IfExp):
        return False
    b = _is_back(e.test)
    if b is None:
        return False
    t, f = (e.body, e.orelse) if b else (e.orelse, e.body)
    return _is_plain_copy_or_name(t, name) and _is_rev_of(f, name)


def check_walk_polarity(ctx, fi):
    fn = fi.node
    events = []   # (line, col, kind, var, node)
    for n in walk_no_nested(fn):
        # bindings from syntax_ordered_children(...) / asts parameter
        if isinstance(n, (ast.Assign, ast.NamedExpr)):
            val = n.value
            tg = n.targets[0] if isinstance(n, ast.Assign) else n.target
            if (isinstance(val, ast.Call) and isinstance(val.func, ast.Name) and val.func.id == 'syntax_ordered_children'
                    and isinstance(tg, ast.Name)):
                events.append((n.lineno, n.col_offset, 'bind', tg.id, n))
        if isinstance(n, ast.If):
            b = _is_back(n.test)
            if b is False:     # if not back:
                for st in n.body:
                    v = None
                    if (isinstance(st, ast.Expr) and isinstance(st.value, ast.Call) and isinstance(st.value.func, ast.Attribute)
                            and st.value.func.attr == 'reverse' and isinstance(st.value.func.value, ast.Name)):
                        v = st.value.func.value.id
                    elif (isinstance(st, ast.Assign) and isinstance(st.targets[0], ast.Name)
                          and _is_rev_of(st.value, st.targets[0].id)):
                        v = st.targets[0].id
                    if v:
                        events.append((st.lineno, st.col_offset, 'norm', v, st))
            elif b is True:
                for st in n.body:
                    if (isinstance(st, ast.Expr) and isinstance(st.value, ast.Call) and isinstance(st.value.func, ast.Attribute)
                            and st.value.func.attr == 'reverse'):
                        events.append((st.lineno, st.col_offset, 'badnorm', ast.unparse(st.value.func.value), st))
        if (isinstance(n, ast.Call) and isinstance(n.func, ast.Attribute) and n.func.attr == 'extend'
                and isinstance(n.func.value, ast.Name) and n.func.value.id == 'stack' and n.args):
            events.append((n.lineno, n.col_offset + 1, 'use', None, n.args[0]))
        if isinstance(n, ast.Assign) and isinstance(n.targets[0], ast.Name) and n.targets[0].id == 'stack' and \
                isinstance(n.value, ast.IfExp):
            events.append((n.lineno, n.col_offset + 1, 'use', None, n.value))
    events.sort(key=lambda e: (e[0], e[1]))
    state = {}
    for line, col, kind, var, node in events:
        if kind == 'bind':
            state[var] = 'raw'
            if var == 'stack':
                # `stack = syntax_ordered_children(ast)` must be followed by a `if not back` normalisation
                nxt = [e for e in events if e[2] == 'norm' and e[3] == 'stack' and e[0] > line]
                nb = [e for e in events if e[2] == 'bind' and e[0] > line]
                ok = bool(nxt) and (not nb or nxt[0][0] < nb[0][0] or True) and nxt[0][0] - line <= 6
                ctx.check('R14.2a', ok, fi.module, fi.qualname, norm(node),
                          'children assigned to the walk stack are not reversed under `if not back:` right after',
                          line, sample='stack = soc(ast); if not back: reverse')
        elif kind == 'norm':
            if var in state:
                state[var] = 'norm'
        elif kind == 'badnorm':
            ctx.bad('R14.2a', fi.module, fi.qualname, norm(node), 'child list reversed under `if back:` (polarity inverted)', line)
        elif kind == 'use':
            names = {x.id for x in ast.walk(node) if isinstance(x, ast.Name)} & set(state)
            names.discard('stack')
            extra = {x.id for x in ast.walk(node) if isinstance(x, ast.Name)} & {'asts'}
            for v in sorted(names | extra):
                if v == 'asts' or state.get(v) == 'raw':
                    ok = polarity_ok(node, v)
                    why = f'`{v}` pushed without `{v} if back else {v}[::-1]` polarity'
                else:
                    ok = isinstance(node, ast.Name) and node.id == v
                    why = f'`{v}` already direction-normalised but pushed as {norm(node)}'
                ctx.check('R14.2a', ok, fi.module, fi.qualname, 'push ' + norm(node), why + ': children would be walked in the wrong direction', line,
                          sample=norm(node))


def _strip_rev(e):
    """X[::-1] -> X ; reversed(list(X)) / reversed(X) -> X"""
    changed = True
    while changed:
        changed = False
        if isinstance(e, ast.Subscript) and isinstance(e.slice, ast.Slice) and e.slice.lower is None and e.slice.upper is None \
                and isinstance(e.slice.step, ast.UnaryOp) and isinstance(e.slice.step.op, ast.USub):
            e = e.value
            changed = True
        elif isinstance(e, ast.Call) and isinstance(e.func, ast.Name) and e.func.id == 'reversed' and len(e.args) == 1:
            e = e.args[0]
            if isinstance(e, ast.Call) and isinstance(e.func, ast.Name) and e.func.id == 'list' and len(e.args) == 1:
                e = e.args[0]
            changed = True
    return e


def _is_reversed_expr(e) -> bool:
    return _strip_rev(e) is not e


def _nrm(x, limit=160):
    # locals of an inlined worker carry a per-expansion suffix (sa/inline.py); two expansions of the same worker read the same
    import re as _re
    return _re.sub(r'__i\d+\b', '', norm(x, limit))


def _expr_items(e):
    """Items pushed by `stack = <e>` : concatenations, list displays, conditional expressions, reversed slices."""
    if isinstance(e, ast.BinOp) and isinstance(e.op, ast.Add):
        return _expr_items(e.left) + _expr_items(e.right)
    if isinstance(e, ast.NamedExpr):
        return _expr_items(e.value)
    inner = _strip_rev(e)
    rev = inner is not e
    if isinstance(inner, ast.NamedExpr):
        inner = inner.value
    if isinstance(inner, ast.IfExp) and not rev:
        return [('if', _nrm(inner.test), _expr_items(inner.body), _expr_items(inner.orelse))]
    if isinstance(inner, ast.List) and not rev:
        return [('push', 'append', _nrm(x), False) for x in inner.elts]
    return [('push', 'extend', _nrm(inner), rev)]


def push_program(stmts, stackname='stack'):
    """Abstract a statement list to nested push items.  ('push', kind, text, reversed?) | ('loop', itertext, rev?, items)
    | ('if', testtext, items).  Statements that do not push are dropped."""
    out = []
    for st in stmts:
        if isinstance(st, ast.Expr) and isinstance(st.value, ast.Call) and isinstance(st.value.func, ast.Attribute) and \
                isinstance(st.value.func.value, ast.Name) and st.value.func.value.id == stackname and \
                st.value.func.attr in ('append', 'extend') and st.value.args:
            a = st.value.args[0]
            out.append(('push', st.value.func.attr, _nrm(_strip_rev(a)), _is_reversed_expr(a)))
        elif isinstance(st, ast.Assign) and isinstance(st.targets[0], ast.Name) and st.targets[0].id == stackname:
            v = st.value
            if isinstance(v, ast.List) and not v.elts:
                continue
            out.extend(_expr_items(v))
        elif isinstance(st, ast.For):
            items = push_program(st.body, stackname)
            if items:
                out.append(('loop', _nrm(_strip_rev(st.iter)), _is_reversed_expr(st.iter), items))
        elif isinstance(st, ast.If) and isinstance(st.test, ast.Constant):
            out.extend(push_program(st.body if st.test.value else st.orelse, stackname))      # inlined worker called with a literal mode
        elif isinstance(st, ast.If):
            items = push_program(st.body, stackname)
            oitems = push_program(st.orelse, stackname)
            if items or oitems:
                out.append(('if', _nrm(st.test), items, oitems))
    return out


def mirror(prog):
    out = []
    for it in reversed(prog):
        if it[0] == 'push':
            out.append(('push', it[1], it[2], (not it[3]) if it[1] == 'extend' else it[3]))
        elif it[0] == 'loop':
            out.append(('loop', it[1], not it[2], mirror(it[3])))
        elif it[0] == 'if':
            out.append(('if', it[1], mirror(it[2]), mirror(it[3])))
    return out


def find_back_ifs(fn):
    """All `if <back>: A else: B` statements (test is back / self.back / `no_back or self.back`)."""
    res = []
    for n in walk_no_nested(fn):
        if isinstance(n, ast.If) and n.orelse:
            t = n.test
            # (`if not back:` is the same decision with the arms exchanged; mirror-image and path-set comparisons are symmetric)
            if _is_back(t) is not None or (isinstance(t, ast.BoolOp) and isinstance(t.op, ast.Or) and any(_is_back(v) is True for v in t.values)):
                res.append(n)
    return res


def check_mirror(ctx, rid, fi, depth=0):
    from ..inline import inlined, simplify
    fnode, n_inl = inlined(ctx.repo, fi)         # a scope helper split into wrapper + worker is read as one function
    if n_inl:
        # ... and a worker parametrised by data (direction literal, tuple of field names) is specialised for the call
        def const_strs(e):
            try:
                v = ctx.ev.eval(e, dict(ctx.ev.env(fi.module)), fi.module)
            except Exception:
                return None
            return list(v) if isinstance(v, (tuple, list)) and v and all(isinstance(x, str) for x in v) else None
        fnode = simplify(fnode, const_strs)
    ifs = find_back_ifs(fnode)
    if not ifs:
        # the direction arms may live in the builders of a dispatch table {class: builder}: `TABLE.get(<root>.__class__)`
        rows = []
        for x in ast.walk(fnode):
            if isinstance(x, ast.Call) and isinstance(x.func, ast.Attribute) and x.func.attr == 'get' and isinstance(x.func.value, ast.Name) and x.args and \
                    isinstance(x.args[0], ast.Attribute) and x.args[0].attr == '__class__':
                try:
                    tv = ctx.ev.get(fi.module, x.func.value.id)
                except AnalysisError:
                    continue
                if isinstance(tv, dict):
                    seen = set()
                    for v in tv.values():
                        if isinstance(v, FuncTok) and v.key not in seen:
                            seen.add(v.key)
                            rows += ctx.repo.find_funcs(v.module, v.qualname)
        if rows and depth < 1:
            for g in rows:
                check_mirror(ctx, rid, g, depth + 1)
            return
        raise AnalysisError(f'{fi.key}: no `if back:` arm found (scope helper changed shape)')
    hps = [a_.arg for a_ in fnode.args.posonlyargs + fnode.args.args]
    stackname = hps[2] if len(hps) == 3 else 'stack'          # helpers are (context, node, stack); create() builds a local `stack`
    for n in ifs:
        a = push_program(n.body, stackname)
        b = push_program(n.orelse, stackname)
        ok = mirror(a) == b
        detail = ''
        if not ok:
            ma = mirror(a)
            for i in range(max(len(ma), len(b))):
                x = ma[i] if i < len(ma) else None
                y = b[i] if i < len(b) else None
                if x != y:
                    detail = f' first difference at forward item {i}: expected {x}, found {y}'
                    break
        ctx.check(rid, ok, fi.module, fi.qualname, f'if {norm(n.test)}: <{len(a)} push items> else: <{len(b)} push items>',
                  'forward arm is not the mirror image of the back arm (dropped / swapped / unreversed push);' + detail,
                  n.lineno, sample={'back_arm_items': len(a)})


# ---- R14.3 -----------------------------------------------------------------------------------------------------------

def filter_callable_names(ctx) -> set:
    """Names (locals, parameters, attributes) that hold the caller's `all` filter as a callable in fst_traverse: what `_all_param_func(all)`
    returned, followed through assignments (`self.X = X`, `X = self.X`) and through arguments handed to functions / classes of the module
    (today all of them are called `check_all_param`)."""
    from ..model import call_name
    m = ctx.repo.mod('fst_traverse')
    makers = {fi.name for fi in ctx.repo.funcs('fst_traverse', '_all_param_func')}
    if not makers:
        raise AnalysisError('_all_param_func not found (anchor vanished)')
    names = set()

    def nm(e):
        return e.id if isinstance(e, ast.Name) else e.attr if isinstance(e, ast.Attribute) else None

    def holds(e):
        return (isinstance(e, ast.Call) and call_name(e) in makers) or nm(e) in names
    params_of = {}
    for q, fis in m.funcs.items():
        for fi in fis:
            if isinstance(fi.node, ast.Lambda):
                continue
            a = fi.node.args
            ps = [x.arg for x in a.posonlyargs + a.args]
            owner = q.rsplit('.', 1)[0] if '.' in q else None
            if ps[:1] in (['self'], ['cls']):
                ps = ps[1:]
            params_of.setdefault(fi.name, []).append((ps, {x.arg for x in a.kwonlyargs} | set(ps)))
            if fi.name == '__init__' and owner:
                params_of.setdefault(owner, []).append((ps, {x.arg for x in a.kwonlyargs} | set(ps)))
    changed = True
    while changed:
        changed = False
        for x in ast.walk(m.tree):
            if isinstance(x, ast.Assign) and holds(x.value):
                for t in x.targets:
                    if nm(t) and nm(t) not in names:
                        names.add(nm(t))
                        changed = True
            elif isinstance(x, ast.Call) and call_name(x) in params_of:
                for ps, allp in params_of[call_name(x)]:
                    for i, a in enumerate(x.args):
                        if holds(a) and i < len(ps) and ps[i] not in names:
                            names.add(ps[i])
                            changed = True
                    for kw in x.keywords:
                        if kw.arg and holds(kw.value) and kw.arg in allp and kw.arg not in names:
                            names.add(kw.arg)
                            changed = True
    if not names:
        raise AnalysisError('the value of _all_param_func() is bound to no name (anchor vanished)')
    ctx.extra['filter_callable_names'] = sorted(names)
    return names


def check_filter_discipline(ctx):
    """Every node that walk() hands to the caller (directly, `yield <node>` / `yield (<node>, flag)`) has passed the caller's `all` filter
    on the path that leads to the yield: forward must-analysis of "check_all_param(<name>) evaluated true and <name> not rebound since"."""
    from ..cfg import CFG, solve, subnodes
    from ..model import walk_no_nested, call_name
    ctx.rule('R14.3', 'walk(): every directly yielded node passed check_all_param() on the path to the yield (enter, leave and both agree on what '
                      'the filter lets through)', 5)
    filt = filter_callable_names(ctx)
    targets = list(ctx.repo.funcs('fst_traverse', 'walk'))
    # walk() as a thin wrapper: the private generators of the module it delegates to with `yield from` while handing them the filter
    for fi in list(targets):
        for x in walk_no_nested(fi.node):
            if isinstance(x, ast.YieldFrom) and isinstance(x.value, ast.Call) and isinstance(x.value.func, ast.Name) and \
                    any((isinstance(a, ast.Name) and a.id in filt) for a in list(x.value.args) + [k.value for k in x.value.keywords]):
                targets += [w for w in ctx.repo.funcs('fst_traverse', x.value.func.id) if w not in targets]
    n = 0
    for fi in targets:
        fn = fi.node
        cfg = CFG(fn)
        def carried(v):
            """node name carried by a yielded value expression: `(fst_, True)`, `self if c else (self, False)`"""
            vals = [v.body, v.orelse] if isinstance(v, ast.IfExp) else [v]
            firsts = set()
            for w in vals:
                if isinstance(w, ast.Tuple) and w.elts and isinstance(w.elts[0], ast.Name):
                    firsts.add(w.elts[0].id)
                elif isinstance(w, ast.Name):
                    firsts.add(w.id)
                else:
                    return None
            return next(iter(firsts)) if len(firsts) == 1 else None

        def checked_on(node):
            """{label: {names}} for a test node whose outcome implies check_all_param(<name>) (conjuncts of `and` on the true edge,
            disjuncts `not check_all_param(x)` of `or` on the false edge)."""
            if node.kind != 'test' or node.ast is None:
                return {}
            t = node.ast if isinstance(node.ast, ast.expr) else getattr(node.ast, 'test', None)

            def facts(e, truth):
                if isinstance(e, ast.UnaryOp) and isinstance(e.op, ast.Not):
                    return facts(e.operand, not truth)
                if isinstance(e, ast.Call) and call_name(e) in filt and e.args and isinstance(e.args[0], ast.Name):
                    return {e.args[0].id} if truth else set()
                if isinstance(e, ast.BoolOp):
                    if (isinstance(e.op, ast.And) and truth) or (isinstance(e.op, ast.Or) and not truth):
                        out = set()
                        for v in e.values:
                            out |= facts(v, truth)
                        return out
                return set()
            out = {}
            for lab, truth in (('true', True), ('false', False)):
                fs = facts(t, truth) if t is not None else set()
                if fs:
                    out[lab] = fs
            return out

        def transfer(node, st):
            # state: set of ('ok', name) facts "check_all_param(name) holds" and ('car', carrier, name) facts "carrier holds (name, flag)"
            st = set(st)
            for x in subnodes(cfg, node):
                if isinstance(x, ast.Name) and isinstance(x.ctx, ast.Store):
                    st = {f for f in st if x.id not in f[1:]}
            if node.kind == 'iter':
                for x in ast.walk(node.ast.target):
                    if isinstance(x, ast.Name):
                        st = {f for f in st if x.id not in f[1:]}
            if node.kind == 'stmt' and isinstance(node.ast, ast.Assign) and isinstance(node.ast.targets[0], ast.Name):
                c = carried(node.ast.value)
                if c is not None and not isinstance(node.ast.value, ast.Name):
                    st.add(('car', node.ast.targets[0].id, c))
            out = frozenset(st)
            ck = checked_on(node)
            if ck:
                res = {'*': out}
                for lab, names in ck.items():
                    res[lab] = frozenset(st | {('ok', nm) for nm in names})
                return res
            return out

        ins = solve(cfg, frozenset(), transfer, lambda a_, b_: a_ & b_)
        for nd in cfg.nodes:
            st = ins.get(nd.id)
            if st is None:
                continue
            for x in subnodes(cfg, nd):
                if isinstance(x, ast.Yield) and x.value is not None:
                    v = x.value
                    name = None
                    if isinstance(v, ast.Name):
                        cars = [f[2] for f in st if f[0] == 'car' and f[1] == v.id]
                        name = cars[0] if cars else v.id
                    elif isinstance(v, ast.Tuple) and v.elts and isinstance(v.elts[0], ast.Name):
                        name = v.elts[0].id
                    if name is None:
                        continue
                    n += 1
                    ctx.check('R14.3', ('ok', name) in st, fi.module, fi.qualname, f'yield {norm(v)} @{nd.lineno}',
                              f'`{name}` is handed to the caller on a path on which check_all_param({name}) was not (or no longer) known to hold: a node '
                              f'the `all` filter rejects is yielded (e.g. the walk root on leaving, while it was not yielded on entering)', x.lineno,
                              sample={'function': fi.key, 'yield': norm(v), 'checked_here': sorted(f[1] for f in st if f[0] == 'ok')})
    if n < 5:
        raise AnalysisError(f'walk(): only {n} direct yields found')


# ---- R14.4 / R14.5 -----------------------------------------------------------------------------------------------------

def check_filter_twins(ctx):
    """R14.4: the `all` filter exists twice - `_check_all_param(fst_, all)` (used by next / prev / step) and `_all_param_func(all)` (closures
    used by walk).  Arm by arm (paired by their guard on `all`) both must consult the same names: otherwise walk() and the stepping API
    disagree on which nodes exist.
    R14.5: walk() builds its work stack from copies; it never mutates the caller's `asts` list (aliasing the parameter and popping from
    it empties a list the caller owns - possibly a live field list)."""
    from ..model import walk_no_nested, call_name
    ctx.rule('R14.4', '_check_all_param and _all_param_func consult the same names in corresponding arms of the `all` filter', 3)
    ctx.rule('R14.5', 'walk() never mutates its `asts` argument (work stack built from copies)', 1)
    a_ = ctx.repo.funcs('fst_traverse', '_check_all_param')
    b_ = ctx.repo.funcs('fst_traverse', '_all_param_func')
    if not a_ or not b_:
        raise AnalysisError('filter twins not found')

    def arms(fn):
        out = {}
        for st in fn.body:
            if isinstance(st, ast.If) and len(st.body) == 1 and isinstance(st.body[0], ast.Return):
                v = st.body[0].value
                if isinstance(v, ast.Lambda):
                    v = v.body
                out[norm(st.test)] = v
        return out

    def consulted(e, depth=0):
        # an arm that hands the decision to a named predicate of the module (`return _check_all_False(fst_)` / `return _check_all_False`)
        # consults what the predicate consults
        tgt = e.func if isinstance(e, ast.Call) and isinstance(e.func, ast.Name) and len(e.args) <= 1 and not e.keywords else e
        if isinstance(tgt, ast.Name) and depth < 2:
            g = ctx.repo.find_funcs('fst_traverse', tgt.id)
            if len(g) == 1 and isinstance(g[0].node, ast.FunctionDef):
                out = set()
                for st in g[0].node.body:
                    if not (isinstance(st, ast.Expr) and isinstance(st.value, ast.Constant)):
                        out |= consulted(st, depth + 1)
                bound = {a.arg for a in g[0].node.args.posonlyargs + g[0].node.args.args} | \
                    {y.id for y in ast.walk(g[0].node) if isinstance(y, ast.Name) and isinstance(y.ctx, ast.Store)}
                return out - bound
        names = set()
        bound = {y.id for y in ast.walk(e) if isinstance(y, ast.Name) and isinstance(y.ctx, ast.Store)} | \
            {a.arg for y in ast.walk(e) if isinstance(y, ast.Lambda) for a in y.args.args}
        for x in ast.walk(e):
            if isinstance(x, ast.Attribute):
                names.add('.' + x.attr)
            elif isinstance(x, ast.Name) and x.id not in ('fst_', 'bool', 'True', 'False') and x.id not in bound:
                names.add(x.id)
            elif isinstance(x, ast.Constant) and not isinstance(x.value, bool) and x.value is not None:
                names.add(repr(x.value))
        return names
    A, B = arms(a_[0].node), arms(b_[0].node)
    common = set(A) & set(B)
    if len(common) < 3:
        raise AnalysisError('filter twins: fewer than 3 corresponding arms found')
    for g in sorted(common):
        ca, cb = consulted(A[g]), consulted(B[g])
        ctx.check('R14.4', ca == cb, 'fst_traverse', '_all_param_func', f'arm `{g}`',
                  f'the two encodings of the filter differ for `{g}`: only one of them consults {sorted(ca ^ cb)}; walk() and next()/prev()/step_*() '
                  f'then disagree on which nodes are visited', b_[0].lineno, sample={'arm': g, 'names': sorted(ca)})
    for fi in ctx.repo.funcs('fst_traverse', 'walk'):
        if 'asts' not in fi.params():
            raise AnalysisError('walk(): parameter `asts` vanished')
        alias = {'asts'}
        changed = True
        while changed:
            changed = False
            for x in walk_no_nested(fi.node):
                if isinstance(x, (ast.Assign, ast.NamedExpr)):
                    t = x.targets[0] if isinstance(x, ast.Assign) else x.target
                    vals = [x.value.body, x.value.orelse] if isinstance(x.value, ast.IfExp) else [x.value]
                    if isinstance(t, ast.Name) and any(isinstance(v, ast.Name) and v.id in alias for v in vals) and t.id not in alias:
                        alias.add(t.id)
                        changed = True
        muts = [x for x in walk_no_nested(fi.node) if isinstance(x, ast.Call) and isinstance(x.func, ast.Attribute) and isinstance(x.func.value, ast.Name)
                and x.func.value.id in alias and x.func.attr in ('pop', 'append', 'extend', 'insert', 'reverse', 'clear', 'remove', 'sort')]
        ctx.check('R14.5', not muts, fi.module, fi.qualname, f'aliases of asts: {sorted(alias)}',
                  f'`{norm(muts[0], 40) if muts else ""}` operates on the caller\'s `asts` list itself: the walk consumes it (a second walk yields nothing; '
                  f'a live field list loses its statements)', muts[0].lineno if muts else fi.lineno, sample={'aliases': sorted(alias)})
