"""C01 — after any successful edit the source still parses to the live tree: four structural disciplines.

R1.1 splice => offset: every `X._put_src(...)` on a tree that has nodes to keep in step passes an explicit `tail` argument (the
     default means "do not offset any position"); calls without it are allowed only on receivers that are not derived from the
     target (`self`) -- freshly parsed / throw-away trees -- or in the two reviewed functions.
R1.2 lines are bistr: every value stored into a live line list (an alias of `<tree>._lines`) is a bistr (bistr(...), map(bistr, ..),
     a comprehension of bistr(...), an element / slice of a line list, the result of _get_src(..., True)).
R1.3 handler completeness: every (class, field) of the grammar has a put handler or is documented as not implemented (same
     decision procedure as C03 / R3.3a).
R1.4 child enumeration completeness: _SYNTAX_ORDERED_CHILDREN covers every AST-valued field in order; position offsetting,
     cache flushing and tree (un)making all enumerate children through it or through `_fields` (same as C14 / R14.1a).
Not decided: that the spliced text re-parses to the live tree (value level, every program x edit history).
"""
from __future__ import annotations

import ast
import re

from ..consteval import FuncTok
from ..model import AnalysisError, norm, walk_no_nested, call_name
from ..callgraph import Resolver
from ..effects import Effects
from .. import tables as T

PROP = 'C01'

NO_TAIL_REVIEWED = {
    'FST.put_src': "put_src(action=None) is documented as an unsynchronised raw text put (caller takes responsibility)",
    '_getput_line_comment': 'the splice replaces / appends a comment from some column to end of line, past the last node that ends on that line; '
                            'no node position lies at or after the splice point on that line',
}
LINES_RE = re.compile(r'(^|_)(lines|ls)$')


def run(ctx):
    ctx.not_decided += ['that the source produced by an edit re-parses to a tree equal to the live one (types, fields, contexts, positions)']
    F = T.fields(ctx)
    res = Resolver(ctx.repo, ctx.ev)
    ef = Effects(ctx.repo, res)

    # ---- R1.1 -------------------------------------------------------------------------------------------------------
    ctx.rule('R1.1', 'every _put_src call on a receiver derived from the target tree passes an explicit `tail` (positions are offset)', 150)
    n = 0
    for fi in ctx.repo.all_funcs():
        if isinstance(fi.node, ast.Lambda):
            continue
        for c in walk_no_nested(fi.node):
            if not (isinstance(c, ast.Call) and call_name(c) == '_put_src'):
                continue
            n += 1
            unbound = isinstance(c.func, ast.Name) or (isinstance(c.func, ast.Attribute) and isinstance(c.func.value, ast.Name)
                                                       and ctx.repo.module_alias(fi.module, c.func.value.id))
            k = 6 if unbound else 5
            cnt = sum(4 if isinstance(a, ast.Starred) else 1 for a in c.args)
            has_tail = cnt > k or any(kw.arg == 'tail' for kw in c.keywords)
            if has_tail:
                ctx.ok('R1.1', f'{fi.module}|{fi.qualname}|{norm(c, 80)}', sample=norm(c, 80))
                continue
            recv = c.args[0] if unbound else c.func.value
            roots = ef.expr_roots(fi, recv)
            on_target = 'self' in roots
            reviewed = NO_TAIL_REVIEWED.get(fi.qualname)
            ctx.check('R1.1', (not on_target) or bool(reviewed), fi.module, fi.qualname, c,
                      'text of the target tree is spliced without offsetting node positions (`tail` left at its "do not offset" default): every '
                      'node after the splice point keeps its old line / column and no longer matches the source', c.lineno,
                      sample={'call': norm(c, 80), 'receiver_roots': sorted(roots), 'reviewed': reviewed})
    if n < 150:
        raise AnalysisError(f'only {n} _put_src calls found')

    # ---- R1.2 -------------------------------------------------------------------------------------------------------
    ctx.rule('R1.2', 'every value stored into a live line list (alias of `<tree>._lines`) is a bistr', 60)
    # functions that adopt one of their *parameters* as a tree's line list (FST(ast, <param>, ..., lcopy=False)): obligation on callers
    adopters = {}
    for fi in ctx.repo.all_funcs():
        if isinstance(fi.node, ast.Lambda):
            continue
        for n in walk_no_nested(fi.node):
            if isinstance(n, ast.Call) and call_name(n) == 'FST' and len(n.args) >= 2 and isinstance(n.args[1], ast.Name) and \
                    n.args[1].id in fi.params() and any(kw.arg == 'lcopy' and isinstance(kw.value, ast.Constant) and kw.value.value is False
                                                        for kw in n.keywords):
                rebound = any(isinstance(x, ast.Name) and x.id == n.args[1].id and isinstance(x.ctx, ast.Store) for x in walk_no_nested(fi.node))
                if not rebound:
                    adopters[fi.name] = fi.params().index(n.args[1].id)
    # ... and a function that hands its own parameter on to an adopter adopts it too (the adoption extracted into a worker)
    changed = True
    while changed:
        changed = False
        for fi in ctx.repo.all_funcs():
            if isinstance(fi.node, ast.Lambda) or fi.name in adopters:
                continue
            for n in walk_no_nested(fi.node):
                if isinstance(n, ast.Call) and isinstance(n.func, ast.Name) and n.func.id in adopters:
                    i = adopters[n.func.id]
                    arg = n.args[i] if i < len(n.args) and not any(isinstance(a, ast.Starred) for a in n.args[:i + 1]) else None
                    if isinstance(arg, ast.Name) and arg.id in fi.params() and \
                            not any(isinstance(x, ast.Name) and x.id == arg.id and isinstance(x.ctx, ast.Store) for x in walk_no_nested(fi.node)):
                        adopters[fi.name] = fi.params().index(arg.id)
                        changed = True
    ctx.extra['line_list_adopting_functions'] = adopters
    # ... and a private worker that *builds* such a list and returns it (alone or as one element of a tuple): which positions of its
    # result are provably lists of bistr destined to become a tree's lines (the wrapping of raw source extracted into a worker)
    producers = {}
    called_for_lines = set()
    for fi in ctx.repo.all_funcs():
        if isinstance(fi.node, ast.Lambda):
            continue
        for n in walk_no_nested(fi.node):
            if isinstance(n, ast.Assign) and isinstance(n.value, ast.Call) and isinstance(n.value.func, ast.Name) and n.value.func.id.startswith('_'):
                called_for_lines.add(n.value.func.id)
    for fi in ctx.repo.all_funcs():
        if isinstance(fi.node, ast.Lambda) or '.' in fi.qualname or fi.name not in called_for_lines:
            continue
        if not any(isinstance(x, ast.Call) and call_name(x) == 'bistr' for x in walk_no_nested(fi.node)):
            continue
        pos = check_bistr(ctx, fi, adopters, producer=True)
        if pos:
            producers[fi.name] = pos
    ctx.extra['line_list_producing_functions'] = {k: sorted(v) for k, v in producers.items()}
    for fi in ctx.repo.all_funcs():
        if isinstance(fi.node, ast.Lambda):
            continue
        check_bistr(ctx, fi, adopters, producers=producers)

    # ---- R1.3 / R1.4 ----------------------------------------------------------------------------------------------------
    from .c03 import handler_tables, NOT_IMPLEMENTED_ONE
    ctx.rule('R1.3', 'every (class, field) of the grammar has a put-one row with a resolvable handler or slice delegation, or is documented '
                     'as not implemented', 190)
    P1, G1, PS, GS = handler_tables(ctx)
    from ..consteval import FuncTok
    for c, fs in F.items():
        for f, t in fs:
            if (c.name, f) in NOT_IMPLEMENTED_ONE:
                continue
            row = P1.get((c, f))
            ok = isinstance(row, tuple) and len(row) == 3 and (bool(row[0]) or isinstance(row[1], FuncTok))
            if ok and isinstance(row[1], FuncTok):
                ok = bool(ctx.repo.mod(row[1].module).func(row[1].qualname))
            if ok and row[0] is True:
                ok = (c, 'body' if f == '_body' else f) in PS
            ctx.check('R1.3', ok, 'fst_put_one', '_PUT_ONE_HANDLERS', f'({c.name}, {f!r})',
                      f'no working put path for {c.name}.{f}: the edit is refused or dispatched to a handler of another field')
    ctx.rule('R1.4', 'syntax-order child table complete and ordered; _offset / _touchall / _make_fst_tree / _unmake_fst_tree enumerate children '
                     'through syntax_ordered_children or the grammar `_fields`', 120)
    from .c14 import check_soc_vs_fields
    check_soc_vs_fields(ctx, F, 'R1.4')
    for q, must in (('_offset', 'syntax_ordered_children'), ('_touchall', 'syntax_ordered_children|walk|iter_child_nodes'), ('_make_fst_tree', '_fields'),
                    ('_unmake_fst_tree', '_fields')):
        for fi in ctx.repo.funcs('fst_core', q):
            want = set(must.split('|'))
            from ..struct import with_helpers, called_helpers
            uses = any((isinstance(x, ast.Call) and call_name(x) in want) or (isinstance(x, ast.Attribute) and x.attr in want) or
                       (isinstance(x, ast.Name) and x.id in want) for g in with_helpers(ctx.repo, fi) + called_helpers(ctx.repo, fi, 2)
                       for x in ast.walk(g.node))
            ctx.check('R1.4', uses, 'fst_core', fi.qualname, f'{q} enumerates children via {must}',
                      f'{q} must reach all children through the grammar-driven enumeration', fi.lineno)
    check_primitive_puts(ctx)
    check_joined_words(ctx)
    check_elif_needs_if(ctx)
    check_inherited_ctx(ctx, P1)


def live_params(repo, fi) -> set:
    """Parameters of a private module-level function that receive a live line list at every call site (`X._lines`, or a caller's local that is
    only ever bound from `X._lines`): a worker that is handed the lines it works on."""
    cache = repo.__dict__.setdefault('_live_params_cache', {})
    if fi.key in cache:
        return cache[fi.key]
    out = set()
    cache[fi.key] = out
    if '.' in fi.qualname or not fi.name.startswith('_') or isinstance(fi.node, ast.Lambda):
        return out
    sites = repo.__dict__.get('_bare_call_sites')
    if sites is None:
        sites = repo.__dict__['_bare_call_sites'] = {}
        for g in repo.all_funcs():
            if isinstance(g.node, ast.Lambda):
                continue
            for c in walk_no_nested(g.node):
                if isinstance(c, ast.Call) and isinstance(c.func, ast.Name):
                    sites.setdefault(c.func.id, []).append((g, c))
    ps = fi.params()
    calls = sites.get(fi.name, [])
    if not calls:
        return out

    def live_arg(g, a):
        if isinstance(a, ast.Attribute):
            return a.attr == '_lines'
        if isinstance(a, ast.Name):
            vals = []
            for x in walk_no_nested(g.node):
                if isinstance(x, ast.Assign) and any(isinstance(t, ast.Name) and t.id == a.id for t in x.targets):
                    vals.append(x.value)
                elif isinstance(x, ast.NamedExpr) and x.target.id == a.id:
                    vals.append(x.value)
                elif isinstance(x, (ast.For, ast.AugAssign)) and any(isinstance(y, ast.Name) and y.id == a.id for y in ast.walk(x.target)):
                    return False
                elif isinstance(x, ast.Assign) and any(isinstance(y, ast.Name) and y.id == a.id and isinstance(y.ctx, ast.Store)
                                                       for t in x.targets if not isinstance(t, ast.Name) for y in ast.walk(t)):
                    return False
            if vals:
                return all(isinstance(v, ast.Attribute) and v.attr == '_lines' for v in vals)
            return a.id in g.params() and a.id in live_params(repo, g)
        return False
    for i, p in enumerate(ps):
        ok = True
        for g, c in calls:
            if any(isinstance(a, ast.Starred) for a in c.args) or any(k.arg is None for k in c.keywords):
                ok = False
                break
            a = c.args[i] if i < len(c.args) else next((k.value for k in c.keywords if k.arg == p), None)
            if a is None or not live_arg(g, a):
                ok = False
                break
        if ok:
            out.add(p)
    return out


class _Quiet:
    def __init__(self, ctx):
        self.repo = ctx.repo

    def check(self, *a, **k):
        pass


def check_bistr(ctx, fi, adopters=None, producer=False, producers=None):
    """Flow-sensitive: `live` = names that MAY alias a live line list (bound from `<x>._lines`, or a _get_src(..., True) list that the
    function installs as `<x>._lines`); `bs` = names that MUST hold a bistr.  Every store into a may-live list must be a bistr value."""
    from ..cfg import CFG, solve, subnodes
    fn = fi.node
    producers = producers or {}
    if not producer and not any(isinstance(n, ast.Attribute) and n.attr == '_lines' for n in walk_no_nested(fn)) and \
            not any(isinstance(n, ast.keyword) and n.arg == 'lcopy' for n in ast.walk(fn)) and \
            not any(isinstance(n, ast.Call) and call_name(n) in (adopters or {}) for n in walk_no_nested(fn)):
        return
    ret_ok = {}          # producer mode: result position (-1: the plain value) -> every return so far hands out a may-live bistr list there
    if producer:
        ctx = _Quiet(ctx)
        rets = [r for r in walk_no_nested(fn) if isinstance(r, ast.Return)]
        shapes = {len(r.value.elts) if isinstance(r.value, ast.Tuple) else -1 for r in rets if r.value is not None}
        if not rets or len(shapes) != 1 or any(r.value is None for r in rets):
            return set()
    # names installed as a tree's line list somewhere in the function
    installed = set()
    for n in walk_no_nested(fn):
        if isinstance(n, ast.Assign):
            if any(isinstance(t, ast.Attribute) and t.attr == '_lines' for t in n.targets):
                for t in n.targets:
                    if isinstance(t, ast.Name):
                        installed.add(t.id)
                if isinstance(n.value, ast.Name):
                    installed.add(n.value.id)
    if producer:
        for r in rets:
            for e in (r.value.elts if isinstance(r.value, ast.Tuple) else [r.value]):
                if isinstance(e, ast.Name):
                    installed.add(e.id)
    # a list received from a producing worker is one the function installs / hands to an adopter by name
    # ... or handed to FST(ast, <lines>, ..., lcopy=False), which adopts the list without converting it
    adopt_calls = []
    adopt_map = {}
    for n in walk_no_nested(fn):
        if isinstance(n, ast.Call) and call_name(n) == 'FST' and len(n.args) >= 2 and \
                any(kw.arg == 'lcopy' and isinstance(kw.value, ast.Constant) and kw.value.value is False for kw in n.keywords):
            if isinstance(n.args[1], ast.Name) and n.args[1].id in fi.params() and fi.name in (adopters or {}):
                continue          # adopts its own parameter: checked at the call sites of this function
            adopt_calls.append(n)
            if isinstance(n.args[1], ast.Name):
                installed.add(n.args[1].id)
        elif isinstance(n, ast.Call) and call_name(n) in (adopters or {}) and isinstance(n.func, ast.Name):
            i = adopters[call_name(n)]
            if i < len(n.args) and isinstance(n.args[i], ast.Name) and n.args[i].id in fi.params() and adopters.get(fi.name) == fi.params().index(n.args[i].id):
                continue          # hands its own adopted parameter on: checked at the call sites of this function
            if i < len(n.args) and not any(isinstance(a, ast.Starred) for a in n.args[:i + 1]):
                # normalise to the same shape: (callee, <ignored>, lines argument)
                fake = ast.Call(func=n.func, args=[n.args[0], n.args[i]], keywords=[])
                ast.copy_location(fake, n)
                adopt_calls.append(fake)
                adopt_map[id(n)] = fake
                if isinstance(n.args[i], ast.Name):
                    installed.add(n.args[i].id)
    # nested helper functions whose every return value is a bistr
    bistr_funcs = set()
    for q, fs in ctx.repo.mod(fi.module).funcs.items():
        if q.startswith(fi.qualname + '.<locals>.'):
            rets = [r for r in walk_no_nested(fs[0].node) if isinstance(r, ast.Return)]
            if rets and all(isinstance(r.value, ast.Call) and call_name(r.value) == 'bistr' for r in rets):
                bistr_funcs.add(q.rsplit('.', 1)[1])

    def is_get_src_lines(v):
        # `_get_src(ln, col, end_ln, end_col, as_lines)` asked for lines: fifth positional (or the last one after `*loc`) / keyword
        if not (isinstance(v, ast.Call) and call_name(v) == '_get_src'):
            return False
        if any(k.arg == 'as_lines' and isinstance(k.value, ast.Constant) and k.value.value is True for k in v.keywords):
            return True
        if not v.args or not (isinstance(v.args[-1], ast.Constant) and v.args[-1].value is True):
            return False
        return len(v.args) == 5 or any(isinstance(a, ast.Starred) for a in v.args[:-1])

    def is_live_expr(e, live):
        if isinstance(e, ast.Name):
            return e.id in live
        if isinstance(e, ast.Attribute):
            return e.attr == '_lines'
        if isinstance(e, ast.NamedExpr):
            return is_live_expr(e.value, live)
        return False

    def is_bistr_value(v, live, bs):
        if isinstance(v, ast.NamedExpr):
            return is_bistr_value(v.value, live, bs)
        if isinstance(v, ast.Call):
            cn = call_name(v)
            if cn == 'bistr' or (isinstance(v.func, ast.Name) and v.func.id in bistr_funcs):
                return True
            if cn == 'map' and v.args and norm(v.args[0]) == 'bistr':
                return True
            return is_get_src_lines(v)
        if isinstance(v, (ast.ListComp, ast.GeneratorExp)):
            return is_bistr_value(v.elt, live, bs)
        if isinstance(v, ast.Starred):
            return is_bistr_value(v.value, live, bs)
        if isinstance(v, (ast.Tuple, ast.List)):
            return all(is_bistr_value(x, live, bs) for x in v.elts)
        if isinstance(v, ast.BinOp) and isinstance(v.op, ast.Mult):
            return is_bistr_value(v.left, live, bs) or is_bistr_value(v.right, live, bs)
        if isinstance(v, ast.BinOp) and isinstance(v.op, ast.Add):
            return isinstance(v.left, (ast.List, ast.Subscript, ast.BinOp)) and is_bistr_value(v.left, live, bs) and \
                is_bistr_value(v.right, live, bs)
        if isinstance(v, ast.Subscript):
            base = v.value
            if is_live_expr(base, live):
                return True                      # element or slice of a live line list
            return False                         # a slice of a *line* is a plain str
        if isinstance(v, ast.Attribute) and v.attr == '_lines':
            return True
        if isinstance(v, ast.Name):
            return v.id in bs or v.id in live
        if isinstance(v, ast.IfExp):
            return is_bistr_value(v.body, live, bs) and is_bistr_value(v.orelse, live, bs)
        return False

    cfg = CFG(fn)
    reported = set()

    def bind(name, v, live, bs):
        live.discard(name)
        bs.discard(name)
        if v is None:
            return
        vv = v.value if isinstance(v, ast.NamedExpr) else v
        if isinstance(vv, ast.Attribute) and vv.attr == '_lines':
            live.add(name)
        elif isinstance(vv, ast.Name) and vv.id in live:
            live.add(name)
        elif is_get_src_lines(vv) and name in installed:
            live.add(name)
        elif name in installed and isinstance(vv, ast.Call) and isinstance(vv.func, ast.Name) and -1 in producers.get(vv.func.id, ()):
            live.add(name)
        elif name in installed and isinstance(vv, (ast.List, ast.BinOp, ast.ListComp, ast.Subscript)) and is_bistr_value(vv, live, bs):
            live.add(name)        # a list built from bistr values that the function later installs as a tree's lines
        elif name in installed and isinstance(vv, ast.Attribute) and vv.attr == 'lines':
            live.add(name)        # public .lines of a tree is its live list
        elif is_bistr_value(v, live, bs) and not isinstance(vv, (ast.List, ast.Tuple, ast.ListComp, ast.GeneratorExp)) and not is_get_src_lines(vv):
            bs.add(name)

    def transfer(node, state):
        live, bs = set(state[0]), set(state[1])
        xs = subnodes(cfg, node)
        # walrus bindings first (they are evaluated inside the expression)
        for x in xs:
            if isinstance(x, ast.NamedExpr) and isinstance(x.target, ast.Name):
                bind(x.target.id, x.value, live, bs)
        for x in xs:
            stores = []
            if isinstance(x, (ast.Assign, ast.AugAssign)):
                tgs = x.targets if isinstance(x, ast.Assign) else [x.target]
                for t in tgs:
                    if isinstance(t, ast.Subscript) and is_live_expr(t.value, live):
                        stores.append(('item / slice store', x.value, x))
                    elif isinstance(t, ast.Attribute) and t.attr == '_lines':
                        stores.append(('replacement of the line list', x.value, x))
            elif isinstance(x, ast.Call) and isinstance(x.func, ast.Attribute) and x.func.attr in ('insert', 'append', 'extend') and \
                    is_live_expr(x.func.value, live) and x.args:
                stores.append((x.func.attr, x.args[-1], x))
            if isinstance(x, ast.Call) and (any(x is c for c in adopt_calls) or id(x) in adopt_map):
                a1 = (adopt_map[id(x)] if id(x) in adopt_map else x).args[1]
                ok = is_live_expr(a1, live) or (isinstance(a1, ast.Attribute) and a1.attr in ('_lines', 'lines')) or \
                    (isinstance(a1, ast.Subscript) and isinstance(a1.slice, ast.Slice) and is_live_expr(a1.value, live)) or \
                    (isinstance(a1, (ast.List, ast.BinOp)) and is_bistr_value(a1, live, bs))
                ctx.check('R1.2', ok, fi.module, fi.qualname, f'FST(..., {norm(a1, 40)}, ..., lcopy=False) at line {x.lineno}',
                          f'the list `{norm(a1, 40)}` is adopted as the new tree\'s source lines without conversion (lcopy=False) but is not provably '
                          f'a list of bistr', x.lineno, sample=norm(x, 90))
            for kind, v, stn in stores:
                ok = is_bistr_value(v, live, bs)
                if kind == 'replacement of the line list' and not ok:
                    # FST.__new__: `[bistr(s) for s in lines] if lcopy else lines` -- without a copy the obligation is on the caller (R1.2b)
                    ok = isinstance(v, ast.IfExp) and is_bistr_value(v.body, live, bs) and isinstance(v.orelse, ast.Name) and \
                        v.orelse.id in fi.params() + ['mode']
                    ok = ok or (isinstance(v, ast.Name) and v.id in installed)
                k = (kind, norm(stn, 90))
                if k in reported and ok:
                    continue
                reported.add(k)
                ctx.check('R1.2', ok, fi.module, fi.qualname, stn,
                          f'{kind}: `{norm(v, 60)}` is not provably a bistr: a plain str line has no c2b / b2c, so the next location query on '
                          f'that line raises AttributeError (verify() does not notice, it never converts columns)', getattr(stn, 'lineno', 0),
                          sample=norm(stn, 90))
        if producer and node.kind == 'stmt' and isinstance(node.ast, ast.Return) and node.ast.value is not None:
            rv = node.ast.value
            for i, e in (enumerate(rv.elts) if isinstance(rv, ast.Tuple) else [(-1, rv)]):
                good = is_live_expr(e, live) and isinstance(e, ast.Name)
                ret_ok[i] = ret_ok.get(i, True) and good
        if node.kind == 'stmt' and isinstance(node.ast, (ast.Assign, ast.AnnAssign)) and getattr(node.ast, 'value', None) is not None:
            tgs = node.ast.targets if isinstance(node.ast, ast.Assign) else [node.ast.target]
            for t in tgs:
                if isinstance(t, ast.Name):
                    bind(t.id, node.ast.value, live, bs)
                elif isinstance(t, (ast.Tuple, ast.List)):
                    v = node.ast.value
                    prod = producers.get(v.func.id, set()) if isinstance(v, ast.Call) and isinstance(v.func, ast.Name) else set()
                    for i, e in enumerate(t.elts):
                        for y in ast.walk(e):
                            if isinstance(y, ast.Name):
                                bind(y.id, None, live, bs)
                        if isinstance(e, ast.Name) and i in prod and e.id in installed:
                            live.add(e.id)        # position i of the worker's result is a list of bistr built to be installed
        elif node.kind == 'iter':
            it = node.ast.iter
            tg = node.ast.target
            elem_of_live = is_live_expr(it, live) or (isinstance(it, ast.Call) and call_name(it) == 'enumerate' and it.args and is_live_expr(it.args[0], live))
            for y in ast.walk(tg):
                if isinstance(y, ast.Name):
                    bind(y.id, None, live, bs)
            if elem_of_live:
                if isinstance(tg, ast.Name):
                    bs.add(tg.id)
                elif isinstance(tg, ast.Tuple) and len(tg.elts) == 2 and isinstance(tg.elts[1], ast.Name):
                    bs.add(tg.elts[1].id)
        return (frozenset(live), frozenset(bs))

    solve(cfg, (frozenset(live_params(ctx.repo, fi)), frozenset()), transfer, lambda a, b: (a[0] | b[0], a[1] & b[1]))
    if producer:
        return {i for i, ok in ret_ok.items() if ok}


# ---- R1.5 / R1.6 -------------------------------------------------------------------------------------------------------

TEXT_CHANGERS = {'_put_src', '_put_one', '_put_slice', '_put_one_exprlike_required', '_put_one_exprlike_optional', '_put_one_identifier_required',
                 '_put_one_identifier_optional', '_reparse_raw', '_put_one_raw', '_parenthesize_grouping', '_unparenthesize_grouping',
                 '_delimit_node', '_undelimit_node'}
PRIMITIVE_FIELDS = {'kind', 'is_async', 'level', 'simple', 'value', 'is_lazy', 'conversion', 'str'}


R15_REVIEWED = {
    ('_put_one_AnnAssign_simple', 'self.a.simple = value'):
        'the parser sets simple=1 exactly for an unparenthesized Name target; the store is reached only when the value changes '
        '(`value != self.a.simple`): 1 -> 0 on an unparenthesized Name parenthesizes it, 0 -> 1 on a parenthesized Name unparenthesizes it; the '
        'remaining arm (0 requested, Name already parenthesized) has simple == 0 already and is not entered',
}


def check_primitive_puts(ctx):
    """R1.5: in the put handlers of primitive fields (Constant.kind, comprehension.is_async, ImportFrom.level, AnnAssign.simple, constants) a
    *new* value is stored into the AST only on paths that changed the source text (or went through a put that does): storing it where no
    text was written makes the tree say one thing and the source another.
    R1.6: the text written for a constant is its *source form*; `repr(value)` is not for Ellipsis ('Ellipsis' is a name), infinities ('inf')
    and nan: a handler that splices `repr(value)` must deal with each of them (rewrite or reject)."""
    from ..cfg import CFG, subnodes
    ctx.rule('R1.5', 'a put handler of a primitive field stores the new value into the AST only after the source text was changed', 5)
    ctx.rule('R1.6', 'a handler that writes repr(value) as source handles the values whose repr is not their source (Ellipsis, inf, nan, negative zero, complex with a real part)', 3)
    n5 = 0
    for fi in ctx.repo.all_funcs():
        if isinstance(fi.node, ast.Lambda) or fi.module != 'fst_put_one' or not fi.name.startswith('_put_one_'):
            continue
        cfg = CFG(fi.node)
        stores, changers = [], set()
        for nd in cfg.nodes:
            for x in subnodes(cfg, nd):
                if isinstance(x, ast.Assign):
                    for t in x.targets:
                        if isinstance(t, ast.Attribute) and t.attr in PRIMITIVE_FIELDS and norm(t.value) in ('ast', 'self.a', 'a', 'parenta') and \
                                not isinstance(x.value, ast.Constant):
                            stores.append((nd, x))
                if isinstance(x, ast.Call) and call_name(x) in TEXT_CHANGERS:
                    changers.add(nd.id)
        for nd, x in stores:
            n5 += 1
            unchanged = cfg.reachable(cfg.entry, lambda n_, lab, s: lab != 'exc', stop=changers) | {cfg.entry}
            rv = R15_REVIEWED.get((fi.name, norm(x, 60)))
            ctx.check('R1.5', nd.id not in unchanged or bool(rv), fi.module, fi.qualname, norm(x, 60),
                      'the new value is stored into the AST on a path on which the source was not changed (e.g. the prefix / keyword could not be '
                      'written): tree and source disagree from then on, verify() fails', x.lineno, sample={'function': fi.key, 'store': norm(x, 60)})
        # R1.6
        for c in walk_no_nested(fi.node):
            if isinstance(c, ast.Call) and call_name(c) == 'repr' and c.args and isinstance(c.args[0], ast.Name):
                # does it reach _put_src? directly as argument, or through a local
                holder = None
                for x in walk_no_nested(fi.node):
                    if isinstance(x, ast.Call) and call_name(x) == '_put_src' and x.args and (x.args[0] is c or (isinstance(x.args[0], ast.Name) and any(
                            isinstance(a_, ast.Assign) and norm(a_.targets[0]) == x.args[0].id and any(y is c for y in ast.walk(a_.value))
                            for a_ in walk_no_nested(fi.node)))):
                        holder = x
                if holder is None:
                    continue
                consts = {y.value for y in walk_no_nested(fi.node) if isinstance(y, ast.Constant) and isinstance(y.value, str)}
                has_ellipsis = any(isinstance(y, ast.Constant) and y.value is ... for y in walk_no_nested(fi.node)) or \
                    any(isinstance(y, ast.Name) and y.id in ('Ellipsis', 'EllipsisType') for y in walk_no_nested(fi.node))
                names = {y.id for y in walk_no_nested(fi.node) if isinstance(y, ast.Name)} | {y.attr for y in walk_no_nested(fi.node) if isinstance(y, ast.Attribute)}
                # a sign that `value < 0` cannot see (-0.0, -0j) is visible in the text or through copysign; a complex number with a real part
                # has the repr `(1+2j)`, an expression
                neg_zero = 'copysign' in names or any(k.startswith('-') for k in consts)
                cplx_real = 'real' in names or any(k.startswith('(') for k in consts)
                for what, ok, how in (('Ellipsis', has_ellipsis, 'a name, not a literal: the source re-parses to a Name'),
                                      ('inf', 'inf' in consts, 'a name, not a literal: the source re-parses to a Name'),
                                      ('nan', 'nan' in consts, 'a name, not a literal: the source re-parses to a Name'),
                                      ('negative zero', neg_zero, '`-0.0` / `-0j`, a unary minus applied to a literal (and `value < 0` is false for it): the '
                                                                  'source re-parses to a UnaryOp'),
                                      ('complex with a real part', cplx_real, '`(1+2j)`, an addition: the source re-parses to a BinOp')):
                    ctx.check('R1.6', ok, fi.module, fi.qualname, f'repr({c.args[0].id}) written as source: {what}',
                              f'`repr(value)` is spliced as the source of the constant but nothing in the handler deals with {what}, whose repr is {how} '
                              f'while the tree holds a Constant', c.lineno,
                              sample={'function': fi.key, 'case': what})
    if n5 < 5:
        raise AnalysisError(f'only {n5} primitive stores in put handlers found')


# ---- R1.7 ------------------------------------------------------------------------------------------------------------

def check_joined_words(ctx):
    """`_fix_joined_alnums(ln, col)` separates two words that an edit left touching (`cfor`, `inb`).  Where a put-slice handler believes this
    can happen at a boundary *outside* the slice (the start of the following sibling / of the parent's next part) it has to believe it for a
    deletion as much as for an insertion: removing the last elements brings what stood before them up against the same boundary.  A repair
    that is control dependent on "there is new code" (`if fst_:` / the else of `if not fst_:`) while the delete arm of the same handler
    splices the same field is the contradiction."""
    from ..struct import parent_map, enclosing_tests
    PS = ctx.ev.get('fst_put_slice', '_PUT_SLICE_HANDLERS')
    ctx.rule('R1.7', 'a joined-words repair in a put-slice handler is not confined to the insert arm when the handler also deletes', 3)
    seen = set()
    n = 0
    for tok in PS.values():
        if not isinstance(tok, FuncTok) or tok.key in seen:
            continue
        seen.add(tok.key)
        for fi in ctx.repo.mod(tok.module).func(tok.qualname):
            if isinstance(fi.node, ast.Lambda):
                continue
            # the converted-code local: `fst_ = _code_to_slice_*(self, code, ...)`
            codev = {x.targets[0].id for x in walk_no_nested(fi.node) if isinstance(x, ast.Assign) and len(x.targets) == 1 and
                     isinstance(x.targets[0], ast.Name) and isinstance(x.value, ast.Call) and (call_name(x.value) or '').startswith('_code_to_slice')}
            if not codev:
                continue
            par = parent_map(fi.node)
            for c in walk_no_nested(fi.node):
                if not (isinstance(c, ast.Call) and call_name(c) == '_fix_joined_alnums'):
                    continue
                n += 1
                insert_only = False
                for t, pol in enclosing_tests(fi.node, c, par):
                    neg = False
                    while isinstance(t, ast.UnaryOp) and isinstance(t.op, ast.Not):
                        t, neg = t.operand, not neg
                    if isinstance(t, ast.Name) and t.id in codev and (pol != neg):
                        insert_only = True
                ctx.check('R1.7', not insert_only, fi.module, fi.qualname, f'{norm(c, 60)} only when code is put',
                          'the words on both sides of this boundary are separated again only after an insertion; deleting the last elements of the '
                          'field brings the text before them up against the same boundary and nothing separates them (`... in c if(d)for ...` -> `cfor`)',
                          c.lineno, sample={'handler': fi.key, 'repair': norm(c, 60)})
    if n < 2:
        raise AnalysisError(f'only {n} joined-words repairs found in the put-slice handlers')


# ---- R1.8 ------------------------------------------------------------------------------------------------------------

def check_elif_needs_if(ctx):
    """A lone `If` put as the whole `orelse` block may be written as `elif` - but `elif` exists only after an `if`: `for ... else:` / `while` /
    `try` take an `else:` with the `if` inside.  Wherever the statement-put code decides "the new body is a lone If, write it as elif" (a test
    `<element of the put body>.__class__ is If`, directly or through a private predicate), the decision must also rest on "the block's owner
    is an If" (`<target>.a.__class__ is If`): in the same conjunction, in an enclosing test, or in a flag the conjunction uses."""
    from ..struct import parent_map, enclosing_tests
    ctx.rule('R1.8', 'every decision to write a put statement as `elif` (the put body is a lone If) is conjoined with a test that the owner of the '
                     'block is an If', 2)
    m = ctx.repo.mod('slice_stmtlike')

    def if_test_subject(e):
        """The expression whose class is compared with `If`, for the spellings `X.__class__ is If`, `X.__class__ in (.., If, ..)`, `type(X) is If`,
        `isinstance(X, If)` and the predicate attribute `X.is_If`; None when `e` is no such test."""
        if isinstance(e, ast.Compare) and len(e.ops) == 1 and isinstance(e.ops[0], (ast.Is, ast.Eq, ast.In)) and \
                any(isinstance(y, ast.Name) and y.id == 'If' for y in ast.walk(e.comparators[0])):
            l = e.left
            if isinstance(l, ast.Attribute) and l.attr == '__class__':
                return l.value
            if isinstance(l, ast.Call) and isinstance(l.func, ast.Name) and l.func.id == 'type' and len(l.args) == 1:
                return l.args[0]
        if isinstance(e, ast.Call) and isinstance(e.func, ast.Name) and e.func.id == 'isinstance' and len(e.args) == 2 and \
                any(isinstance(y, ast.Name) and y.id == 'If' for y in ast.walk(e.args[1])):
            return e.args[0]
        if isinstance(e, ast.Attribute) and e.attr == 'is_If':
            return e.value
        return None

    def lone_if_test(e):           # the subject is an element of a list of statements: <something>[i]
        sub = if_test_subject(e)
        return sub is not None and any(isinstance(y, ast.Subscript) for y in ast.walk(sub))

    def owner_if_test(e):          # the subject is a node reached without indexing: <target>.a, <target>
        sub = if_test_subject(e)
        return sub is not None and not any(isinstance(y, ast.Subscript) for y in ast.walk(sub))
    # private predicates whose result implies the lone-If test (`return ... and put_body[0].__class__ is If`)
    preds = set()
    for q, fis in m.funcs.items():
        for fi in fis:
            if isinstance(fi.node, ast.Lambda):
                continue
            rets = [r for r in walk_no_nested(fi.node) if isinstance(r, ast.Return) and r.value is not None]
            if len(rets) == 1 and any(lone_if_test(x) for x in ast.walk(rets[0].value)) and not any(owner_if_test(x) for x in ast.walk(rets[0].value)):
                preds.add(fi.name)
    # the put side only: what the statement-put entry point reaches inside the module (the get side turns an extracted `elif` into `if`,
    # which is a different decision)
    entry = [fi for fi in ctx.repo.funcs('slice_stmtlike', 'put_slice_stmtlike')]
    if not entry:
        raise AnalysisError('put_slice_stmtlike not found (anchor vanished)')
    by_name = {}
    for q, fis in m.funcs.items():
        for fi in fis:
            if not isinstance(fi.node, ast.Lambda):
                by_name.setdefault(fi.name, []).append(fi)
    reach, work = {fi.key for fi in entry}, list(entry)
    while work:
        f = work.pop()
        for c in walk_no_nested(f.node):
            if isinstance(c, ast.Call) and call_name(c) in by_name:
                for g in by_name[call_name(c)]:
                    if g.key not in reach:
                        reach.add(g.key)
                        work.append(g)
    n = 0
    for q, fis in m.funcs.items():
        for fi in fis:
            if isinstance(fi.node, ast.Lambda) or fi.name in preds or fi.key not in reach:
                continue
            par = None
            binds = {}
            for x in walk_no_nested(fi.node):
                if isinstance(x, ast.Assign) and len(x.targets) == 1 and isinstance(x.targets[0], ast.Name):
                    binds.setdefault(x.targets[0].id, []).append(x.value)
            for x in walk_no_nested(fi.node):
                hit = lone_if_test(x) or (isinstance(x, ast.Call) and call_name(x) in preds)
                if not hit:
                    continue
                par = par or parent_map(fi.node)
                # the put body only: a test on the *existing* block's statements (`orelse[0]`) is about what is there, not about what to write
                conj = [t for t, pol in enclosing_tests(fi.node, x, par) if pol]
                cur = x
                while cur in par and isinstance(par[cur], ast.BoolOp) and isinstance(par[cur].op, ast.And):
                    conj += [v for v in par[cur].values if v is not cur]
                    cur = par[cur]

                def expand(e, depth=0):
                    out = [e]
                    if isinstance(e, ast.BoolOp) and isinstance(e.op, ast.And):
                        for v in e.values:
                            out += expand(v, depth)
                    elif isinstance(e, ast.Name) and depth < 2 and len(binds.get(e.id, [])) == 1:
                        out += expand(binds[e.id][0], depth + 1)
                    return out
                flat = [z for c in conj for y in expand(c) for z in ast.walk(y)]
                n += 1
                ctx.check('R1.8', any(owner_if_test(y) for y in flat), fi.module, fi.qualname, f'lone-If decision: {norm(par.get(cur, cur) if cur is not x else x, 70)}',
                          'the put body is recognised as a lone `If` (to be written as `elif`) without asking whether the owner of the block is an `If`: into the '
                          '`else` of a for / while / try this writes `elif ...:` after a block that is not an `if` - the source no longer parses while the tree '
                          'holds orelse=[If]', x.lineno, sample={'function': fi.key, 'test': norm(x, 60)})
    if n < 1:
        raise AnalysisError('no lone-If (elif) decision found in slice_stmtlike (anchor vanished)')


def check_inherited_ctx(ctx, P1):
    """R1.9 — Python gives the elements of a Tuple / List and the value of a Starred the expression context of the container (`a, *b = c`:
    Tuple, Starred and both Names are Store).  A put handler that replaces such a child has to take the context of the new node from the
    tree (the old child's or the container's `.ctx`); a constant - the `ctx_cls` of the row's static descriptor, a literal Load - is right for
    one of the positions only and leaves `Load` in an assignment target while the source is unchanged (tree differs from a re-parse).
    Decided: on every call path from the handler registered for (Starred, value), (Tuple, elts), (List, elts) to the constructor of the new
    node (`_make_exprlike_fst`), the context argument depends on a `.ctx` read."""
    from ..consteval import FuncTok
    from ..callgraph import arg_for_param
    ctx.rule('R1.9', 'the put handlers of the positions that inherit the container\'s expression context (Starred.value, Tuple.elts, List.elts) '
                     'derive the context of the new node from a `.ctx` read on the tree, on every path to the node constructor', 3)
    maker = ctx.repo.find_funcs('fst_put_one', '_make_exprlike_fst')
    if not maker:
        raise AnalysisError('fst_put_one._make_exprlike_fst not found (anchor vanished)')
    mk = maker[0]
    mk_params = mk.params()
    cparam = next((p for p in mk_params if 'ctx' in p), None)
    if cparam is None:
        raise AnalysisError('_make_exprlike_fst has no context parameter (anchor vanished)')
    home = ctx.repo.mod(mk.module)
    funcs = {q: fis[0] for q, fis in home.funcs.items() if '.' not in q and fis and not isinstance(fis[0].node, ast.Lambda)}
    # functions that reach the constructor
    calls = {q: [c for c in walk_no_nested(fi.node) if isinstance(c, ast.Call) and isinstance(c.func, ast.Name) and c.func.id in funcs]
             for q, fi in funcs.items()}
    reach = {mk.name}
    changed = True
    while changed:
        changed = False
        for q, cs in calls.items():
            if q not in reach and any(c.func.id in reach for c in cs):
                reach.add(q)
                changed = True

    def reads_ctx(e) -> bool:
        for y in ast.walk(e):
            if isinstance(y, ast.Attribute) and y.attr == 'ctx' and isinstance(y.ctx, ast.Load):
                return True
            if isinstance(y, ast.Call) and call_name(y) == 'getattr' and len(y.args) >= 2 and isinstance(y.args[1], ast.Constant) and y.args[1].value == 'ctx':
                return True
        return False

    def derived(fi, e, env, depth=0) -> bool:
        """Does expression `e` in `fi` depend on a `.ctx` read?  env: {param: (caller fi, argument expression, caller env)}."""
        if e is None or depth > 6:
            return False
        if reads_ctx(e):
            return True
        ps = set(fi.params())
        for y in ast.walk(e):
            if not (isinstance(y, ast.Name) and isinstance(y.ctx, ast.Load)):
                continue
            bound = False
            for x in walk_no_nested(fi.node):
                v = None
                if isinstance(x, ast.Assign) and any(isinstance(tg, ast.Name) and tg.id == y.id for tg in x.targets):
                    v = x.value
                elif isinstance(x, ast.NamedExpr) and x.target.id == y.id:
                    v = x.value
                if v is not None and v is not e and not any(z is e for z in ast.walk(v)):
                    bound = True
                    if derived(fi, v, env, depth + 1):
                        return True
                elif v is not None:
                    bound = True
                    if reads_ctx(v):
                        return True
            if not bound and y.id in ps and y.id in env:
                cfi, ce, cenv = env[y.id]
                if derived(cfi, ce, cenv, depth + 1):
                    return True
        return False

    def paths(fi, env, seen):
        """[(function, call, ok)] for every constructor call reachable from fi."""
        out = []
        for c in calls.get(fi.name, []):
            g = funcs[c.func.id]
            if g.name == mk.name:
                a = arg_for_param(c, g, cparam, False)
                out.append((fi, c, derived(fi, a, env)))
            elif g.name in reach and g.name not in seen:
                genv = {}
                for p in g.params():
                    a = arg_for_param(c, g, p, False)
                    if a is not None:
                        genv[p] = (fi, a, env)
                out += paths(g, genv, seen | {g.name})
        return out

    n = 0
    for (c, f), row in P1.items():
        if not (hasattr(c, 'name') and (c.name, f) in (('Starred', 'value'), ('Tuple', 'elts'), ('List', 'elts'))):
            continue
        if not (isinstance(row, tuple) and len(row) == 3 and isinstance(row[1], FuncTok)):
            continue
        hs = ctx.repo.mod(row[1].module).func(row[1].qualname)
        if not hs:
            continue
        n += 1
        # the dispatcher passes the table's fixed arguments only: no parameter of the handler carries a context
        ps = paths(hs[0], {}, {hs[0].name})
        if not ps:
            raise AnalysisError(f'{hs[0].key}: no path to {mk.name} found from the handler of ({c.name}, {f!r}) (anchor vanished)')
        for fi, call, ok in ps:
            ctx.check('R1.9', ok, fi.module, fi.qualname, f'({c.name}, {f!r}): {norm(call, 60)}',
                      f'the new child of {c.name}.{f} gets its expression context from `{norm(arg_for_param(call, mk, cparam, False), 50)}`, which does not '
                      f'depend on a `.ctx` read of the tree on this path from {hs[0].name}: in a Store / Del position (`*a, b = c`) the new node keeps '
                      f'Load while the source re-parses to Store', call.lineno, sample={'row': f'{c.name}.{f}', 'handler': hs[0].key, 'constructor_call_in': fi.key})
    if n < 3:
        raise AnalysisError(f'only {n} of the rows (Starred, value), (Tuple, elts), (List, elts) resolve to a handler function')
