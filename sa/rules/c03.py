"""C03 — container semantics, nothing else changes, entry points agree.

Decides (structure only): registry agreement and exhaustiveness of the four handler tables against the grammar
(R3.3), shape of the generated accessors (R3.4), funnel / forwarding of the public entry points (R3.2), raw-index
discipline in slice handlers (R3.1).
Not decided: that a handler really produces old[:start] + new + old[stop:] (value level).
"""
from __future__ import annotations

import ast

from ..model import AnalysisError, norm, walk_no_nested, call_name
from ..consteval import ClassTok, FuncTok, Record, Unknown
from .. import tables as T

PROP = 'C03'
VERSIONED = True

# (class, field) pairs documented in the source as not implemented for put/get one (commented rows at the end of
# _PUT_ONE_HANDLERS: type comments, type ignores, FunctionType)
NOT_IMPLEMENTED_ONE = {
    ('FunctionDef', 'type_comment'), ('AsyncFunctionDef', 'type_comment'), ('Assign', 'type_comment'),
    ('For', 'type_comment'), ('AsyncFor', 'type_comment'), ('With', 'type_comment'), ('AsyncWith', 'type_comment'),
    ('arg', 'type_comment'), ('Module', 'type_ignores'), ('FunctionType', 'argtypes'), ('FunctionType', 'returns'),
    ('TypeIgnore', 'lineno'), ('TypeIgnore', 'tag'),
}

# list fields that are deliberately NOT individually sliceable: components of a combined virtual field whose elements
# only make sense together (reason per group)
NOT_SLICEABLE_LIST = {
    ('Dict', 'keys'): 'key:value pairs are sliced through Dict._all',
    ('Dict', 'values'): 'key:value pairs are sliced through Dict._all',
    ('Compare', 'ops'): 'op/comparator pairs are sliced through Compare._all',
    ('Compare', 'comparators'): 'op/comparator pairs are sliced through Compare._all',
    ('arguments', 'posonlyargs'): 'sliced through arguments._all', ('arguments', 'args'): 'sliced through arguments._all',
    ('arguments', 'defaults'): 'sliced through arguments._all', ('arguments', 'kwonlyargs'): 'sliced through arguments._all',
    ('arguments', 'kw_defaults'): 'sliced through arguments._all',
    ('MatchMapping', 'keys'): 'sliced through MatchMapping._all', ('MatchMapping', 'patterns'): 'sliced through MatchMapping._all',
    ('MatchClass', 'kwd_attrs'): 'attr=pattern pairs are sliced through MatchClass._attrs',
    ('MatchClass', 'kwd_patterns'): 'attr=pattern pairs are sliced through MatchClass._attrs',
    ('_pattern_attrlikes', 'kwd_attrs'): 'sliced through _attrs', ('_pattern_attrlikes', 'kwd_patterns'): 'sliced through _attrs',
}
# list fields without a slice handler at all
NO_SLICE_HANDLER = {
    ('Compare', 'ops'), ('Compare', 'comparators'), ('MatchClass', 'kwd_attrs'), ('MatchClass', 'kwd_patterns'),
    ('_pattern_attrlikes', 'kwd_attrs'), ('_pattern_attrlikes', 'kwd_patterns'),
    ('FunctionType', 'argtypes'), ('Module', 'type_ignores'),
}
# optional / required handler-kind exceptions
KIND_EXCEPTIONS = {
    ('DictComp', 'value'): "typed 'expr?' in FIELDS only because of python >= 3.15; required in every supported grammar",
}
VIRTUAL = ('_all', '_args', '_bases', '_body', '_attrs')


def handler_tables(ctx):
    P1 = ctx.ev.get('fst_put_one', '_PUT_ONE_HANDLERS')
    G1 = ctx.ev.get('fst_get_one', '_GET_ONE_HANDLERS')
    PS = ctx.ev.get('fst_put_slice', '_PUT_SLICE_HANDLERS')
    GS = ctx.ev.get('fst_get_slice', '_GET_SLICE_HANDLERS')
    for n, t, m in (('_PUT_ONE_HANDLERS', P1, 200), ('_GET_ONE_HANDLERS', G1, 200), ('_PUT_SLICE_HANDLERS', PS, 90),
                    ('_GET_SLICE_HANDLERS', GS, 85)):
        if not isinstance(t, dict) or len(t) < m:
            raise AnalysisError(f'{n} did not evaluate to a table with >= {m} rows')
    return P1, G1, PS, GS


def virtual_reference(ctx) -> dict[str, set]:
    """{virtual field: set of ClassTok accepted by the FST.<virtual> getter} read from the class tests in fst.py."""
    out = {}
    env = ctx.ev.env('fst')
    for v in VIRTUAL:
        fis = [fi for fi in ctx.repo.funcs('fst', 'FST.' + v) if fi.kind == 'getter']
        if not fis:
            raise AnalysisError(f'FST.{v} getter not found')
        classes = set()
        for n in walk_no_nested(fis[0].node):
            if isinstance(n, ast.Compare) and len(n.ops) == 1:
                rhs = ctx.ev.eval(n.comparators[0], dict(env), 'fst')
                if isinstance(n.ops[0], ast.Is) and isinstance(rhs, ClassTok):
                    classes.add(rhs)
                elif isinstance(n.ops[0], ast.In) and isinstance(rhs, (set, frozenset, tuple, list)):
                    classes |= {c for c in rhs if isinstance(c, ClassTok)}
            elif isinstance(n, ast.Call) and isinstance(n.func, ast.Attribute) and n.func.attr == 'get':
                tab = ctx.ev.eval(n.func.value, dict(env), 'fst')
                if isinstance(tab, dict):
                    classes |= {c for c in tab if isinstance(c, ClassTok)}
        if not classes:
            raise AnalysisError(f'FST.{v} getter: no class test found')
        out[v] = classes
    return out


def run(ctx):
    F = T.fields(ctx)
    P1, G1, PS, GS = handler_tables(ctx)
    ctx.not_decided += ['that a handler produces old[:start] + new + old[stop:] and leaves all other nodes unchanged',
                        'layout independence of the resulting structure', 'that valid requests are not refused']
    allf = {(c, f): t for c, fs in F.items() for f, t in fs}
    vref = virtual_reference(ctx)
    from . import c03_view
    c03_view.check(ctx)
    c03_view.check_stop_maintenance(ctx)
    c03_view.check_view_snapshots(ctx)
    c03_view.check_async_twins(ctx, F)
    c03_view.check_code_forms(ctx)
    from .. import litdomain
    ctx.rule('R3.9', "internal callers pass indices inside the declared domain `int | Literal['end']` (or `Literal['end'] | None`): the kernels "
                     "single out 'end' / None by equality / identity, a different literal of the same truthiness is normalised as something else", 150)
    litdomain.check(ctx, 'R3.9', lambda fi, p, ann: "Literal['end']" in ann, 150)

    # ---- R3.3a exhaustiveness of single-element tables --------------------------------------------------------------
    ctx.rule('R3.3a', 'every (class, field) of the grammar is a key of _PUT_ONE_HANDLERS and _GET_ONE_HANDLERS or in the '
                      'documented not-implemented list; both tables have the same key set; values resolve to functions', 400)
    for (c, f), t in allf.items():
        if (c.name, f) in NOT_IMPLEMENTED_ONE:
            continue
        for tn, tab, mod in (('_PUT_ONE_HANDLERS', P1, 'fst_put_one'), ('_GET_ONE_HANDLERS', G1, 'fst_get_one')):
            ctx.check('R3.3a', (c, f) in tab, mod, tn, f'({c.name}, {f!r})',
                      f'{c.name}.{f} ({t}) has no row: put()/get()/replace()/remove() on that position is refused or '
                      f'silently mis-dispatched')
    for k in set(P1) ^ set(G1):
        ctx.bad('R3.3a', 'fst_put_one' if k in P1 else 'fst_get_one', '_PUT_ONE_HANDLERS' if k in P1 else '_GET_ONE_HANDLERS',
                f'({k[0].name}, {k[1]!r})', 'row present in only one of the put-one / get-one tables')
    for (c, f) in P1:
        if (c, f) not in allf and not (f in VIRTUAL):
            ctx.bad('R3.3a', 'fst_put_one', '_PUT_ONE_HANDLERS', f'({c.name}, {f!r})', 'row for a field the grammar table FIELDS does not have')
    for (c, f), h in G1.items():
        ctx.check('R3.3a', isinstance(h, FuncTok) and bool(ctx.repo.mod(h.module).func(h.qualname)), 'fst_get_one',
                  '_GET_ONE_HANDLERS', f'({c.name}, {f!r}) -> {getattr(h, "name", h)}', 'get handler does not resolve to a function')

    # ---- R3.3b row shape: kind agreement ------------------------------------------------------------------------------
    ctx.rule('R3.3b', 'put-one rows: a row is sliceable or has a handler; sliceable <=> list-typed or virtual field (frozen '
                      'component-field exceptions); *_optional handlers only on optional slots, *_required only on required', 200)
    for (c, f), row in P1.items():
        if not (isinstance(row, tuple) and len(row) == 3):
            ctx.bad('R3.3b', 'fst_put_one', '_PUT_ONE_HANDLERS', f'({c.name}, {f!r})', f'row is not a (sliceable, handler, static) triple: {row!r}')
            continue
        sl, h, st = row
        t = allf.get((c, f))
        key = f'({c.name}, {f!r}): ({sl}, {getattr(h, "name", h)}, ...)'
        ctx.check('R3.3b', bool(sl) or isinstance(h, FuncTok), 'fst_put_one', '_PUT_ONE_HANDLERS', key,
                  'row is neither sliceable nor has a handler: every put to this slot raises "cannot replace"')
        if h:    # None / False mean "no single-element handler, use the slice operation"
            ctx.check('R3.3b', isinstance(h, FuncTok) and bool(ctx.repo.mod(h.module).func(h.qualname)), 'fst_put_one',
                      '_PUT_ONE_HANDLERS', key + ' handler', 'handler does not resolve to a function')
        if t is None:   # virtual
            ctx.check('R3.3b', sl is True, 'fst_put_one', '_PUT_ONE_HANDLERS', key + ' virtual', 'virtual field row must be sliceable')
            continue
        is_list = T.card(t) == 'list'
        exp = is_list and (c.name, f) not in NOT_SLICEABLE_LIST
        ctx.check('R3.3b', bool(sl) == exp, 'fst_put_one', '_PUT_ONE_HANDLERS', key + ' sliceable',
                  f'sliceable={sl} but field type is {t!r}' + (' (component of a combined virtual field, must not be sliceable)'
                                                             if (c.name, f) in NOT_SLICEABLE_LIST else ''))
        if isinstance(h, FuncTok):
            elem_opt = t.endswith('?') or t.endswith('?*')
            hn = h.name
            gi = st.fields.get('getinfo') if isinstance(st, Record) else None
            gin = gi.name if isinstance(gi, FuncTok) else ''
            if (c.name, f) in KIND_EXCEPTIONS:
                continue
            bad = (hn.endswith('_optional') and not elem_opt) or (hn.endswith('_required') and elem_opt)
            bad_gi = (gin.endswith('_optional') and not elem_opt) or (gin.endswith('_required') and elem_opt)
            ctx.check('R3.3b', not bad and not bad_gi, 'fst_put_one', '_PUT_ONE_HANDLERS', key + ' kind',
                      f'field type {t!r} but handler {hn} / getinfo {gin}: an optional slot handled as required cannot be '
                      f'deleted or created, a required one handled as optional can be deleted into an invalid tree')

    # ---- R3.3c slice tables -------------------------------------------------------------------------------------------
    ctx.rule('R3.3c', 'slice tables: every list-typed field has a put-slice handler (frozen exceptions); get keys are a '
                      'subset of put keys; put-only keys map to the explicit redirect handler; every sliceable put-one '
                      'row has a slice handler to delegate to', 250)
    for (c, f), t in allf.items():
        if T.card(t) != 'list' or (c.name, f) in NO_SLICE_HANDLER:
            continue
        ctx.check('R3.3c', (c, f) in PS, 'fst_put_slice', '_PUT_SLICE_HANDLERS', f'({c.name}, {f!r})',
                  f'list field {c.name}.{f} ({t}) has no put-slice handler')
    for k in GS:
        ctx.check('R3.3c', k in PS, 'fst_get_slice', '_GET_SLICE_HANDLERS', f'({k[0].name}, {k[1]!r})', 'get-slice row without put-slice row')
    for k in set(PS) - set(GS):
        h = PS[k]
        ctx.check('R3.3c', isinstance(h, FuncTok) and h.name == '_put_slice_NOT_HANDLED_try__all', 'fst_put_slice',
                  '_PUT_SLICE_HANDLERS', f'({k[0].name}, {k[1]!r}) -> {getattr(h, "name", h)}',
                  'put-slice row without get-slice row must be the explicit redirect to the combined virtual field')
    for tn, tab, mod in (('_PUT_SLICE_HANDLERS', PS, 'fst_put_slice'), ('_GET_SLICE_HANDLERS', GS, 'fst_get_slice')):
        for (c, f), h in tab.items():
            ok = isinstance(h, FuncTok) and bool(ctx.repo.mod(h.module).func(h.qualname))
            ctx.check('R3.3c', ok, mod, tn, f'({c.name}, {f!r}) -> {getattr(h, "name", h)}', 'handler does not resolve to a function')
            if (c, f) not in allf and f not in VIRTUAL:
                ctx.bad('R3.3c', mod, tn, f'({c.name}, {f!r})', 'slice row for a field the grammar does not have')
            elif (c, f) in allf and T.card(allf[(c, f)]) != 'list':
                ctx.bad('R3.3c', mod, tn, f'({c.name}, {f!r})', f'slice row for non-list field of type {allf[(c, f)]!r}')
    for (c, f), row in P1.items():
        if isinstance(row, tuple) and row and row[0] is True:
            tgt = (c, 'body' if f == '_body' else f)
            ctx.check('R3.3c', tgt in PS, 'fst_put_one', '_PUT_ONE_HANDLERS', f'({c.name}, {f!r}) delegates to slice',
                      f'sliceable put-one row but no _PUT_SLICE_HANDLERS[({c.name}, {tgt[1]!r})] to delegate deletion to')

    # ---- R3.3d default field ------------------------------------------------------------------------------------------
    ctx.rule('R3.3d', '_DEFAULT_AST_FIELD[cls] names a real field of cls or a virtual field the class has', 75)
    D = ctx.ev.get('fst_misc', '_DEFAULT_AST_FIELD')
    for c, f in D.items():
        ok = (c, f) in allf or (f in VIRTUAL and c in vref.get(f, ()))
        ctx.check('R3.3d', ok, 'fst_misc', '_DEFAULT_AST_FIELD', f'{c.name}: {f!r}', f'default field {f!r} is not a field of {c.name}')

    # ---- R3.3e virtual field agreement ---------------------------------------------------------------------------------
    ctx.rule('R3.3e', 'the (class, virtual field) set accepted by the FST._all/_args/_bases/_body/_attrs getters equals the '
                      'virtual keys of the four handler tables', 80)
    # `_body` is "body without docstring": a class the getter's set test lets through but which has no list-typed `body`
    # (Match) fails with AttributeError all the same, so it is not part of the reference set
    ref = {(c, v) for v, cs in vref.items() for c in cs
           if v != '_body' or ((c, 'body') in allf and T.card(allf[(c, 'body')]) == 'list')}
    for tn, tab, mod in (('_PUT_ONE_HANDLERS', P1, 'fst_put_one'), ('_GET_ONE_HANDLERS', G1, 'fst_get_one'),
                         ('_PUT_SLICE_HANDLERS', PS, 'fst_put_slice'), ('_GET_SLICE_HANDLERS', GS, 'fst_get_slice')):
        vk = {(c, f) for (c, f) in tab if f in VIRTUAL}
        for k in ref | vk:
            ctx.check('R3.3e', k in ref and k in vk, mod, tn, f'({k[0].name}, {k[1]!r})',
                      ('getter accepts the class but the table has no row' if k in ref else
                       'table row for a virtual field whose getter rejects the class') + ': entry points disagree')

    # ---- R3.3f FIELDS vs stdlib grammar --------------------------------------------------------------------------------
    ctx.rule('R3.3f', 'FIELDS agrees with the ast module of the analysing interpreter: same field names in the same order, '
                      'same ASDL types (fields of newer grammars may be extra)', 100)
    for c, fs in F.items():
        py = getattr(c, 'pyclass', None)
        if not c.is_ast or py is None:
            continue
        sig = T.stdlib_signature(py)
        if sig is None:
            ctx.note(f'no ASDL signature for {c.name}')
            continue
        sigd = dict(sig)
        mine = [(f, t) for f, t in fs if f in sigd]
        extra = [f for f, t in fs if f not in sigd]
        order_ok = {f for f, _ in mine} == set(sigd)     # FIELDS is in syntax order, the ASDL signature is not

        def same(a, b):    # FIELDS refines 'expr*' to 'expr?*' for Dict.keys / kw_defaults (None elements)
            return a == b or (a.endswith('?*') and b == a[:-2] + '*')
        types_ok = all(same(t, sigd[f]) or (c.name, f) in KIND_EXCEPTIONS for f, t in mine)
        newer_ok = all(f in ('type_params', 'default_value', 'is_lazy', 'str') or (c.name, f) in KIND_EXCEPTIONS for f in extra)
        ctx.check('R3.3f', order_ok and types_ok and newer_ok, 'astutil', 'FIELDS', f'{c.name}: {[f for f, _ in fs]}',
                  f'FIELDS[{c.name}] = {list(fs)} disagrees with the interpreter grammar {sig}')

    check_accessors(ctx, F, allf)
    check_entry_points(ctx)
    from . import c03_idx
    c03_idx.check_raw_indices(ctx, PS, GS)


# ----------------------------------------------------------------------------------------------------------------------
# R3.4 generated accessors

def check_accessors(ctx, F, allf):
    ctx.rule('R3.4', 'generated field accessors: every field name of FIELDS has a property imported into class FST; getter / '
                     'setter / deleter use the property\'s own field name and the put form matching the field cardinality', 230)
    m = ctx.repo.mod('fst_accessors')
    env = ctx.ev.env('fst_accessors')
    names = env.get('__all__')
    if not isinstance(names, list) or len(names) < 70:
        raise AnalysisError('fst_accessors.__all__ did not evaluate')
    def factory_built(name):
        """[(function node, kind, label)] for an accessor bound by `name = factory('name')` where the factory returns
        `property(getter, setter, deleter)` of its nested functions: each nested function specialised for the literal argument."""
        import copy
        for st in m.tree.body:
            if isinstance(st, ast.Assign) and len(st.targets) == 1 and isinstance(st.targets[0], ast.Name) and st.targets[0].id == name and \
                    isinstance(st.value, ast.Call) and isinstance(st.value.func, ast.Name) and len(st.value.args) == 1 and \
                    isinstance(st.value.args[0], ast.Constant) and not st.value.keywords:
                facs = m.func(st.value.func.id)
                if len(facs) != 1 or isinstance(facs[0].node, ast.Lambda):
                    return []
                fac = facs[0].node
                ps = [a.arg for a in fac.args.posonlyargs + fac.args.args]
                rets = [r for r in walk_no_nested(fac) if isinstance(r, ast.Return)]
                if len(ps) != 1 or len(rets) != 1 or not (isinstance(rets[0].value, ast.Call) and call_name(rets[0].value) == 'property'):
                    return []
                inner = {d.name: d for d in fac.body if isinstance(d, ast.FunctionDef)}
                out = []
                for kind, a in zip(('getter', 'setter', 'deleter'), rets[0].value.args):
                    if not (isinstance(a, ast.Name) and a.id in inner):
                        return []
                    fn = copy.deepcopy(inner[a.id])
                    for x in ast.walk(fn):
                        for fld, val in ast.iter_fields(x):
                            if isinstance(val, ast.Name) and val.id == ps[0] and isinstance(val.ctx, ast.Load):
                                setattr(x, fld, ast.copy_location(ast.Constant(value=st.value.args[0].value), val))
                            elif isinstance(val, list):
                                for i, v in enumerate(val):
                                    if isinstance(v, ast.Name) and v.id == ps[0] and isinstance(v.ctx, ast.Load):
                                        val[i] = ast.copy_location(ast.Constant(value=st.value.args[0].value), v)
                    out.append((fn, kind, f'{name} (built by {st.value.func.id})'))
                return out
        return []

    factory_built_names = {nm: factory_built(nm) for nm in names if not m.func(nm)}
    ns = ctx.repo.fst_namespace()
    by_name: dict[str, set] = {}
    for (c, f), t in allf.items():
        by_name.setdefault(f, set()).add(T.card(t))
    for f in sorted(by_name):
        if f == 'lineno':
            continue   # TypeIgnore.lineno: FST.lineno is the position attribute, no field accessor by design
        ctx.check('R3.4', f in names and (f in ns or bool(factory_built_names.get(f))), 'fst_accessors', '__all__', f'field {f!r}',
                  f'AST field {f!r} has no accessor property on FST')
    for name in names:
        fis = m.func(name)
        variants = [(fi.node, fi.kind, fi.key.split('.', 1)[1]) for fi in fis
                    if not (fi.pyver and fi.pyver[1] is not None and name in ('type_params', 'default_value', 'is_lazy'))]
        # (dummy accessors for interpreters whose grammar lacks the field are skipped)
        if not fis:
            variants = factory_built(name)
            if not variants:
                ctx.bad('R3.4', 'fst_accessors', '__all__', name, 'name exported but no property defined')
                continue
        cards = by_name.get(name, set())
        for fn, kind, label in variants:
            # string literals naming a field, and self.a.<attr> reads
            lits = set()
            for n in walk_no_nested(fn):
                if isinstance(n, ast.Call):
                    cn = call_name(n)
                    if cn in ('_put_slice', '_put_one') and len(n.args) >= 1:
                        a = n.args[-1]
                        if isinstance(a, ast.Constant) and isinstance(a.value, str):
                            lits.add(a.value)
                        else:
                            lits.add('<non-literal>')
                    elif cn and cn.startswith('FSTView') and len(n.args) >= 2 and isinstance(n.args[1], ast.Constant):
                        lits.add(n.args[1].value)
                    elif cn == 'getattr' and len(n.args) >= 2 and norm(n.args[0]) == 'self.a':
                        lits.add(n.args[1].value if isinstance(n.args[1], ast.Constant) else '<non-literal>')
                elif isinstance(n, ast.Attribute) and isinstance(n.value, ast.Attribute) and n.value.attr == 'a' and \
                        isinstance(n.value.value, ast.Name) and n.value.value.id == 'self':
                    lits.add(n.attr)
            lits.discard('__class__')
            ctx.check('R3.4', lits <= {name}, 'fst_accessors', label, f'{name} {kind}: fields used {sorted(lits)}',
                      f'accessor for {name!r} reads or writes field(s) {sorted(lits - {name})}')
            if kind in ('setter', 'deleter'):
                calls = [n for n in walk_no_nested(fn) if isinstance(n, ast.Call) and call_name(n) in ('_put_slice', '_put_one')]
                forms = {call_name(c) for c in calls}
                want = set()
                if 'list' in cards:
                    want.add('_put_slice')
                if cards - {'list'}:
                    want.add('_put_one')
                ok = forms == want
                for c in calls:
                    a0 = c.args[0] if c.args else None
                    if kind == 'deleter':
                        ok = ok and isinstance(a0, ast.Constant) and a0.value is None
                    else:
                        ok = ok and isinstance(a0, ast.Name) and a0.id == 'code'
                    if call_name(c) == '_put_slice':
                        ok = ok and len(c.args) == 4 and isinstance(c.args[1], ast.Constant) and c.args[1].value == 0 and \
                            isinstance(c.args[2], ast.Constant) and c.args[2].value == 'end'
                    else:
                        ok = ok and len(c.args) == 3 and isinstance(c.args[1], ast.Constant) and c.args[1].value is None
                if len(want) == 2:
                    ok = ok and any(isinstance(n, ast.Call) and call_name(n) == 'isinstance' for n in walk_no_nested(fn))
                ctx.check('R3.4', ok, 'fst_accessors', label, f'{name} {kind}: {sorted(forms)}',
                          f'field {name!r} has cardinalities {sorted(cards)} in the grammar, which needs {sorted(want)} with '
                          f'(code|None, 0, "end", field) / (code|None, None, field); found {[norm(c) for c in calls]}')


# ----------------------------------------------------------------------------------------------------------------------
# R3.2 entry points: funnel + forwarding + sibling agreement

KERNEL = {'_put_one', '_put_slice', '_get_one', '_get_slice', '_reparse_raw'}

# public FST methods that edit the tree (name -> kernel functions they are expected to reach directly or through a sibling)
FST_ENTRY = ['replace', 'remove', 'insert', 'append', 'extend', 'prepend', 'prextend', 'put', 'put_slice', 'get',
             'get_slice', 'copy', 'cut', '__setitem__', '__delitem__', '__getitem__']


def _options_forwarded(call: ast.Call) -> bool:
    for a in call.args:
        if isinstance(a, ast.Name) and a.id == 'options':
            return True
        if isinstance(a, ast.Call) and any(isinstance(x, ast.Name) and x.id == 'options' for x in ast.walk(a)):
            return True
    for kw in call.keywords:
        if kw.arg is None and isinstance(kw.value, ast.Name) and kw.value.id == 'options':
            return True
        if kw.arg == 'options':
            return True
        if kw.arg is not None and any(isinstance(x, ast.Name) and x.id == 'options' for x in ast.walk(kw.value)):
            return True
    return False


def check_entry_points(ctx):
    ctx.rule('R3.2a', 'public mutating entry points on FST reach the tree only through the kernel '
                      '(_put_one/_put_slice/_get_one/_get_slice/_reparse_raw) or a sibling entry point, and forward '
                      '**options to it', 25)
    ns = ctx.repo.fst_namespace()
    direct_mut = ('_put_src', '_set_ast', '_set_field', '_offset', '_unmake_fst_tree', '_make_fst_tree')
    for name in FST_ENTRY:
        fis = ns.get(name)
        if not fis:
            raise AnalysisError(f'FST.{name} entry point not found')
        for fi in fis:
            fn = fi.node
            has_opts = fn.args.kwarg is not None and fn.args.kwarg.arg == 'options'
            kcalls = []
            for n in walk_no_nested(fn):
                if isinstance(n, ast.Call):
                    cn = call_name(n)
                    recv_is_tree = isinstance(n.func, ast.Attribute) and norm(n.func.value) not in ('options', 'kwargs')
                    if cn in KERNEL or (cn in FST_ENTRY and recv_is_tree):
                        kcalls.append(n)
                    if cn in direct_mut and isinstance(n.func, ast.Attribute) and isinstance(n.func.value, ast.Name) and n.func.value.id == 'self':
                        # the one legitimate direct mutation: replacing the *root* (no parent to put into), under the lock
                        in_with = any(isinstance(w, ast.With) and any('_modifying' in norm(i.context_expr) for i in w.items)
                                      and any(x is n for x in ast.walk(w)) for w in ast.walk(fn))
                        ctx.check('R3.2a', name == 'replace' and cn == '_set_ast' and in_with, fi.module, fi.qualname, n,
                                  f'public entry point FST.{name} mutates the tree directly ({cn}) instead of going through '
                                  f'the kernel', n.lineno)
            via_view = any(isinstance(n, ast.Subscript) and isinstance(n.value, ast.Call) and call_name(n.value) == 'getattr'
                           and len(n.value.args) == 2 and norm(n.value.args[0]) == 'self' for n in walk_no_nested(fn))
            ctx.check('R3.2a', bool(kcalls) or (name.startswith('__') and via_view), fi.module, fi.qualname,
                      f'FST.{name} -> {sorted({call_name(c) for c in kcalls}) or "view of default field"}',
                      f'entry point FST.{name} no longer reaches a kernel function (or the default-field view)', fn.lineno)
            if has_opts:
                for c in kcalls:
                    cn = call_name(c)
                    if cn in ('__getitem__',):
                        continue
                    ctx.check('R3.2a', _options_forwarded(c), fi.module, fi.qualname, c,
                              f'FST.{name}(**options) calls {cn} without forwarding `options`: per-call options are ignored on '
                              f'this entry point only', c.lineno, sample=norm(c))

    # sibling agreement between FST and FSTView insertion family: the `one` argument
    ctx.rule('R3.2b', 'insert/append/extend/prepend/prextend on FST and on FSTView pass the same slice bounds shape and '
                      'the same `one` argument to the kernel', 5)
    fam = {'insert': None, 'append': None, 'extend': None, 'prepend': None, 'prextend': None}
    vm = ctx.repo.class_methods('view', 'FSTView')
    for name in fam:
        shapes = {}
        for owner, fis in (('FST', ns.get(name, [])), ('FSTView', vm.get(name, []))):
            if not fis:
                raise AnalysisError(f'{owner}.{name} not found')
            fn = fis[0].node
            sig = []
            for n in walk_no_nested(fn):
                if isinstance(n, ast.Call) and call_name(n) in ('_put_slice', 'put_slice', '_put_one', 'put'):
                    one = None
                    args = list(n.args)
                    for kw in n.keywords:
                        if kw.arg == 'one':
                            one = norm(kw.value)
                    cn = call_name(n)
                    if one is None and cn in ('_put_slice',) and len(args) >= 5:
                        one = norm(args[4])
                    sig.append((cn.lstrip('_'), one))
            shapes[owner] = (sorted(set(sig), key=str), fis[0])
        a, fa = shapes['FST']
        b, fb = shapes['FSTView']
        ones_a = sorted({o for _, o in a if o is not None})
        ones_b = sorted({o for _, o in b if o is not None})
        ctx.check('R3.2b', ones_a == ones_b and bool(ones_a), fb.module, fb.qualname, f'{name}: FST one={ones_a} FSTView one={ones_b}',
                  f'FST.{name} and FSTView.{name} pass different `one` arguments to the kernel: the same request gives '
                  f'different structure depending on the entry point', fb.lineno, sample={'name': name, 'one': ones_a})

    # FSTView item assignment / deletion must carry the view's own field
    ctx.rule('R3.2c', 'every kernel call in FSTView (and subclasses) methods passes the view\'s own field (self.field or a '
                      'subclass constant), and the base node `self.base` as receiver', 12)
    vmod = ctx.repo.mod('view')
    for q, fis in vmod.funcs.items():
        if '.' not in q or '<locals>' in q:
            continue
        cls = q.split('.')[0]
        if not cls.startswith('FSTView'):
            continue
        for fi in fis:
            for n in walk_no_nested(fi.node):
                if isinstance(n, ast.Call) and call_name(n) in ('_put_slice', '_put_one', '_get_slice', '_get_one') and \
                        isinstance(n.func, ast.Attribute):
                    recv = norm(n.func.value)
                    cn = call_name(n)
                    # positional layout: _put_slice(code, start, stop, field, ...), _put_one(code, idx, field, ...),
                    # _get_slice(start, stop, field, ...), _get_one(idx, field, ...)
                    pos = {'_put_slice': 3, '_put_one': 2, '_get_slice': 2, '_get_one': 1}[cn]
                    farg = n.args[pos] if len(n.args) > pos else None
                    for kw in n.keywords:
                        if kw.arg == 'field':
                            farg = kw.value
                    ftxt = norm(farg) if farg is not None else '<missing>'
                    ok_field = ftxt in ('self.field', 'field') or (isinstance(farg, ast.Constant) and isinstance(farg.value, str))
                    ok_recv = recv in ('self.base', 'base', 'self_base') or recv.endswith('.base') or recv in ('fst_', 'ast.f', 'self')
                    ctx.check('R3.2c', ok_field and ok_recv, 'view', fi.qualname, n,
                              f'kernel call on receiver {recv!r} with field argument {ftxt!r}: a view must edit its own base node '
                              f'and field', n.lineno, sample=norm(n))
