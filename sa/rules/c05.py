"""C05 — parsing is lossless and agrees with Python's parser in every mode: structural clauses.

R5.1 mode registries: every literal of parsex.Mode is a key of _PARSE_MODE_FUNCS and _CODE_AS_MODE_FUNCS; the parse function a
     code_as_* function hands to the common driver is the one registered for the same mode; every leaf class resolves.
R5.2 wrapper / fix-up agreement: a wrapper parser embeds {src} in a template after n newlines at column 0; the line fix-up
     (_offset_linenos(ast, -n)) and the container location (_astloc_from_src(src, n + 1)) must agree with n.
R5.3 extraction completeness: the wrapper node (innermost node of the parsed template that has literal template text around
     {src}) has AST-valued fields; text supplied as `src` can populate or alter them (`a, b=1` in a call, `+ 1 for x in y` in a
     comprehension, `a if x` in a case).  The function must look at every such field (to extract it or to reject), or the
     wrapper silently drops / absorbs part of the source.
R5.5 result type of class modes: a mode that names an AST class K (the class or its name) whose registered parser also serves another mode
     (a base class, a broader named mode such as 'expr_arglike' / 'expr_slice') has the row K in the result-type table, and parse() /
     code_as() reject a result that is not an instance of the looked-up type.
R5.4 losslessness of construction: fromsrc hands the same `src` to the parser and (split into lines) to the root; FST.__new__
     stores the lines as bistr unchanged.
Not decided: position equality for arbitrary fragments (multi-byte text, comments, continuations) - value level.
"""
from __future__ import annotations

import ast

from ..model import AnalysisError, norm, walk_no_nested, call_name
from ..consteval import ClassTok, FuncTok, Unknown
from .. import tables as T

PROP = 'C05'

PLACEHOLDER = '__SRC__'
# filler (what stands in for {src}) candidates by hint in the function name; first that parses wins
FILLERS = [
    ('ExceptHandlers', ['except __SRC__: pass']),
    ('decorator', ['@__SRC__']),
    ('comprehension_ifs', ['if __SRC__']),
    ('comprehension', ['for __SRC__ in _']),
    ('BoolOp_dangling_left', ['and __SRC__']), ('BoolOp_dangling_right', ['__SRC__ and']),
    ('Compare_dangling_left', ['< __SRC__']), ('Compare_dangling_right', ['__SRC__ <']),
    ('Dict', ['__SRC__: _']), ('MatchMapping', ['1: __SRC__', '{1: __SRC__}']),
    ('', ['__SRC__', '__SRC__: _', '*__SRC__']),
]

# Generic source fragments tried in place of {src}.  They are not repository specific: each is a way Python text can continue,
# extend or escape from a syntactic position.  Whatever the stdlib parser makes of `template.replace({src}, probe)` tells which
# fields of the wrapper node text at {src} is able to populate or alter.
PROBES = [
    '__SRC__', '__SRC__=_', '*__SRC__', '**__SRC__', '__SRC__: _', '__SRC__ as _', '_ as __SRC__', '__SRC__, _', '_, __SRC__',
    '__SRC__, _=_', '__SRC__ if _', '_ if __SRC__', '_ if _ else __SRC__', '__SRC__ for _ in _', 'for __SRC__ in _', 'for _ in __SRC__',
    'for _ in _ if __SRC__', 'if __SRC__', 'for _ in _ for _ in __SRC__', '_ for _ in __SRC__',
    # extending a placeholder operand that the template put directly before / after {src}
    '+ __SRC__', '+ _ for __SRC__ in _', '.__SRC__', '.x for __SRC__ in _', '(__SRC__)', '[__SRC__]', '__SRC__ +', 'and __SRC__', '__SRC__ and',
    '< __SRC__', '__SRC__ <', '| __SRC__', '__SRC__ |',
    # closing the construct the template opened and opening another one
    '_)(__SRC__', '_][__SRC__', '_) -> (__SRC__', '_: __SRC__', '_ = __SRC__', '_: _ = __SRC__', '_](_)[__SRC__', '_].x[__SRC__', '_).x(__SRC__', '_)[_](__SRC__',
    'except __SRC__: pass', 'except: pass\nelse: __SRC__', 'except: pass\nfinally: __SRC__', 'except: pass\nelse: pass\nfinally: __SRC__',
    '@__SRC__', '@_\nclass _(__SRC__): pass\n@_', '_: pass\n case __SRC__', '__SRC__: pass\n case _',
    '_, *__SRC__', '_, /, __SRC__', '*, __SRC__', '_=__SRC__', '_, **__SRC__', '1: __SRC__', '{1: __SRC__}', '1: _, **__SRC__',
]

# (function, wrapper class, field) that need not be inspected, with the reason (reviewed by reading the grammar)
NOT_AFFECTABLE = {
    ('parse__ExceptHandlers', 'Try', 'finalbody'):
        "only the second template 'try: pass\\n{src}' lets src add a finally block, and that template is a diagnostic re-parse whose "
        "result is never returned (every path after it raises ParseError / re-raises)",
}


def templates(ctx):
    """[(FuncInfo, JoinedStr node, template text with {src} marker, n newlines before, column of {src})]"""
    out = []
    m = ctx.repo.mod('parsex')
    for q, fis in m.funcs.items():
        for fi in fis:
            if isinstance(fi.node, ast.Lambda):
                continue
            for x in walk_no_nested(fi.node):
                if isinstance(x, ast.JoinedStr) and any(isinstance(v, ast.FormattedValue) and norm(v.value) == 'src' for v in x.values):
                    parts = []
                    ok = True
                    for v in x.values:
                        if isinstance(v, ast.Constant):
                            parts.append(v.value)
                        elif norm(v.value) == 'src':
                            parts.append('\0')
                        else:
                            ok = False
                    if not ok or parts.count('\0') != 1:
                        raise AnalysisError(f'{fi.key}: template with more than {{src}} interpolated: {norm(x)}')
                    text = ''.join(parts)
                    pre = text[:text.index('\0')]
                    n = pre.count('\n')
                    col = len(pre) - (pre.rfind('\n') + 1)
                    out.append((fi, x, text, n, col))
    return out


def parse_template(fi, text):
    """-> (tree, filler text, offset of filler in full text) using the first filler that parses."""
    hints = [f for h, f in FILLERS if h and h in fi.qualname] + [FILLERS[-1][1]]
    for fl in hints:
        for filler in fl:
            full = text.replace('\0', filler)
            try:
                tree = ast.parse(full)
            except SyntaxError:
                continue
            return tree, filler, text.index('\0'), full
    return None


def node_span(node, full_lines):
    """(start offset, end offset) of a node in the full text; nodes without a position get the hull of their children."""
    def off(line, col_bytes):
        s = sum(len(l) + 1 for l in full_lines[:line - 1])
        return s + len(full_lines[line - 1].encode()[:col_bytes].decode())
    if hasattr(node, 'lineno') and getattr(node, 'end_lineno', None) is not None:
        return off(node.lineno, node.col_offset), off(node.end_lineno, node.end_col_offset)
    spans = [node_span(c, full_lines) for c in ast.iter_child_nodes(node)]
    spans = [s for s in spans if s]
    if not spans:
        return None
    return min(s[0] for s in spans), max(s[1] for s in spans)


def wrapper_of(tree, filler, foff, full):
    """Innermost ancestor of the placeholder whose own text has literal (non-blank, non-filler) characters next to the filler."""
    lines = full.split('\n')
    target = None
    for n in ast.walk(tree):
        if isinstance(n, ast.Name) and n.id == PLACEHOLDER:
            target = n
        elif isinstance(n, (ast.MatchAs, ast.MatchStar)) and getattr(n, 'name', None) == PLACEHOLDER:
            target = n
        elif isinstance(n, ast.arg) and n.arg == PLACEHOLDER:
            target = n
        elif isinstance(n, ast.alias) and n.name == PLACEHOLDER:
            target = n
        elif isinstance(n, ast.TypeVar) and n.name == PLACEHOLDER:
            target = n
        elif isinstance(n, ast.keyword) and n.arg == PLACEHOLDER:
            target = n
    if target is None:
        return None
    parents = {}
    for n in ast.walk(tree):
        for c in ast.iter_child_nodes(n):
            parents[c] = n
    fend = foff + len(filler)
    chain = []
    cur = target
    while cur in parents:
        p = parents[cur]
        fld = next((f for f, v in ast.iter_fields(p) if v is cur or (isinstance(v, list) and any(x is cur for x in v))), None)
        chain.append((p, fld))
        cur = p
    for p, fld in chain:
        if isinstance(p, ast.Module):
            break
        sp = node_span(p, lines)
        if not sp:
            continue
        before = full[sp[0]:foff].strip()
        after = full[fend:sp[1]].strip()
        if before or after:
            return p, fld, chain
    return None


def wrapper_path(tree, wnode):
    """[(field, index | None)] from the module to wnode."""
    def rec(n, path):
        if n is wnode:
            return path
        for f, v in ast.iter_fields(n):
            if isinstance(v, ast.AST):
                r = rec(v, path + [(f, None)])
                if r is not None:
                    return r
            elif isinstance(v, list):
                for i, x in enumerate(v):
                    if isinstance(x, ast.AST):
                        r = rec(x, path + [(f, i)])
                        if r is not None:
                            return r
        return None
    return rec(tree, [])


def follow_path(tree, path):
    n = tree
    for f, i in path:
        v = getattr(n, f, None)
        if i is not None:
            if not isinstance(v, list) or i >= len(v):
                return None
            v = v[i]
        if not isinstance(v, ast.AST):
            return None
        n = v
    return n


def field_dumps(node):
    """{field: structural dump with every identifier normalised} for AST-valued fields."""
    out = {}
    for f, v in ast.iter_fields(node):
        if isinstance(v, ast.AST) or (isinstance(v, list) and (not v or isinstance(v[0], ast.AST) or v[0] is None)):
            d = ast.dump(v) if isinstance(v, ast.AST) else '[' + ', '.join(ast.dump(x) if isinstance(x, ast.AST) else 'None' for x in v) + ']'
            d = d.replace(PLACEHOLDER, '_')
            out[f] = d
        elif v is None:
            out[f] = 'None'
    return out


def run(ctx):
    F = T.fields(ctx)
    ctx.not_decided += ['position equality of parsed fragments with the enclosing construct for arbitrary text (multi-byte, comments, '
                        'continuation lines)', 'that invalid source is rejected in every mode (only wrapper-absorption is decided)']
    check_registries(ctx, F)
    check_result_types(ctx, F)
    tpls = templates(ctx)
    if len(tpls) < 40:
        raise AnalysisError(f'only {len(tpls)} wrapper templates found in parsex.py')
    check_fixups(ctx, tpls)
    check_extraction(ctx, tpls, F)
    check_construction(ctx)


# ----------------------------------------------------------------------------------------------------------------------

def check_registries(ctx, F):
    ctx.rule('R5.1', 'every Mode literal is a key of _PARSE_MODE_FUNCS and _CODE_AS_MODE_FUNCS; each code_as_<mode> passes the parse '
                     'function registered for <mode>; every leaf class of the grammar resolves to a parser (or an explicit None)', 300)
    m = ctx.repo.mod('parsex')
    mode_node = None
    for st in m.tree.body:
        if isinstance(st, ast.Assign) and norm(st.targets[0]) == 'Mode':
            mode_node = st.value
    if mode_node is None:
        raise AnalysisError('parsex.Mode not found')
    modes = [c.value for c in ast.walk(mode_node) if isinstance(c, ast.Constant) and isinstance(c.value, str)]
    if len(modes) < 40:
        raise AnalysisError(f'parsex.Mode lists only {len(modes)} literals')
    P = ctx.ev.get('parsex', '_PARSE_MODE_FUNCS')
    C = ctx.ev.get('code', '_CODE_AS_MODE_FUNCS')
    for md in modes:
        ctx.check('R5.1', md in P and isinstance(P[md], FuncTok), 'parsex', '_PARSE_MODE_FUNCS', f'mode {md!r}',
                  f'documented parse mode {md!r} has no parser registered: FST(src, {md!r}) raises or falls through to another mode')
        ctx.check('R5.1', md in C and (C[md] is None or isinstance(C[md], FuncTok)), 'code', '_CODE_AS_MODE_FUNCS', f'mode {md!r}',
                  f'documented parse mode {md!r} has no code_as entry: puts / coercions to that mode are refused')
    for c in F:
        if (c.is_ast and getattr(c, 'pyclass', None) is None) or any(b.name == '_ASTDummy' for b in c.mro()[1:]):
            continue      # class of a newer grammar than the analysing interpreter (dummy stand-in, not parseable here)
        for tn, tab, mod in (('_PARSE_MODE_FUNCS', P, 'parsex'), ('_CODE_AS_MODE_FUNCS', C, 'code')):
            ok = (c in tab and c.name in tab)
            ctx.check('R5.1', ok, mod, tn, f'class {c.name}', f'{c.name} (and its name) must resolve in {tn} after the inheritance fill')
    # agreement of code_as_X with parse_X
    cm = ctx.repo.mod('code')
    for md, tok in C.items():
        if not isinstance(tok, FuncTok) or not isinstance(md, str):
            continue
        ptok = P.get(md)
        fis = cm.func(tok.qualname)
        if not fis or not isinstance(ptok, FuncTok):
            continue
        used = set()
        for n in walk_no_nested(fis[0].node):
            if isinstance(n, ast.Name) and n.id.startswith('parse_') or isinstance(n, ast.Name) and n.id.startswith('parse__'):
                used.add(n.id)
            if isinstance(n, ast.Attribute) and n.attr.startswith('parse_'):
                used.add(n.attr)
        used.discard('parse_params')
        if not used:
            continue     # delegates to another code_as function
        # statement-container modes share one code_as: 'exec' / 'Module' / 'stmts' / 'strict' all produce a Module of statements
        equiv = {'parse_stmts', 'parse_Module', 'parse_strict'}
        if ptok.name in equiv and used & equiv:
            ctx.ok('R5.1', f'code|{tok.qualname}|mode {md!r} statement container')
            continue
        ctx.check('R5.1', ptok.name in used, 'code', tok.qualname, f'mode {md!r}: {tok.name} uses {sorted(used)}',
                  f'{tok.name} is registered for mode {md!r} but parses with {sorted(used)} instead of {ptok.name}: source given as a string '
                  f'is parsed under a different mode than FST(src, {md!r}) would use', fis[0].lineno)


def check_fixups(ctx, tpls):
    ctx.rule('R5.2', 'for a template that puts {src} at column 0 after n newlines: every _offset_linenos(x, d) in the function has d == -n, '
                     'every _astloc_from_src(src, k) has k == n + 1; a template with {src} at a non-zero column has an explicit column '
                     'compensation', 35)
    by_func = {}
    for fi, node, text, n, col in tpls:
        by_func.setdefault(fi.key, (fi, []))[1].append((node, text, n, col))
    for key, (fi, lst) in by_func.items():
        ns = {n for _, _, n, _ in lst}
        cols = {c for _, _, _, c in lst}
        offs = [c for c in walk_no_nested(fi.node) if isinstance(c, ast.Call) and call_name(c) == '_offset_linenos']
        locs = [c for c in walk_no_nested(fi.node) if isinstance(c, ast.Call) and call_name(c) == '_astloc_from_src']
        for c in offs:
            d = c.args[1] if len(c.args) > 1 else None
            val = None
            if isinstance(d, ast.UnaryOp) and isinstance(d.op, ast.USub) and isinstance(d.operand, ast.Constant):
                val = -d.operand.value
            elif isinstance(d, ast.Constant):
                val = d.value
            ok = val is not None and -val in ns
            ctx.check('R5.2', ok, fi.module, fi.qualname, c,
                      f'line fix-up {norm(d) if d is not None else "?"} does not match the {sorted(ns)} line(s) the template(s) put before {{src}}: '
                      f'every position of the parsed fragment is off by whole lines', c.lineno, sample={'function': fi.qualname, 'newlines_before_src': sorted(ns)})
        for c in locs:
            k = c.args[1] if len(c.args) > 1 else None
            kval = 1 if k is None else (k.value if isinstance(k, ast.Constant) else None)
            later = [x for x in offs if x.lineno > c.lineno or (x.lineno == c.lineno and x.col_offset > c.col_offset)]
            dvals = []
            for x in later:
                d = x.args[1] if len(x.args) > 1 else None
                if isinstance(d, ast.UnaryOp) and isinstance(d.op, ast.USub) and isinstance(d.operand, ast.Constant):
                    dvals.append(-d.operand.value)
                elif isinstance(d, ast.Constant):
                    dvals.append(d.value)
            # the container must end up starting at line 1: either it is built at line 1 with no later shift, or at line 1 - d
            # and shifted by d afterwards
            ok = kval is not None and ((not later and kval == 1) or (later and all(kval + d == 1 for d in dvals) and len(dvals) == len(later)))
            ctx.check('R5.2', ok, fi.module, fi.qualname, c,
                      f'container location starts at line {kval} and is shifted afterwards by {dvals or "nothing"}: the SPECIAL SLICE container would '
                      f'not start at line 1 of the fragment', c.lineno)
        for col in cols:
            if col != 0:
                ok = any(isinstance(x, ast.Attribute) and x.attr in ('col_offset', 'end_col_offset') and isinstance(x.ctx, ast.Store)
                         for x in ast.walk(fi.node)) or \
                    any(isinstance(x, ast.keyword) and x.arg in ('col_offset', 'end_col_offset') for x in ast.walk(fi.node))
                ctx.check('R5.2', ok, fi.module, fi.qualname, f'{{src}} at column {col}',
                          f'the template places {{src}} at column {col} but the function never compensates columns', fi.lineno)
        if not offs and not locs:
            ctx.ok('R5.2', f'{fi.module}|{fi.qualname}|no line fix-up needed (n={sorted(ns)})')


def check_extraction(ctx, tpls, F):
    ctx.rule('R5.3', 'every AST-valued field of the wrapper node of a template is read by the wrapper parser (extracted or checked), '
                     'unless text at {src} cannot populate or alter it (reviewed table)', 40)
    fields_of = {c.name: [f for f, t in fs if T.is_ast_type(t)] for c, fs in F.items()}
    seen = set()
    n_templates = 0
    for fi, node, text, n, col in tpls:
        r = parse_template(fi, text)
        if r is None:
            raise AnalysisError(f'{fi.key}: could not parse wrapper template {text!r} with any filler')
        tree, filler, foff, full = r
        w = wrapper_of(tree, filler, foff, full)
        if w is None:
            raise AnalysisError(f'{fi.key}: no wrapper node found for template {text!r}')
        wnode, wfield, chain = w
        n_templates += 1
        wcls = type(wnode).__name__
        # attribute names read anywhere in the function, plus the field checked through _ast_parse1(..., child_field=...)
        reads = {x.attr for x in walk_no_nested(fi.node) if isinstance(x, ast.Attribute)}
        for c in walk_no_nested(fi.node):
            if isinstance(c, ast.Call) and call_name(c) in ('_ast_parse1',):
                if len(c.args) >= 4:
                    cf = c.args[4].value if len(c.args) >= 5 and isinstance(c.args[4], ast.Constant) else 'value'
                    reads.add(cf)
                for kw in c.keywords:
                    if kw.arg == 'child_field' and isinstance(kw.value, ast.Constant):
                        reads.add(kw.value.value)
            if isinstance(c, ast.Call) and call_name(c) == 'getattr' and len(c.args) >= 2 and isinstance(c.args[1], ast.Constant):
                reads.add(c.args[1].value)
        # helper functions the parser delegates the wrapper to (e.g. _fix_undelimited_seq_parsed_delimited) count as readers
        for c in walk_no_nested(fi.node):
            if isinstance(c, ast.Call) and isinstance(c.func, ast.Name):
                for h in ctx.repo.find_funcs('parsex', c.func.id):
                    if not isinstance(h.node, ast.Lambda) and not c.func.id.startswith('parse'):
                        reads |= {x.attr for x in walk_no_nested(h.node) if isinstance(x, ast.Attribute)}
        # path of the wrapper node from the module root in the primary parse
        path = wrapper_path(tree, wnode)
        base_fields = field_dumps(wnode)
        affected = {}        # field -> probe text that altered it
        for probe in PROBES:
            full2 = text.replace('\0', probe)
            try:
                t2 = ast.parse(full2)
            except SyntaxError:
                continue
            if len(t2.body) != len(tree.body):
                continue          # multiple statements: rejected by the single-statement check of every wrapper parser
            n2 = follow_path(t2, path)
            if n2 is None or type(n2) is not type(wnode):
                continue
            d2 = field_dumps(n2)
            for g, dump in d2.items():
                if dump != base_fields.get(g) and g not in affected:
                    affected[g] = probe
        # literal placeholder operands of the template (`_`, `f`, `a`, `c`, `t`): text at {src} must not be able to grow them
        for pn in ast.walk(tree):
            if isinstance(pn, ast.Name) and pn.id in ('_', 'f', 'a', 'c', 't') and isinstance(pn.ctx, ast.Load):
                psp = node_span(pn, full.split('\n'))
                if psp is None or not (psp[1] <= foff or psp[0] >= foff + len(filler)):
                    continue      # part of the filler, not of the template
                ppath = wrapper_path(tree, pn)
                if not ppath:
                    continue
                link = ppath[-1][0]
                grown = {}          # class the placeholder can be turned into -> probe that does it
                for probe in PROBES:
                    try:
                        t2 = ast.parse(text.replace('\0', probe))
                    except SyntaxError:
                        continue
                    if len(t2.body) != len(tree.body):
                        continue
                    n2 = follow_path(t2, ppath)
                    par2 = follow_path(t2, ppath[:-1])
                    if par2 is None or type(par2) is not type(follow_path(tree, ppath[:-1])):
                        continue
                    if n2 is not None and not (isinstance(n2, ast.Name) and n2.id == pn.id):
                        grown.setdefault(type(n2).__name__, probe)
                # R5.3b: a guard that refuses the grown placeholder by naming the class it grew into has to name every class it can grow into
                # (`ast.value.__class__ is Subscript` refuses `b][c` and lets `b].x[c`, `b](d)[c` through); `is not Name` names them all
                if len(grown) > 1:
                    par_f = None
                    for cmp_ in walk_no_nested(fi.node):
                        if not (isinstance(cmp_, ast.Compare) and len(cmp_.ops) == 1 and isinstance(cmp_.ops[0], (ast.Is, ast.In, ast.Eq)) and
                                isinstance(cmp_.left, ast.Attribute) and cmp_.left.attr == '__class__' and
                                isinstance(cmp_.left.value, ast.Attribute) and cmp_.left.value.attr == link):
                            continue
                        named = {y.id for y in ast.walk(cmp_.comparators[0]) if isinstance(y, ast.Name)}
                        if not named or not (named & set(grown)):
                            continue
                        from ..struct import parent_map, enclosing_tests
                        par_f = par_f or parent_map(fi.node)
                        # the test guards a raise: find the If it belongs to
                        cur = cmp_
                        while cur in par_f and not isinstance(par_f[cur], ast.If):
                            cur = par_f[cur]
                        iff = par_f.get(cur)
                        if not (isinstance(iff, ast.If) and any(isinstance(b, ast.Raise) for b in iff.body)):
                            continue
                        k3 = (fi.qualname, 'guard', link)
                        if k3 in seen:
                            continue
                        seen.add(k3)
                        missing = sorted(set(grown) - named)
                        ctx.check('R5.3', not missing, fi.module, fi.qualname,
                                  f'guard on grown placeholder `{pn.id}` ({link}): {norm(cmp_, 60)}',
                                  f'the guard refuses the template placeholder `{pn.id}` when text at {{src}} has turned it into {sorted(named & set(grown))}, '
                                  f'but such text can also turn it into {missing} (e.g. src = {grown[missing[0]]!r}' if missing else 'ok',
                                  cmp_.lineno, sample={'function': fi.qualname, 'link': link, 'can_grow_into': sorted(grown), 'guard_names': sorted(named)})
                for probe in PROBES:
                    try:
                        t2 = ast.parse(text.replace('\0', probe))
                    except SyntaxError:
                        continue
                    if len(t2.body) != len(tree.body):
                        continue
                    n2 = follow_path(t2, ppath)
                    par2 = follow_path(t2, ppath[:-1])
                    if par2 is None or type(par2) is not type(follow_path(tree, ppath[:-1])):
                        continue
                    if n2 is not None and not (isinstance(n2, ast.Name) and n2.id == pn.id):
                        key = (fi.qualname, type(par2).__name__, link)
                        if key in seen:
                            break
                        seen.add(key)
                        ctx.check('R5.3', link in reads, fi.module, fi.qualname,
                                  f'placeholder `{pn.id}` in {type(par2).__name__}.{link} (template {text.replace(chr(0), "{src}")!r})',
                                  f'text at {{src}} can grow the template placeholder `{pn.id}` (e.g. src = {probe!r} turns {type(par2).__name__}.{link} '
                                  f'into a {type(n2).__name__}), but {fi.qualname} never checks that field: the extra source is absorbed by the '
                                  f'wrapper and silently dropped', node.lineno, sample={'function': fi.qualname, 'placeholder': pn.id, 'link': link, 'probe': probe})
                        break
        for g in fields_of.get(wcls, []):
            if g == 'ctx' or g not in affected:
                continue
            key = (fi.qualname, wcls, g)
            if key in seen:
                continue
            seen.add(key)
            if key in NOT_AFFECTABLE:
                ctx.ok('R5.3', f'{fi.qualname}|{wcls}.{g}|reviewed: {NOT_AFFECTABLE[key][:60]}')
                continue
            ex = text.replace('\0', affected[g])
            ctx.check('R5.3', g in reads, fi.module, fi.qualname, f'wrapper {wcls}.{g} (template {text.replace(chr(0), "{src}")!r})',
                      f'text at {{src}} can populate or alter {wcls}.{g} (e.g. src = {affected[g]!r} parses inside the wrapper), but '
                      f'{fi.qualname} never looks at that field: such source is accepted and the extra part silently dropped or absorbed '
                      f'(parsed into something else because of the wrapper)', node.lineno,
                      sample={'function': fi.qualname, 'wrapper': wcls, 'field': g, 'src_lands_in': wfield, 'probe': affected[g]})
    ctx.extra['templates_analysed'] = n_templates


def check_construction(ctx):
    ctx.rule('R5.4', 'FST.fromsrc: the text handed to the parser and the lines handed to the root both derive from the same `src` by '
                     'split / join on newlines only; FST.__new__ stores lines as bistr unchanged', 2)
    fs = ctx.repo.funcs('fst', 'FST.fromsrc')[0]
    fn = fs.node
    # structural: parse(<S>, ...) and FST(<ast>, <L>, ...) where on every binding <L> == <S>.split('\n') or <S> == '\n'.join(<L>)
    parse_calls = [c for c in walk_no_nested(fn) if isinstance(c, ast.Call) and call_name(c) == 'parse' and c.args and isinstance(c.args[0], ast.Name)]
    ctor = [c for c in walk_no_nested(fn) if isinstance(c, ast.Call) and call_name(c) in ('FST', 'cls') and len(c.args) >= 2 and isinstance(c.args[1], ast.Name)]
    ok = len(parse_calls) == 1 and len(ctor) >= 1
    why = 'parser call / root construction not found'
    if ok:
        S, L = parse_calls[0].args[0].id, ctor[-1].args[1].id
        asg = {}
        for n in walk_no_nested(fn):
            if isinstance(n, ast.Assign) and isinstance(n.targets[0], ast.Name):
                asg.setdefault(n.targets[0].id, []).append(n.value)

        def is_split(v, of):
            return isinstance(v, ast.Call) and isinstance(v.func, ast.Attribute) and v.func.attr == 'split' and norm(v.func.value) == of and \
                len(v.args) == 1 and isinstance(v.args[0], ast.Constant) and v.args[0].value == '\n'

        def is_join(v, of):
            return isinstance(v, ast.Call) and isinstance(v.func, ast.Attribute) and v.func.attr == 'join' and isinstance(v.func.value, ast.Constant) and \
                v.func.value.value == '\n' and len(v.args) == 1 and norm(v.args[0]) == of

        params = fs.params()
        for v in asg.get(L, []):
            if not (is_split(v, S) or (isinstance(v, ast.Name) and v.id in params and any(is_join(j, L) or is_join(j, v.id) for j in asg.get(S, [])))):
                ok, why = False, f'lines `{L}` bound to {norm(v, 50)}: neither `{S}.split("\\n")` nor the caller\'s own line list joined into `{S}`'
        for v in asg.get(S, []):
            if not is_join(v, L):
                ok, why = False, f'text `{S}` rebound to {norm(v, 50)}: the parser would see other text than the tree keeps'
        if not asg.get(L):
            ok, why = False, f'lines `{L}` never derived from the source text'
    ctx.check('R5.4', ok, 'fst', 'FST.fromsrc', 'parse(S) and root lines L with L == S.split / S == join(L)',
              f'fromsrc must pass the identical text to the parser and to the tree ({why})', fs.lineno)
    nw = ctx.repo.funcs('fst', 'FST.__new__')[0]
    stores = [n for n in walk_no_nested(nw.node) if isinstance(n, ast.Assign) and norm(n.targets[0]) == 'self._lines']
    okb = bool(stores) and all(any(isinstance(x, ast.Call) and call_name(x) == 'bistr' for x in ast.walk(n.value)) for n in stores)
    ctx.check('R5.4', okb, 'fst', 'FST.__new__', 'lines stored as bistr', 'root lines must be stored as bistr (byte-indexable) of the given lines', nw.lineno)


def check_result_types(ctx, F):
    """R5.5: `FST(src, Starred)` must give a Starred or raise.  The parser registered for a class mode is, for most classes, the parser of
    a broader mode (every expr leaf -> parse_expr, Starred -> parse_expr_arglike, Slice -> parse_expr_slice ...), so the narrowing is done
    by parse() / code_as() against a table of result types.  Decided: the table has the row for every class whose parser is not dedicated
    to it, and both consumers test the result against the looked-up type in a raising guard."""
    ctx.rule('R5.5', 'every AST-class parse mode whose parser also serves another mode has its result type registered, and parse() / code_as() '
                     'reject a result that is not an instance of it', 150)
    P = ctx.ev.get('parsex', '_PARSE_MODE_FUNCS')
    R = ctx.ev.get('parsex', '_AST_TYPE_BY_NAME_OR_TYPE')
    if not isinstance(R, dict) or not isinstance(P, dict):
        raise AnalysisError('parsex._AST_TYPE_BY_NAME_OR_TYPE / _PARSE_MODE_FUNCS did not evaluate to tables (anchor vanished)')
    served = {}
    for k, v in P.items():
        if isinstance(v, FuncTok):
            served.setdefault((v.module, v.qualname), []).append(k)
    for c in F:
        if (c.is_ast and getattr(c, 'pyclass', None) is None) or any(b.name == '_ASTDummy' for b in c.mro()[1:]):
            continue
        tok = P.get(c)
        if not isinstance(tok, FuncTok):
            continue          # explicitly not parseable (None)
        others = [k for k in served[(tok.module, tok.qualname)] if k != c and k != c.name]
        for key in (c, c.name):
            if key not in P:
                continue
            ok = R.get(key) == c
            if not ok and not others:
                ctx.ok('R5.5', f'parsex|mode {c.name}|dedicated parser {tok.name}')
                continue
            ctx.check('R5.5', ok, 'parsex', '_AST_TYPE_BY_NAME_OR_TYPE', f'result type of mode {key if isinstance(key, str) else c.name!r}'
                      f' ({"name" if isinstance(key, str) else "class"} key)',
                      f'mode {c.name} is parsed by {tok.name}, which also serves {[getattr(o, "name", o) for o in others][:4]} and can return other '
                      f'node types, but no result type {c.name} is registered for it: source that is not a {c.name} is accepted and comes back '
                      f'as another node type instead of being rejected')
    # the consumers
    for mod, q in (('parsex', 'parse'), ('code', 'code_as')):
        fis = ctx.repo.find_funcs(mod, q)
        if not fis:
            raise AnalysisError(f'{mod}.{q} not found (anchor vanished)')
        for fi in fis:
            looked = set()
            for x in walk_no_nested(fi.node):
                v = None
                if isinstance(x, ast.Assign) and len(x.targets) == 1 and isinstance(x.targets[0], ast.Name):
                    tg, v = x.targets[0].id, x.value
                elif isinstance(x, ast.NamedExpr):
                    tg, v = x.target.id, x.value
                if v is not None and any(isinstance(y, ast.Name) and y.id == '_AST_TYPE_BY_NAME_OR_TYPE' for y in ast.walk(v)):
                    looked.add(tg)
            guarded = False
            for x in walk_no_nested(fi.node):
                if isinstance(x, ast.If) and any(isinstance(s, ast.Raise) for s in x.body):
                    for c in ast.walk(x.test):
                        if isinstance(c, ast.Call) and call_name(c) == 'isinstance' and len(c.args) == 2 and \
                                isinstance(c.args[1], ast.Name) and c.args[1].id in looked:
                            guarded = True
            ctx.check('R5.5', guarded, fi.module, fi.qualname, 'isinstance(result, <registered result type>) guard',
                      f'{q}() does not reject a result that is not an instance of the type registered for the mode: a class mode returns whatever '
                      f'the shared parser produced', fi.lineno, sample={'function': fi.key, 'lookup_locals': sorted(looked)})
