"""C06 — every reported location denotes exactly the text of its node: structural clauses.

R6.1 byte / character units: qualifier inference over all column expressions of the package; a BYTE value must not reach a
     CHAR sink (string index / slice bound, c2b argument, regex / startswith position, fstloc column, `col` parameters) and a
     CHAR value must not reach a BYTE sink (col_offset / end_col_offset stores and keywords, b2c argument, `*col_offset`
     parameters); BYTE +- CHAR arithmetic is a finding except for the frozen deliberate deltas.
R6.2 computed-location coverage: _LOC_FUNCS has a function for every class of the grammar that has no position attributes in
     the ast module (minus the frozen "no location by design" set).
R6.3 line / column pairing: a store to X.end_col_offset that is guarded by a line comparison must be guarded by X.end_lineno,
     a store to X.col_offset by X.lineno (a column belongs to the line of the same end of the node).
R6.4 line / column pairing of conversions: in `lines[<P>ln].c2b(<Q>col)` / `lines[<P>ln][<Q>col ...]` the column belongs to the line
     (same name prefix: end_ln with end_col, ...).
R6.5 lexicographic order: two (line, column) positions are never ordered by comparing lines and columns independently
     (`l1 < l2 or c1 < c2`); one reviewed site where an invariant makes the expression an inequality test.
Not decided: correctness of the source scans (next_frag, pars(), _loc_*), find_*loc against brute force (depend on the text).
"""
from __future__ import annotations

import ast

from ..model import AnalysisError, norm, walk_no_nested, call_name
from ..consteval import ClassTok, FuncTok
from ..callgraph import Resolver
from ..units import Units, name_unit, BYTE_ATTRS
from ..struct import parent_map, enclosing_tests
from .. import tables as T

PROP = 'C06'

# deliberate BYTE - CHAR deltas: (module, function, normalised expression) -> reason
DELTA_OK = {
    ('fst_raw', '_reparse_raw_stmtlike', 'lines[pln].c2b(pcol) - pcol'):
        'first_line_col_delta is by definition the byte-minus-character difference of the text before the statement on its line',
}
# reviewed unit conversions that are harmless by construction: (module, function, normalised construct prefix) -> reason
REVIEWED = {
    ('fst_get_slice', '_bounds_decorator_list', 'self.root._lines[bound_ln].lenbytes in bound_col'):
        'bound_col is only an upper bound meaning "end of the line above"; every use slices or compares, a column >= the line length '
        'denotes end of line, and the byte length is never smaller than the character length',
}
LINE_TEXT_BASES = ('lines', 'ls', 'put_lines', 'fst_lines', 'new_lines', 'copy_lines', 'src_lines')
# classes without a location by design
NO_LOC = {'Module', 'Interactive', 'Expression', 'FunctionType', 'Load', 'Store', 'Del', 'TypeIgnore'}


def run(ctx):
    ctx.not_decided += ['correctness of the source scans that compute locations (next_frag / prev_frag / pars() / _loc_*) on arbitrary layouts',
                        'find_loc / find_contains_loc / find_in_loc against a brute-force scan', 'children-inside-parents / sibling order on concrete trees']
    ctx.assumptions = ['naming conventions: *col_offset / lenbytes are bytes; col / end_col / *_col / bcol are characters; line strings are bistr']
    res = Resolver(ctx.repo, ctx.ev)
    ctx.rule('R6.1', 'no BYTE value reaches a CHAR sink, no CHAR value reaches a BYTE sink, no BYTE +- CHAR arithmetic (unit inference over '
                     'every function of the package)', 400)
    n_funcs = 0
    for fi in ctx.repo.all_funcs():
        if isinstance(fi.node, ast.Lambda) or fi.module in ('asttypes', 'fst_type_predicates', 'traverse_next', 'traverse_prev', '__main__', '__init__'):
            continue
        n_funcs += 1
        check_units(ctx, fi, res)
    ctx.extra['functions_unit_checked'] = n_funcs

    # ---- R6.2 -------------------------------------------------------------------------------------------------------
    ctx.rule('R6.2', '_LOC_FUNCS covers exactly the grammar classes whose ast class has no position attributes (minus the no-location set)', 25)
    F = T.fields(ctx)
    L = ctx.ev.get('fst', '_LOC_FUNCS')
    have = {k.name for k in L if isinstance(k, ClassTok)}
    for c in F:
        py = getattr(c, 'pyclass', None)
        if py is None or not c.is_ast:
            continue
        if not getattr(py, '_attributes', ()) and c.name not in NO_LOC:
            ctx.check('R6.2', c.name in have and isinstance(L.get(c), FuncTok), 'fst', '_LOC_FUNCS', f'{c.name}',
                      f'{c.name} nodes get no position from the parser and have no computed-location function: .loc is None for them')
    for k, v in L.items():
        ctx.check('R6.2', isinstance(v, FuncTok) and bool(ctx.repo.mod(v.module).func(v.qualname)), 'fst', '_LOC_FUNCS', f'{getattr(k, "name", k)} -> {getattr(v, "name", v)}',
                  'location function does not resolve')

    # ---- R6.7 -------------------------------------------------------------------------------------------------------
    ctx.rule('R6.7', 'the location filters of the traversal (`all=False`, `all=\'loc\'`) let through only classes that have a location: position '
                     'attributes from the parser, a computed-location function, or a whole-source root', 2)
    located = {c.name for c in F if getattr(c, 'pyclass', None) is not None and c.is_ast and
               (getattr(c.pyclass, '_attributes', ()) or c.name in have or c.name in ('Module', 'Interactive', 'Expression', 'FunctionType'))}
    all_leaf = {c.name for c in F if getattr(c, 'pyclass', None) is not None and c.is_ast}
    n67 = 0
    for fi in ctx.repo.funcs('fst_traverse', '_check_all_param') + ctx.repo.funcs('fst_traverse', '_all_param_func'):
        for st in ast.walk(fi.node):
            if not isinstance(st, ast.If):
                continue
            t = st.test
            which = None
            if isinstance(t, ast.Compare) and len(t.ops) == 1 and isinstance(t.left, ast.Name):
                if isinstance(t.ops[0], ast.Eq) and isinstance(t.comparators[0], ast.Constant) and t.comparators[0].value == 'loc':
                    which = "'loc'"
                elif isinstance(t.ops[0], ast.Is) and isinstance(t.comparators[0], ast.Constant) and t.comparators[0].value is False:
                    which = 'False'
            if which is None:
                continue
            # the class set the arm excludes: `<node class> not in SET`
            sets = [x for b in st.body for x in ast.walk(b) if isinstance(x, ast.Compare) and len(x.ops) == 1 and isinstance(x.ops[0], ast.NotIn)]
            if not sets:
                # the arm hands the decision to a named predicate of the module (`return _check_all_loc(fst_)` / `return _check_all_loc`)
                for b in st.body:
                    for x in ast.walk(b):
                        if isinstance(x, ast.Name) and isinstance(x.ctx, ast.Load):
                            for g in ctx.repo.find_funcs('fst_traverse', x.id):
                                if not isinstance(g.node, ast.Lambda) and g.key != fi.key:
                                    sets += [y for y in ast.walk(g.node) if isinstance(y, ast.Compare) and len(y.ops) == 1 and isinstance(y.ops[0], ast.NotIn)]
            if not sets:
                continue
            excluded = set()
            for x in sets:
                excluded |= T.classes_mentioned(ctx, 'fst_traverse', x.comparators[0])
            if not excluded:
                raise AnalysisError(f'{fi.key}: the class set of the all={which} arm did not evaluate')
            n67 += 1
            bad = sorted((all_leaf - excluded) - located)
            ctx.check('R6.7', not bad, fi.module, fi.qualname, f'all={which}: classes let through without a location {bad}',
                      f'the all={which} filter promises nodes that have a location but lets {bad} through: they have neither parser positions nor a '
                      f'computed-location function, `.loc` / `.bloc` is None for them and the bound searches that step with this filter '
                      f'(`_next_bound_step`) subscript it', st.lineno, sample={'filter': which, 'excluded': len(excluded)})
    if n67 < 2:
        raise AnalysisError(f'only {n67} location-filter arms found in the two encodings of the `all` filter')

    # ---- R6.3 -------------------------------------------------------------------------------------------------------
    ctx.rule('R6.3', 'a store to X.end_col_offset guarded by a line test is guarded by X.end_lineno (X.col_offset by X.lineno)', 4)
    n = 0
    for fi in ctx.repo.all_funcs():
        if isinstance(fi.node, ast.Lambda):
            continue
        par = None
        for st in walk_no_nested(fi.node):
            tg = None
            if isinstance(st, ast.Assign) and len(st.targets) == 1:
                tg = st.targets[0]
            elif isinstance(st, ast.AugAssign):
                tg = st.target
            if not (isinstance(tg, ast.Attribute) and tg.attr in ('col_offset', 'end_col_offset') and isinstance(tg.value, ast.Name)):
                continue
            par = par or parent_map(fi.node)
            obj = tg.value.id
            want = 'end_lineno' if tg.attr == 'end_col_offset' else 'lineno'
            other = 'lineno' if want == 'end_lineno' else 'end_lineno'
            tests = enclosing_tests(fi.node, st, par)[:1]      # innermost guard decides which line the column lives on
            for t, pol in tests:
                attrs = {x.attr for x in ast.walk(t) if isinstance(x, ast.Attribute) and isinstance(x.value, ast.Name) and x.value.id == obj
                         and x.attr in ('lineno', 'end_lineno')}
                if not attrs:
                    continue
                n += 1
                ctx.check('R6.3', attrs == {want} or want in attrs and other not in attrs, fi.module, fi.qualname, f'{norm(st)} under `{norm(t, 60)}`',
                          f'{obj}.{tg.attr} is adjusted under a test on {obj}.{sorted(attrs)}: the column of that end of the node lives on '
                          f'{obj}.{want}; for a multi-line node the wrong line\'s delta is applied', st.lineno, sample=norm(st))
    if n < 2:
        raise AnalysisError('R6.3 found fewer than 2 guarded column stores')

    # ---- R6.4 -------------------------------------------------------------------------------------------------------
    import re
    ctx.rule('R6.4', 'a byte<->character conversion `lines[<P>ln].c2b(<Q>col)` / b2c, and the lower bound of `lines[<P>ln][<Q>col:]`, '
                     'converts a column on the line it belongs to: the name prefixes P and Q are equal', 70)
    for fi in ctx.repo.all_funcs():
        if isinstance(fi.node, ast.Lambda):
            continue
        for c in walk_no_nested(fi.node):
            L = C = None
            if isinstance(c, ast.Call) and call_name(c) in ('c2b', 'b2c') and c.args and isinstance(c.func, ast.Attribute) and \
                    isinstance(c.func.value, ast.Subscript):
                L, C = c.func.value.slice, c.args[0]
            elif isinstance(c, ast.Subscript) and isinstance(c.value, ast.Subscript) and isinstance(c.slice, ast.Slice) and \
                    norm(c.value.value) in ('lines', 'ls', 'self.root._lines', 'root._lines', 'self._lines'):
                L, C = c.value.slice, c.slice.lower
            if not (isinstance(L, ast.Name) and isinstance(C, ast.Name)):
                continue
            ml = re.match(r'^(.*?)_?ln$', L.id)
            mc = re.match(r'^(.*?)_?col(_offset)?$', C.id)
            if not (ml and mc):
                continue
            ctx.check('R6.4', ml.group(1) == mc.group(1), fi.module, fi.qualname, c,
                      f'column `{C.id}` is converted / sliced on line `{L.id}`: it belongs to line `{mc.group(1) + ("_" if mc.group(1) and not mc.group(1).endswith("_") else "")}ln`; the '
                      f'two lines differ exactly when the construct spans several lines, and then the byte/character mapping of the wrong line is used',
                      c.lineno, sample=norm(c))


    # ---- R6.4 (line lengths) ------------------------------------------------------------------------------------------
    n_len = 0
    for fi in ctx.repo.all_funcs():
        if isinstance(fi.node, ast.Lambda):
            continue

        def line_len_prefix(e, aliases):
            """prefix P if `e` is the length of line <P>ln: len(lines[<P>ln]) or a local only bound to that."""
            if isinstance(e, ast.Call) and call_name(e) == 'len' and e.args and isinstance(e.args[0], ast.Subscript) and \
                    isinstance(e.args[0].slice, ast.Name) and (norm(e.args[0].value) in ('lines', 'ls', 'self.root._lines', 'root._lines', 'self._lines')
                                                               or norm(e.args[0].value).endswith('lines')):
                ml = re.match(r'^(.*?)_?ln$', e.args[0].slice.id)
                return ml.group(1) if ml else None
            if isinstance(e, ast.Name):
                return aliases.get(e.id)
            return None

        aliases, multi = {}, set()
        for n_ in walk_no_nested(fi.node):
            if isinstance(n_, (ast.Assign, ast.NamedExpr)):
                t = n_.targets[0] if isinstance(n_, ast.Assign) else n_.target
                if isinstance(t, ast.Name) and not re.match(r'^(.*?)_?col(_offset)?$', t.id):
                    p_ = line_len_prefix(n_.value, {})
                    if p_ is None or (t.id in aliases and aliases[t.id] != p_):
                        multi.add(t.id)
                    else:
                        aliases[t.id] = p_
        for k in multi:
            aliases.pop(k, None)

        def colname(e):
            if isinstance(e, ast.Name):
                mc = re.match(r'^(.*?)_?col$', e.id)
                return mc.group(1) if mc else None
            return None

        for c in walk_no_nested(fi.node):
            pairs = []
            if isinstance(c, ast.BinOp) and isinstance(c.op, (ast.Add, ast.Sub)):
                pairs = [(c.left, c.right), (c.right, c.left)]
            elif isinstance(c, ast.Compare) and len(c.ops) == 1:
                pairs = [(c.left, c.comparators[0]), (c.comparators[0], c.left)]
            elif isinstance(c, ast.Call) and call_name(c) in ('min', 'max') and len(c.args) == 2:
                pairs = [(c.args[0], c.args[1]), (c.args[1], c.args[0])]
            elif isinstance(c, ast.Assign) and len(c.targets) == 1:
                pairs = [(c.targets[0], c.value)]
            for a_, b_ in pairs:
                q = colname(a_)
                p_ = line_len_prefix(b_, aliases)
                if q is None or p_ is None:
                    continue
                sep = lambda x: x + ('_' if x and not x.endswith('_') else '')
                if p_ != q:
                    # the column's own line must exist as a name in this function, otherwise the prefix is not a line family (`space_col`)
                    # ... and be bound *together with* the column (both parameters, or targets of the same tuple unpack): only then does
                    # the naming convention pair them (`space_col` computed locally on line `end_ln` is not paired with `space_ln`)
                    qln, qcol = sep(q) + 'ln', norm(a_)
                    together = qln in fi.params() and qcol in fi.params()
                    for x in walk_no_nested(fi.node):
                        if isinstance(x, ast.Assign) and isinstance(x.targets[0], ast.Tuple):
                            ids = {e.id for e in x.targets[0].elts if isinstance(e, ast.Name)}
                            if qln in ids and qcol in ids:
                                together = True
                    if not together:
                        continue
                    # under a dominating `<P>ln == <Q>ln` test the two lines are the same line
                    par_ = getattr(fi, '_par64', None) or parent_map(fi.node)
                    fi._par64 = par_
                    same = False
                    for t_, truth in enclosing_tests(fi.node, c, par_):
                        if isinstance(t_, ast.Compare) and len(t_.ops) == 1 and isinstance(t_.ops[0], ast.Eq if truth else ast.NotEq):
                            if {norm(t_.left), norm(t_.comparators[0])} == {sep(p_) + 'ln', sep(q) + 'ln'}:
                                same = True
                    if same:
                        continue
                n_len += 1
                ctx.check('R6.4', p_ == q, fi.module, fi.qualname, norm(c, 80),
                          f'column `{norm(a_)}` is combined with the length of line `{p_ + ("_" if p_ and not p_.endswith("_") else "")}ln`: it belongs to '
                          f'line `{q + ("_" if q and not q.endswith("_") else "")}ln`; wrong as soon as the two lines differ in length', c.lineno,
                          sample=norm(c, 80))
                break
    ctx.extra['line_length_pairings'] = n_len

# ----------------------------------------------------------------------------------------------------------------------
    check_lexicographic(ctx)
    check_line_aliases(ctx)


def is_line_text(u: Units, e) -> bool:
    """Is `e` a source line / source text (string indexed by character)?"""
    if isinstance(e, ast.Name) and e.id in u._text_vars():
        return True
    if isinstance(e, ast.Name):
        return e.id in ('l', 'line', 'lend', 'last_line', 'first_line') or e.id.endswith('_line')
    if isinstance(e, ast.Subscript) and not isinstance(e.slice, ast.Slice):
        v = e.value
        if isinstance(v, ast.Name) and (v.id in LINE_TEXT_BASES or v.id.endswith('lines')):
            return True
        if isinstance(v, ast.Attribute) and v.attr in ('_lines', 'lines'):
            return True
    if isinstance(e, ast.NamedExpr):
        return is_line_text(u, e.value)
    return False


def check_units(ctx, fi, res):
    u = Units(fi)
    fn = fi.node
    par = parent_map(fn)

    def in_conversion_idiom(sub):
        """`text[pos:pos + nbytes].encode()[:nbytes].decode()` -- the repo's spelled-out byte->char conversion: the character
        window is deliberately as wide as the byte count (never too small), the byte cut happens after encode()."""
        p1 = par.get(sub)
        if isinstance(p1, ast.Attribute) and p1.attr == 'encode':
            c1 = par.get(p1)
            s2 = par.get(c1)
            if isinstance(c1, ast.Call) and isinstance(s2, ast.Subscript) and isinstance(s2.slice, ast.Slice):
                a2 = par.get(s2)
                return isinstance(a2, ast.Attribute) and a2.attr == 'decode'
        return False

    def bad(node, expr, need, why):
        k = f'{norm(expr, 60)} in {norm(node, 80)}'
        for (m_, f_, pre), reason in REVIEWED.items():
            if m_ == fi.module and f_ == fi.qualname and k.startswith(pre):
                ctx.ok('R6.1', f'{fi.module}|{fi.qualname}|reviewed: {pre}', sample={'reviewed': pre, 'reason': reason[:100]})
                return
        ctx.bad('R6.1', fi.module, fi.qualname, f'{norm(expr, 60)} in {norm(node, 80)}',
                f'{why}: AST columns are UTF-8 bytes, fstloc columns / string indices are characters; they differ as soon as non-ASCII text '
                f'precedes the position on the line', getattr(node, 'lineno', 0))

    def ok(node, expr):
        ctx.ok('R6.1', f'{fi.module}|{fi.qualname}|{norm(node, 70)}')

    def need(node, expr, want, what):
        un = u.unit(expr)
        if un == 'MIX':
            if (fi.module, fi.qualname, norm(expr)) in DELTA_OK:
                ok(node, expr)
                return
            bad(node, expr, want, f'{what}: expression mixes byte and character quantities')
        elif un is not None and un != want:
            bad(node, expr, want, f'{what} needs {"bytes" if want == "B" else "characters"} but `{norm(expr, 50)}` is in '
                                  f'{"bytes" if un == "B" else "characters"}')
        elif un == want:
            ok(node, expr)

    for n in walk_no_nested(fn):
        # S1 stores
        if isinstance(n, (ast.Assign, ast.AugAssign)):
            tgs = n.targets if isinstance(n, ast.Assign) else [n.target]
            for t in tgs:
                if isinstance(t, ast.Attribute) and t.attr in ('col_offset', 'end_col_offset'):
                    need(n, n.value, 'B', f'store to .{t.attr}')
                elif isinstance(t, ast.Attribute) and t.attr in ('col', 'end_col'):
                    need(n, n.value, 'C', f'store to .{t.attr}')
                elif isinstance(t, ast.Name) and name_unit(t.id) and not isinstance(n, ast.AugAssign):
                    need(n, n.value, name_unit(t.id), f'assignment to `{t.id}`')
                elif isinstance(t, ast.Name) and name_unit(t.id) and isinstance(n, ast.AugAssign) and isinstance(n.op, (ast.Add, ast.Sub)):
                    need(n, n.value, name_unit(t.id), f'`{t.id} {"+=" if isinstance(n.op, ast.Add) else "-="}`')
        if isinstance(n, ast.NamedExpr) and isinstance(n.target, ast.Name) and name_unit(n.target.id):
            need(n, n.value, name_unit(n.target.id), f'assignment to `{n.target.id}`')
        # arithmetic mix anywhere
        if isinstance(n, ast.BinOp) and isinstance(n.op, (ast.Add, ast.Sub)):
            l, r = u.unit(n.left), u.unit(n.right)
            if l in ('B', 'C') and r in ('B', 'C') and l != r:
                if (fi.module, fi.qualname, norm(n)) in DELTA_OK:
                    ok(n, n)
                else:
                    bad(n, n, None, 'byte quantity combined with character quantity')
        if isinstance(n, ast.Compare) and len(n.ops) == 1 and isinstance(n.ops[0], (ast.Lt, ast.LtE, ast.Gt, ast.GtE, ast.Eq, ast.NotEq)):
            l, r = u.unit(n.left), u.unit(n.comparators[0])
            if l in ('B', 'C') and r in ('B', 'C') and l != r:
                bad(n, n, None, 'byte quantity compared with character quantity')
        if isinstance(n, ast.Call):
            cn = call_name(n)
            # S2 keywords
            for kw in n.keywords:
                if kw.arg in ('col_offset', 'end_col_offset'):
                    need(n, kw.value, 'B', f'keyword {kw.arg}=')
            # S3 conversions
            if cn == 'c2b' and n.args:
                need(n, n.args[0], 'C', 'argument of c2b()')
            elif cn == 'b2c' and n.args:
                need(n, n.args[0], 'B', 'argument of b2c()')
            # S5 positional search positions
            elif cn in ('startswith', 'endswith', 'find', 'rfind', 'index') and isinstance(n.func, ast.Attribute) and len(n.args) >= 2 and \
                    is_line_text(u, n.func.value):
                for a in n.args[1:3]:
                    need(n, a, 'C', f'position argument of str.{cn}()')
            elif cn in ('match', 'search', 'fullmatch', 'finditer') and isinstance(n.func, ast.Attribute) and len(n.args) >= 2 and \
                    is_line_text(u, n.args[0]):
                for a in n.args[1:3]:
                    need(n, a, 'C', f'position argument of regex .{cn}()')
            elif cn == 'fstloc' and len(n.args) == 4:
                need(n, n.args[1], 'C', 'fstloc column')
                need(n, n.args[3], 'C', 'fstloc end column')
            # S6 parameters of resolved callees
            for cal in res._resolve(n, fi):
                if isinstance(cal.node, ast.Lambda):
                    continue
                bound = res.bound(n, cal, fi)
                ps = [a.arg for a in cal.node.args.posonlyargs + cal.node.args.args]
                eff = ps[1:] if bound and ps and ps[0] in ('self', 'cls') else ps
                dual = _sign_coded_params(cal.node)
                for i, a in enumerate(n.args):
                    if isinstance(a, ast.Starred):
                        break
                    if i < len(eff) and name_unit(eff[i]) and eff[i] not in dual:
                        need(n, a, name_unit(eff[i]), f'parameter `{eff[i]}` of {cal.name}()')
                for kw in n.keywords:
                    if kw.arg and name_unit(kw.arg) and kw.arg not in ('col_offset', 'end_col_offset') and kw.arg not in dual:
                        need(n, kw.value, name_unit(kw.arg), f'parameter `{kw.arg}` of {cal.name}()')
                break
        # S4 indexing into a line
        if isinstance(n, ast.Subscript) and is_line_text(u, n.value) and not in_conversion_idiom(n):
            sl = n.slice
            parts = [sl.lower, sl.upper] if isinstance(sl, ast.Slice) else [sl]
            for p_ in parts:
                if p_ is not None:
                    need(n, p_, 'C', 'index / slice bound into a source line')


from ..units import sign_coded_params as _sign_coded_params


# ---- R6.5 ------------------------------------------------------------------------------------------------------------
import re as _re

_LINE_RE = _re.compile(r'(^|_|\.)(b?(end_)?ln\d?|(end_)?lineno|[a-z0-9_]*_ln\d?|[a-z0-9_]*_lineno)$')
_COL_RE = _re.compile(r'(^|_|\.)(b?(end_)?col\d?|(end_)?col_offset|[a-z0-9_]*_col\d?|[a-z0-9_]*_col_offset)$')

R65_REVIEWED = {
    ('slice_exprlike', 'put_slice_sep_begin', 'put_end_ln < self.end_ln or put_end_col < self.end_col'):
        'the put position lies inside `self`, so (put_end_ln, put_end_col) <= (self.end_ln, self.end_col) already holds; under that '
        'invariant the expression is exactly "not equal to the end of self", which is what the comment says',
}


def _poskind(e):
    if isinstance(e, ast.NamedExpr):
        return _poskind(e.target)
    if isinstance(e, (ast.Name, ast.Attribute)):
        t = norm(e)
        if _LINE_RE.search(t):
            return 'L'
        if _COL_RE.search(t):
            return 'C'
        return None
    if isinstance(e, ast.BinOp):
        k = {_poskind(e.left), _poskind(e.right)} - {None}
        return next(iter(k)) if len(k) == 1 else None
    return None


def _cmpkind(c):
    if isinstance(c, ast.Compare) and len(c.ops) == 1:
        l, r = _poskind(c.left), _poskind(c.comparators[0])
        if l and l == r:
            op = c.ops[0]
            return l, 'ord' if isinstance(op, (ast.Lt, ast.Gt, ast.LtE, ast.GtE)) else 'eq' if isinstance(op, ast.Eq) else 'other'
    return None, None


def check_lexicographic(ctx):
    ctx.rule('R6.5', 'two (line, column) positions are ordered lexicographically: a column comparison decides only under equal lines', 15)
    n = 0
    for fi in ctx.repo.all_funcs():
        if isinstance(fi.node, ast.Lambda):
            continue
        for b in walk_no_nested(fi.node):
            if isinstance(b, ast.Compare) and len(b.ops) == 1 and isinstance(b.left, ast.Tuple) and isinstance(b.comparators[0], ast.Tuple) and \
                    len(b.left.elts) == 2 and [_poskind(x) for x in b.left.elts] == ['L', 'C']:
                n += 1
                ok = [_poskind(x) for x in b.comparators[0].elts] == ['L', 'C']
                ctx.check('R6.5', ok, fi.module, fi.qualname, norm(b, 90), 'tuple comparison pairs a (line, column) with something that is not a '
                          '(line, column)', b.lineno, sample={'function': fi.key, 'compare': norm(b, 90), 'form': 'tuple'})
            if not isinstance(b, ast.BoolOp):
                continue
            ks = [_cmpkind(v) for v in b.values]
            # guarded form `<X>ln == <Y>ln and <P>col < <Q>col`: the column pair must belong to the line pair of the guard
            if isinstance(b.op, ast.And):
                def pref(e, suffixes):
                    if isinstance(e, ast.NamedExpr):
                        e = e.value if not isinstance(e.value, ast.Compare) else e.target
                    t = norm(e).split('.')[-1]
                    for sfx in suffixes:
                        if t == sfx:
                            return ''
                        if t.endswith('_' + sfx):
                            return t[:-len(sfx) - 1]
                    return None
                eqs = [v.value if isinstance(v, ast.NamedExpr) else v for v in b.values]
                line_eq = [v for v in eqs if isinstance(v, ast.Compare) and _cmpkind(v) == ('L', 'eq')]
                col_ord = [v for v in eqs if isinstance(v, ast.Compare) and _cmpkind(v) == ('C', 'ord')]
                if len(line_eq) == 1 and len(col_ord) == 1:
                    lp = {pref(line_eq[0].left, ('ln', 'lineno')), pref(line_eq[0].comparators[0], ('ln', 'lineno'))}
                    cp = {pref(col_ord[0].left, ('col', 'col_offset')), pref(col_ord[0].comparators[0], ('col', 'col_offset'))}
                    if None not in lp and None not in cp and len(lp) == 2 and len(cp) == 2:
                        n += 1
                        ctx.check('R6.5', lp == cp, fi.module, fi.qualname, norm(b, 120),
                                  f'columns of {sorted(cp)} are compared under the guard that lines of {sorted(lp)} are equal: the column test '
                                  f'decides on positions that are not on the same line', b.lineno,
                                  sample={'function': fi.key, 'compare': norm(b, 100), 'form': 'guarded'})
            if ('L', 'ord') not in ks:
                continue
            n += 1
            bad = ('C', 'ord') in ks       # a bare column ordering next to a line ordering in the same and / or
            rv = R65_REVIEWED.get((fi.module, fi.qualname.split('[')[0], norm(b, 200)))
            ctx.check('R6.5', (not bad) or bool(rv), fi.module, fi.qualname, norm(b, 120),
                      'line and column are compared independently (`l1 < l2 or c1 < c2` style): the result is wrong whenever the position on the '
                      'later line has the smaller column; compare `(line, col)` tuples or guard the column test with line equality', b.lineno,
                      sample={'function': fi.key, 'compare': norm(b, 100), 'reviewed': rv})
    # statement form: two corners put "in order" by swapping lines under a line comparison and columns under a column comparison, each on its own
    from ..struct import parent_map, enclosing_tests
    for fi in ctx.repo.all_funcs():
        if isinstance(fi.node, ast.Lambda):
            continue
        par = None
        for st in walk_no_nested(fi.node):
            if not (isinstance(st, ast.If) and _cmpkind(st.test) == ('C', 'ord')):
                continue
            names = {norm(st.test.left), norm(st.test.comparators[0])}
            assigned = {norm(t) for b in st.body for x in ast.walk(b) if isinstance(x, ast.Assign)
                        for tt in x.targets for t in (tt.elts if isinstance(tt, ast.Tuple) else [tt])}
            if not names <= assigned:
                continue
            par = par or parent_map(fi.node)
            guarded = any(pol and _cmpkind(t) == ('L', 'eq') for t, pol in enclosing_tests(fi.node, st, par))
            n += 1
            ctx.check('R6.5', guarded, fi.module, fi.qualname, f'if {norm(st.test, 60)}: <both columns reassigned>',
                      'two columns are exchanged / normalised because one is smaller than the other, without knowing that they are on the same line: for a '
                      'location that spans lines and ends at a smaller column than it starts this reorders a correct location', st.lineno,
                      sample={'function': fi.key, 'compare': norm(st.test, 60), 'form': 'statement'})
    if n < 15:
        raise AnalysisError(f'only {n} position comparisons found')


# ---- R6.6 ------------------------------------------------------------------------------------------------------------

def check_line_aliases(ctx):
    """A local bound to one source line (`X = lines[<P>ln]`) stands for line <P>ln: (a) it must not be used after `<P>ln` has been
    rebound without being re-read (stale line), (b) columns applied to it (`X[:<Q>col]`, `X.c2b(<Q>col)`, `X.encode()[:<Q>col_offset]`)
    belong to the same line family when the column and its line are bound together (parameters / one tuple unpack)."""
    import re
    from ..cfg import CFG, subnodes
    ctx.rule('R6.6', 'a local alias of one source line is not used after its line variable was rebound, and is indexed by columns of its own line', 25)
    LINES = ('lines', 'ls', 'self.root._lines', 'root._lines', 'self._lines')
    n = 0
    for fi in ctx.repo.all_funcs():
        if isinstance(fi.node, ast.Lambda):
            continue
        defs = {}   # alias -> [(assign node, ln name)]
        for x in walk_no_nested(fi.node):
            if isinstance(x, (ast.Assign, ast.NamedExpr)):
                t = x.targets[0] if isinstance(x, ast.Assign) else x.target
                v = x.value
                if isinstance(t, ast.Name) and isinstance(v, ast.Subscript) and isinstance(v.slice, ast.Name) and \
                        (norm(v.value) in LINES or norm(v.value).endswith('lines')) and re.match(r'^(.*?)_?ln$', v.slice.id):
                    defs.setdefault(t.id, []).append((x, v.slice.id))
        if not defs:
            continue
        # aliases that are also bound to something else are not line aliases
        other = set()
        for x in walk_no_nested(fi.node):
            if isinstance(x, ast.Name) and isinstance(x.ctx, ast.Store) and x.id in defs:
                pass
        cfg = CFG(fi.node)
        node_of = {}
        for nd in cfg.nodes:
            for x in subnodes(cfg, nd):
                node_of[id(x)] = nd
            if nd.kind == 'iter':
                for x in ast.walk(nd.ast.target):
                    node_of[id(x)] = nd
        stores = {}      # name -> [cfg node ids where it is (re)bound]
        aug = {id(x.target) for x in walk_no_nested(fi.node) if isinstance(x, ast.AugAssign)}
        for x in walk_no_nested(fi.node):
            # `ln += 1` converts a line index into a 1-based lineno (or steps within a loop that re-reads the line): not a move to other text
            if isinstance(x, ast.Name) and isinstance(x.ctx, ast.Store) and id(x) in node_of and id(x) not in aug:
                stores.setdefault(x.id, set()).add(node_of[id(x)].id)
        for alias, dl in defs.items():
            def_nodes = {node_of[id(d)].id for d, _ in dl if id(d) in node_of}
            all_alias_stores = stores.get(alias, set())
            if all_alias_stores - def_nodes:
                continue        # also bound to non-line values: not a pure line alias
            for d, lnname in dl:
                if id(d) not in node_of:
                    continue
                n += 1
                dn = node_of[id(d)].id
                rebinds = stores.get(lnname, set()) - {dn}
                stale_use = None
                if rebinds:
                    # rebinding of the line variable reachable from the alias definition without a re-definition of the alias ...
                    r1 = cfg.reachable(dn, lambda n_, lab, s: lab != 'exc', stop=all_alias_stores - {dn})
                    for r in rebinds & r1:
                        # ... and a use of the alias reachable from there, again without re-definition
                        r2 = cfg.reachable(r, lambda n_, lab, s: lab != 'exc', stop=all_alias_stores)
                        for x in walk_no_nested(fi.node):
                            if isinstance(x, ast.Name) and x.id == alias and isinstance(x.ctx, ast.Load) and id(x) in node_of and \
                                    node_of[id(x)].id in r2 and node_of[id(x)].id not in all_alias_stores:
                                stale_use = x
                                break
                        if stale_use is not None:
                            break
                ctx.check('R6.6', stale_use is None, fi.module, fi.qualname, f'{alias} = lines[{lnname}] ... {lnname} rebound ... {alias} used',
                          f'`{alias}` still holds the text of the old line `{lnname}` after `{lnname}` was rebound: columns of the new line are '
                          f'converted / sliced on the wrong text', getattr(stale_use, 'lineno', d.lineno),
                          sample={'function': fi.key, 'alias': alias, 'line_variable': lnname})
        # ---- (b) columns applied to a line alias (and to its .encode() alias) belong to the alias' own line
        ln_of = {}
        for alias, dl in defs.items():
            lns = {l for _, l in dl}
            if len(lns) == 1 and not (stores.get(alias, set()) - {node_of[id(d)].id for d, _ in dl if id(d) in node_of}):
                ln_of[alias] = next(iter(lns))
        for x in walk_no_nested(fi.node):      # second level: b = <alias>.encode()
            if isinstance(x, (ast.Assign, ast.NamedExpr)):
                t = x.targets[0] if isinstance(x, ast.Assign) else x.target
                v = x.value
                if isinstance(t, ast.Name) and isinstance(v, ast.Call) and call_name(v) == 'encode' and isinstance(v.func.value, ast.Name) and \
                        v.func.value.id in ln_of and len(stores.get(t.id, ())) == 1:
                    ln_of[t.id] = ln_of[v.func.value.id]

        def base_alias(e):
            if isinstance(e, ast.Name) and e.id in ln_of:
                return e.id
            if isinstance(e, ast.Call) and call_name(e) == 'encode' and isinstance(e.func.value, ast.Name) and e.func.value.id in ln_of:
                return e.func.value.id
            return None

        sep = lambda x_: x_ + ('_' if x_ and not x_.endswith('_') else '')
        params = fi.params()
        for x in walk_no_nested(fi.node):
            al = cols = None
            if isinstance(x, ast.Subscript) and isinstance(x.slice, ast.Slice):
                al = base_alias(x.value)
                cols = [b for b in (x.slice.lower, x.slice.upper) if isinstance(b, ast.Name)]
            elif isinstance(x, ast.Call) and call_name(x) in ('c2b', 'b2c') and x.args and isinstance(x.func, ast.Attribute):
                al = base_alias(x.func.value)
                cols = [x.args[0]] if isinstance(x.args[0], ast.Name) else []
            if not al or not cols:
                continue
            p_ = re.match(r'^(.*?)_?ln$', ln_of[al]).group(1)
            for cnode in cols:
                mc = re.match(r'^(.*?)_?col(_offset)?$', cnode.id)
                if not mc:
                    continue
                q = mc.group(1)
                if q != p_:
                    qln = sep(q) + 'ln'
                    together = qln in params and cnode.id in params
                    for y in walk_no_nested(fi.node):
                        if isinstance(y, ast.Assign) and isinstance(y.targets[0], ast.Tuple):
                            ids = {e.id for e in y.targets[0].elts if isinstance(e, ast.Name)}
                            if qln in ids and cnode.id in ids:
                                together = True
                    if not together:
                        continue
                    # same line by a dominating test / assert `<P>ln == <Q>ln`
                    par_ = getattr(fi, '_par64', None) or parent_map(fi.node)
                    fi._par64 = par_
                    pair = {ln_of[al], qln}
                    same = False
                    for t_, truth in enclosing_tests(fi.node, x, par_):
                        for cmp_ in ([t_] if isinstance(t_, ast.Compare) else [v_ for v_ in getattr(t_, 'values', []) if isinstance(v_, ast.Compare)]
                                     if truth and isinstance(getattr(t_, 'op', None), ast.And) or isinstance(t_, ast.Compare) else []):
                            if len(cmp_.ops) == 1 and isinstance(cmp_.ops[0], ast.Eq if truth else ast.NotEq) and \
                                    {norm(cmp_.left), norm(cmp_.comparators[0])} == pair:
                                same = True
                    for y in fi.node.body:
                        if isinstance(y, ast.Assert) and isinstance(y.test, ast.Compare) and len(y.test.ops) == 1 and isinstance(y.test.ops[0], ast.Eq) \
                                and {norm(y.test.left), norm(y.test.comparators[0])} == pair and y.lineno < x.lineno:
                            same = True
                    if same:
                        continue
                n += 1
                ctx.check('R6.6', q == p_, fi.module, fi.qualname, norm(x, 70),
                          f'`{al}` is the text of line `{ln_of[al]}` but is indexed / converted with column `{cnode.id}`, which belongs to line '
                          f'`{sep(q)}ln`: wrong whenever the two lines differ', x.lineno, sample={'function': fi.key, 'expr': norm(x, 70)})
    if n < 25:
        raise AnalysisError(f'only {n} line aliases found')
