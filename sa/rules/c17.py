"""C17 — matching depends only on structure; quantifiers behave like regexes: state discipline.

R17.1  tag-stack pairing: every function that calls mstate.new_tagss() executes exactly one of pop_merge_tagss() /
       discard_tagss() on every normal path to return (depth typestate over the CFG), never below zero.
R17.2  shared singletons / possibly-shared results are never mutated.
R17.3  a _MatchState is constructed per match/search call; inside loops each use is preceded by clear() in the iteration.
R17.4  registries: _MATCH_FUNCS / _LEAF_ASTS_FUNCS map a pattern class to its own method; every combinator class that
       defines _match is registered; pattern classes whose matching can depend on source text or callbacks map to
       the "unknown" pre-filter.
Not decided: layout independence, self-match, search == filtered walk, regex equivalence (value level).
"""
from __future__ import annotations

import ast

from ..model import AnalysisError, norm, walk_no_nested, call_name
from ..consteval import ClassTok, FuncTok, Unknown, ExtTok
from ..cfg import CFG, solve, subnodes

PROP = 'C17'

OPEN = {'new_tagss'}
CLOSE = {'pop_merge_tagss', 'discard_tagss'}
MUTATORS = {'update', 'append', 'add', 'clear', 'pop', 'popitem', 'setdefault', 'extend', 'insert', 'remove', 'discard',
            'sort', 'reverse', '__setitem__', '__delitem__', 'difference_update', 'intersection_update',
            'symmetric_difference_update'}
SHARED_NAMES = {'_EMPTY_LIST', '_EMPTY_SET', '_EMPTY_DICT'}
SHARED_ATTRS = {'static_tags'}
TAG_STACKS = {'tagss'}          # lists of tag dicts pushed by child matches (new_tagss() / self.tagss[-1])


def run(ctx):
    ctx.not_decided += ['that match results are identical on re-laid-out trees and pure ASTs', 'self-match / single-leaf mismatch',
                        'search(pattern) == filter(match, walk)', 'equivalence of list quantifiers with a regular-expression engine']
    m = ctx.repo.mod('match')

    # ---- R17.1 ----------------------------------------------------------------------------------------------------------
    ctx.rule('R17.1', 'tag-stack depth typestate: new_tagss() +1, pop_merge_tagss()/discard_tagss() -1; depth is 0 at every '
                      'normal return and never negative', 6)
    n_funcs = 0
    for q, fis in m.funcs.items():
        for fi in fis:
            if isinstance(fi.node, ast.Lambda):
                continue
            calls = [n for n in walk_no_nested(fi.node) if isinstance(n, ast.Call) and call_name(n) in OPEN | CLOSE
                     and isinstance(n.func, ast.Attribute)]
            if not calls or q.startswith('_MatchState.'):
                continue
            n_funcs += 1
            check_pairing(ctx, fi)
    if n_funcs < 5:
        raise AnalysisError(f'only {n_funcs} functions use the tag stack (>= 5 expected)')
    # the state object itself: new pushes one list, discard/pop remove exactly one
    ms = ctx.repo.class_methods('match', '_MatchState')
    # the stack attribute is whatever new_tagss() appends to
    def stack_ops(fn, attr):
        push = sum(1 for x in ast.walk(fn) if isinstance(x, ast.Call) and call_name(x) == 'append' and isinstance(x.func.value, ast.Attribute)
                   and x.func.value.attr == attr)
        pop = sum(1 for x in ast.walk(fn) if isinstance(x, ast.Call) and call_name(x) == 'pop' and isinstance(x.func.value, ast.Attribute)
                  and x.func.value.attr == attr and not x.args)
        pop += sum(1 for x in ast.walk(fn) if isinstance(x, ast.Delete) and any(isinstance(t, ast.Subscript) and isinstance(t.value, ast.Attribute)
                                                                                 and t.value.attr == attr for t in x.targets))
        return push, pop
    nt = ms.get('new_tagss')
    if not nt:
        raise AnalysisError('_MatchState.new_tagss not found')
    attrs = [x.func.value.attr for x in ast.walk(nt[0].node) if isinstance(x, ast.Call) and call_name(x) == 'append' and isinstance(x.func.value, ast.Attribute)
             and norm(x.func.value.value) == 'self']
    if len(attrs) != 1:
        raise AnalysisError('_MatchState.new_tagss: the tag stack attribute could not be identified')
    stack_attr = attrs[0]
    for name, want in (('new_tagss', (1, 0)), ('discard_tagss', (0, 1)), ('pop_merge_tagss', (0, 1))):
        fis = ms.get(name)
        if not fis:
            raise AnalysisError(f'_MatchState.{name} not found')
        got = stack_ops(fis[0].node, stack_attr)
        ctx.check('R17.1', got == want, 'match', f'_MatchState.{name}', f'stack ops on self.{stack_attr}: push/pop = {got}',
                  f'_MatchState.{name} must change the stack depth by exactly one (push, pop) = {want}', fis[0].lineno)
    # clear() resets every mutable container the constructor creates
    init = ms.get('__init__')
    clr = ms.get('clear')
    containers = set()
    if init:
        for x in ast.walk(init[0].node):
            if isinstance(x, ast.Assign) and isinstance(x.targets[0], ast.Attribute) and norm(x.targets[0].value) == 'self' and \
                    isinstance(x.value, (ast.List, ast.Dict, ast.Set)):
                containers.add(x.targets[0].attr)
    cleared = set()
    if clr:
        for x in ast.walk(clr[0].node):
            if isinstance(x, ast.Call) and call_name(x) == 'clear' and isinstance(x.func.value, ast.Attribute) and norm(x.func.value.value) == 'self':
                cleared.add(x.func.value.attr)
            if isinstance(x, ast.Assign) and isinstance(x.targets[0], ast.Attribute) and norm(x.targets[0].value) == 'self':
                cleared.add(x.targets[0].attr)
    ctx.check('R17.1', bool(containers) and containers <= cleared, 'match', '_MatchState.clear',
              f'clears {sorted(containers)}', f'clear() must reset every container the state holds; not reset: {sorted(containers - cleared)}',
              clr[0].lineno if clr else 0)

    # ---- R17.2 ----------------------------------------------------------------------------------------------------------
    check_shared(ctx, m)

    # ---- R17.3 ----------------------------------------------------------------------------------------------------------
    ctx.rule('R17.3', 'no module-level _MatchState; every construction is local to a match/search call; inside a loop every '
                      'use of the state is preceded by <state>.clear() in the same iteration', 3)
    n_cons = 0
    for st in m.tree.body:
        for n in ast.walk(st) if not isinstance(st, (ast.FunctionDef, ast.ClassDef)) else []:
            if isinstance(n, ast.Call) and call_name(n) == '_MatchState':
                ctx.bad('R17.3', 'match', '<module>', n, 'module-level _MatchState is shared by all matches', n.lineno)
    for q, fis in m.funcs.items():
        for fi in fis:
            if isinstance(fi.node, ast.Lambda):
                continue
            for n in walk_no_nested(fi.node):
                if isinstance(n, ast.Call) and call_name(n) == '_MatchState':
                    n_cons += 1
                    check_fresh(ctx, fi, n)
    if n_cons < 3:
        raise AnalysisError('fewer than 3 _MatchState constructions found')

    check_registries(ctx, m)
    check_leaf_sets(ctx)
    check_prefilter_soundness(ctx, m)


# ----------------------------------------------------------------------------------------------------------------------

def check_pairing(ctx, fi):
    cfg = CFG(fi.node)

    def delta(node):
        d = []
        for x in subnodes(cfg, node):
            if isinstance(x, ast.Call) and isinstance(x.func, ast.Attribute):
                if x.func.attr in OPEN:
                    d.append(+1)
                elif x.func.attr in CLOSE:
                    d.append(-1)
        return d

    bad_nodes = {}

    def transfer(node, depths):
        out = set()
        ds = delta(node)
        for d in depths:
            cur = d
            for x in ds:
                cur += x
                if cur < 0:
                    bad_nodes[node.id] = ('closes a tag list that this function did not open', node)
                    cur = 0
                if cur > 3:
                    cur = 3
            out.add(cur)
        normal = frozenset(out)
        # an exception thrown by the node's evaluation leaves the depth as before (call did not complete)
        return {'exc': frozenset(depths), '*': normal}

    ins = solve(cfg, frozenset({0}), transfer, lambda a, b: a | b)
    at_exit = ins.get(cfg.exit, frozenset())
    # attribute each non-zero exit depth to the return statements that produce it
    preds = cfg.preds()[cfg.exit]
    any_instance = False
    for lab, pid in preds:
        pn = cfg.nodes[pid]
        st = ins.get(pid)
        if st is None:
            continue
        o = transfer(pn, st)
        outd = o.get(lab, o.get('*'))
        any_instance = True
        ok = outd == frozenset({0})
        ctx.check('R17.1', ok, fi.module, fi.qualname, norm(pn.ast) if pn.ast is not None else '<fall off end>',
                  f'normal return with tag-stack depth {sorted(outd)} (must be 0): a tag list opened by new_tagss() is neither '
                  f'merged nor discarded on this path, so the enclosing matcher pops the wrong level', pn.lineno,
                  sample={'function': fi.qualname, 'return': norm(pn.ast) if pn.ast is not None else ''})
    for nid, (why, node) in bad_nodes.items():
        ctx.bad('R17.1', fi.module, fi.qualname, node.ast, why, node.lineno)
    if not any_instance:
        raise AnalysisError(f'{fi.key}: no return reached in the tag-stack analysis')


def check_shared(ctx, m):
    ctx.rule('R17.2', 'values that may be a shared singleton (_EMPTY_*, pattern.static_tags, results of pop_merge_tagss / '
                      '_match_* / match_func / _leaf_asts*) are never the receiver of a mutating call, a subscript store or an '
                      'augmented assignment', 30)
    # functions that may return a shared object (fixpoint over return expressions)
    shared_ret = {'pop_merge_tagss'}

    def expr_shared(e, local_shared) -> bool:
        if isinstance(e, ast.Name):
            return e.id in SHARED_NAMES or e.id in local_shared
        if isinstance(e, ast.Attribute):
            return e.attr in SHARED_ATTRS
        if isinstance(e, ast.Call):
            cn = call_name(e)
            if cn in shared_ret or cn in ('match_func',):
                return True
            if isinstance(e.func, ast.Call) and isinstance(e.func.func, ast.Attribute) and e.func.func.attr == 'get' and \
                    norm(e.func.func.value) in ('_MATCH_FUNCS', '_LEAF_ASTS_FUNCS'):
                return True
            return False
        if isinstance(e, ast.Subscript) and not isinstance(e.slice, ast.Slice) and isinstance(e.value, ast.Name) and e.value.id in TAG_STACKS:
            return True         # an element of a tag stack: children push dicts they got from match functions (possibly a pattern's static_tags)
        if isinstance(e, ast.IfExp):
            return expr_shared(e.body, local_shared) or expr_shared(e.orelse, local_shared)
        if isinstance(e, ast.BoolOp):
            return any(expr_shared(v, local_shared) for v in e.values)
        if isinstance(e, ast.NamedExpr):
            return expr_shared(e.value, local_shared)
        if isinstance(e, ast.Subscript):
            return expr_shared(e.value, local_shared) and False
        return False

    shared_params = {}       # function / method name -> parameters that receive a may-shared value at some call site in the module

    def local_shared_vars(fn):
        ls = set(shared_params.get(getattr(fn, 'name', None), ()))
        changed = True
        while changed:
            changed = False
            for n in walk_no_nested(fn):
                tg, val = None, None
                if isinstance(n, ast.For) and isinstance(n.target, ast.Name) and n.target.id not in ls and \
                        ((isinstance(n.iter, ast.Name) and n.iter.id in TAG_STACKS) or
                         # the level taken straight off the stack of levels: `for ts in self.all_tagss.pop():` / `in self.all_tagss[-1]:`
                         any(isinstance(y, ast.Attribute) and y.attr.endswith('tagss') for y in ast.walk(n.iter))):
                    ls.add(n.target.id)      # iterating a tag stack hands out the dicts the children pushed
                    changed = True
                if isinstance(n, ast.Assign):
                    tg, val = n.targets, n.value
                elif isinstance(n, ast.NamedExpr):
                    tg, val = [n.target], n.value
                elif isinstance(n, ast.AnnAssign) and n.value is not None:
                    tg, val = [n.target], n.value
                if tg is None:
                    continue
                if expr_shared(val, ls):
                    for t in tg:
                        if isinstance(t, ast.Name) and t.id not in ls:
                            ls.add(t.id)
                            changed = True
        return ls

    funcs = [fi for q, fis in m.funcs.items() for fi in fis if not isinstance(fi.node, ast.Lambda)]
    by_name = {}
    for fi in funcs:
        by_name.setdefault(fi.name, []).append(fi)
    changed = True
    while changed:
        changed = False
        for fi in funcs:
            ls = local_shared_vars(fi.node)
            if fi.name not in shared_ret:
                for n in walk_no_nested(fi.node):
                    if isinstance(n, ast.Return) and n.value is not None and expr_shared(n.value, ls):
                        shared_ret.add(fi.name)
                        changed = True
                        break
            # a may-shared value handed to a worker of the module (the tail of several match methods written once) is may-shared there
            for c in walk_no_nested(fi.node):
                if not (isinstance(c, ast.Call) and call_name(c) in by_name) or any(isinstance(a, ast.Starred) for a in c.args):
                    continue
                for g in by_name[call_name(c)]:
                    gp = g.params()
                    eff = gp[1:] if isinstance(c.func, ast.Attribute) and gp[:1] in (['self'], ['cls']) else gp
                    for i, a in enumerate(c.args):
                        if i < len(eff) and expr_shared(a, ls) and eff[i] not in shared_params.get(g.name, ()):
                            shared_params.setdefault(g.name, set()).add(eff[i])
                            changed = True
                    for k in c.keywords:
                        if k.arg in gp and expr_shared(k.value, ls) and k.arg not in shared_params.get(g.name, ()):
                            shared_params.setdefault(g.name, set()).add(k.arg)
                            changed = True
    ctx.extra['parameters_that_may_receive_shared'] = {k: sorted(v) for k, v in shared_params.items()}
    ctx.extra['functions_that_may_return_shared'] = sorted(shared_ret)
    n_checked = 0
    for fi in funcs:
        ls = local_shared_vars(fi.node)
        if fi.qualname == '_MatchState.pop_merge_tagss':
            pass
        for n in walk_no_nested(fi.node):
            recv = None
            what = None
            if isinstance(n, ast.Call) and isinstance(n.func, ast.Attribute) and n.func.attr in MUTATORS:
                recv, what = n.func.value, f'.{n.func.attr}()'
            elif isinstance(n, (ast.Assign, ast.AugAssign, ast.Delete)):
                tgs = n.targets if isinstance(n, (ast.Assign, ast.Delete)) else [n.target]
                for t in tgs:
                    if isinstance(t, ast.Subscript):
                        recv, what = t.value, 'subscript store / delete'
                    elif isinstance(n, ast.AugAssign) and isinstance(t, ast.Name) and isinstance(n.op, (ast.BitOr, ast.Add, ast.BitAnd, ast.Sub)):
                        # x |= ... on a set/dict mutates in place
                        if t.id in ls or t.id in SHARED_NAMES:
                            recv, what = t, 'augmented assignment'
            if recv is None:
                continue
            if isinstance(recv, ast.Name) and (recv.id in ls or recv.id in SHARED_NAMES) or \
                    (isinstance(recv, ast.Attribute) and recv.attr in SHARED_ATTRS) or \
                    (isinstance(recv, ast.Call) and expr_shared(recv, ls)):
                n_checked += 1
                ctx.bad('R17.2', 'match', fi.qualname, n,
                        f'{what} on `{norm(recv)}`, which may be a shared singleton / a pattern\'s static_tags / a dict owned by an '
                        f'earlier match result: data would leak between matches', n.lineno)
            elif isinstance(recv, ast.Name):
                n_checked += 1
                ctx.ok('R17.2', f'{fi.qualname}|{norm(n, 80)}')
    # positive twin: the rule must fire on a synthetic function
    twin = ast.parse('def _twin(mstate):\n    m = mstate.pop_merge_tagss()\n    m.update({1: 2})\n    return m\n').body[0]
    ls = local_shared_vars(twin)
    fired = any(isinstance(n, ast.Call) and isinstance(n.func, ast.Attribute) and n.func.attr in MUTATORS and
                isinstance(n.func.value, ast.Name) and n.func.value.id in ls for n in walk_no_nested(twin))
    if not fired:
        raise AnalysisError('R17.2 positive twin did not fire')


def check_fresh(ctx, fi, cons_call):
    fn = fi.node
    # variable bound to the new state (if any)
    var = None
    for n in walk_no_nested(fn):
        if isinstance(n, ast.Assign) and n.value is cons_call and isinstance(n.targets[0], ast.Name):
            var = n.targets[0].id
    if var is None:
        # passed directly as an argument: fresh for that single call
        ctx.ok('R17.3', f'{fi.qualname}|{norm(cons_call)} passed inline', sample=norm(cons_call))
        return
    cfg = CFG(fn)
    uses = []
    clears = set()
    for node in cfg.nodes:
        for x in subnodes(cfg, node):
            if isinstance(x, ast.Call):
                if isinstance(x.func, ast.Attribute) and x.func.attr == 'clear' and isinstance(x.func.value, ast.Name) and x.func.value.id == var:
                    clears.add(node.id)
                elif any(isinstance(a, ast.Name) and a.id == var for a in list(x.args) + [k.value for k in x.keywords]):
                    uses.append((node, x))
    loops = [n for n in cfg.nodes if n.info.get('loop')]
    for node, call in uses:
        for lp in loops:
            body_entry = [s for lab, s in lp.succ if lab == 'true']
            if not body_entry:
                continue
            inside = cfg.reachable(body_entry[0], lambda n, lab, s: lab != 'exc', stop={lp.id}) | {body_entry[0]}
            if node.id not in inside:
                continue
            # is the use reachable from the loop body entry without passing a clear()?
            if body_entry[0] in clears:
                reach = set()
            else:
                reach = cfg.reachable(body_entry[0], lambda n, lab, s: lab != 'exc' and n.id not in clears, stop={lp.id}) | {body_entry[0]}
            ok = node.id not in reach or node.id in clears
            ctx.check('R17.3', ok, fi.module, fi.qualname, call,
                      f'`{var}` is reused in a loop without `{var}.clear()` before this use in the same iteration: tags / cache of '
                      f'the previous candidate node leak into this match', call.lineno, sample=norm(call))


def check_registries(ctx, m):
    ctx.rule('R17.4', 'pattern registries: a class mapped to a `._match` / `._leaf_asts` method maps to its *own* (possibly '
                      'inherited) method; every combinator class defining _match is in _MATCH_FUNCS; source-text / callback '
                      'patterns use the "unknown" search pre-filter; primitives that cannot be nodes use "none"', 330)
    M = ctx.ev.get('match', '_MATCH_FUNCS')
    L = ctx.ev.get('match', '_LEAF_ASTS_FUNCS')
    if len(M) < 300 or len(L) < 15:
        raise AnalysisError('match registries lost rows')
    classes = {k.name: k for k in list(M) + list(L) if isinstance(k, ClassTok)}

    def own_method(cls: ClassTok, meth: str):
        v = cls.lookup(meth)
        return v if isinstance(v, FuncTok) else None
    for tab_name, tab, meth in (('_MATCH_FUNCS', M, '_match'), ('_LEAF_ASTS_FUNCS', L, '_leaf_asts')):
        for k, v in tab.items():
            if not isinstance(v, FuncTok):
                ctx.bad('R17.4', 'match', tab_name, f'{getattr(k, "name", k)!r}', f'value {v!r} is not a function')
                continue
            if '.' in v.qualname and v.qualname.endswith('.' + meth) and isinstance(k, ClassTok):
                own = own_method(k, meth)
                ctx.check('R17.4', own is not None and own.key == v.key, 'match', tab_name, f'{k.name}: {v.qualname}',
                          f'{k.name} is dispatched to {v.qualname}, which is not the {meth} method {k.name} itself defines or '
                          f'inherits ({own.qualname if own else "none"})')
            else:
                ok = bool(ctx.repo.mod(v.module).func(v.qualname))
                ctx.check('R17.4', ok, 'match', tab_name, f'{getattr(k, "name", k)}: {v.qualname}', 'function not defined')
    # every class in match.py that defines its own _match must be registered under itself
    for q in m.funcs:
        if q.endswith('._match') and q.count('.') == 1:
            cname = q.split('.')[0]
            tok = ctx.ev.get('match', cname, required=False)
            ctx.check('R17.4', isinstance(tok, ClassTok) and tok in M and isinstance(M[tok], FuncTok) and M[tok].qualname == q,
                      'match', '_MATCH_FUNCS', f'{cname} defines _match',
                      f'{cname}._match exists but _MATCH_FUNCS[{cname}] does not dispatch to it: the pattern falls through to the '
                      f'default matcher')
        if q.endswith('._leaf_asts') and q.count('.') == 1:
            cname = q.split('.')[0]
            tok = ctx.ev.get('match', cname, required=False)
            users = [k for k, v in L.items() if isinstance(v, FuncTok) and v.qualname == q]
            ctx.check('R17.4', bool(users), 'match', '_LEAF_ASTS_FUNCS', f'{cname} defines _leaf_asts',
                      f'{cname}._leaf_asts exists but no _LEAF_ASTS_FUNCS row uses it: search() pre-filters that pattern with the '
                      f'default (single type) rule')
    # soundness of the pre-filter for patterns whose match can depend on source text or user code
    must_unknown = {'MRE', 'MCB', 'MTAG'}
    for k, v in L.items():
        nm = k.name if isinstance(k, ClassTok) else (k.__name__ if isinstance(k, type) else norm(repr(k)))
        if nm in must_unknown or nm in ('str',) or 'Pattern' in nm:
            ctx.check('R17.4', isinstance(v, FuncTok) and v.name == '_leaf_asts_unknown', 'match', '_LEAF_ASTS_FUNCS',
                      f'{nm}: {getattr(v, "name", v)}', f'{nm} patterns can match on source text / user code; the search pre-filter must '
                      f'be "unknown" (walk everything) or search() silently misses nodes')
    for nm in must_unknown:
        ctx.check('R17.4', nm in {getattr(k, 'name', None) for k in L}, 'match', '_LEAF_ASTS_FUNCS', f'{nm} present', f'{nm} has no pre-filter row')
    # combinators must have their own pre-filter (the default would return a single type)
    for nm in ('M', 'MNOT', 'MOR', 'MAND', 'MTYPES'):
        k = classes.get(nm)
        ctx.check('R17.4', k is not None and k in L and isinstance(L[k], FuncTok) and L[k].qualname.endswith('._leaf_asts'),
                  'match', '_LEAF_ASTS_FUNCS', f'{nm} combinator', f'combinator {nm} must pre-filter through its own _leaf_asts')
    # search() must use the same table for its walk filter and fall back to "all" on None
    s = ctx.repo.funcs('match', 'search')[0]
    # structural: <W> = _LEAF_ASTS_FUNCS.get(<cls>, <default>)(pat); an `if <W> is None ...:` arm rebinds <W> = True
    from ..struct import called_helpers
    wname, fallback = None, False
    for g in called_helpers(ctx.repo, s, 1):         # search() itself or the worker that computes the filter for it
        wn = None
        for x in walk_no_nested(g.node):
            if isinstance(x, ast.Assign) and isinstance(x.targets[0], ast.Name) and isinstance(x.value, ast.Call) and isinstance(x.value.func, ast.Call) and \
                    isinstance(x.value.func.func, ast.Attribute) and x.value.func.func.attr == 'get' and norm(x.value.func.func.value) == '_LEAF_ASTS_FUNCS':
                wn = x.targets[0].id
        if not wn:
            continue
        wname = wn
        for x in walk_no_nested(g.node):
            if isinstance(x, ast.If) and any(isinstance(c, ast.Compare) and norm(c.left) == wn and isinstance(c.ops[0], ast.Is) and
                                              isinstance(c.comparators[0], ast.Constant) and c.comparators[0].value is None for c in ast.walk(x.test)):
                fallback = fallback or any(
                    (isinstance(b, ast.Assign) and norm(b.targets[0]) == wn and isinstance(b.value, ast.Constant) and b.value.value is True) or
                    (g is not s and isinstance(b, ast.Return) and isinstance(b.value, ast.Constant) and b.value.value is True) for b in x.body)
    ctx.check('R17.4', bool(wname) and fallback, 'match', 'search', 'walk filter = _LEAF_ASTS_FUNCS.get(...)(pat); None -> True',
              'search() must derive its walk filter from _LEAF_ASTS_FUNCS and treat an indeterminate (None) filter as "all nodes"', s.lineno)


def check_leaf_sets(ctx):
    """R17.5: the type -> leaf-types table that search() pre-filters with must agree with the class hierarchy."""
    from .. import tables as T
    ctx.rule('R17.5', 'asttypes.AST2ASTSLEAF[K] == all leaf classes of the grammar that are subclasses of K (class hierarchy of '
                      'the ast module + the repo\'s own slice classes); the category sets ASTS_LEAF_<base> likewise', 130)
    F = T.fields(ctx)
    leaves = list(F)
    A = ctx.ev.get('asttypes', 'AST2ASTSLEAF')
    if not isinstance(A, dict) or len(A) < 120:
        raise AnalysisError('asttypes.AST2ASTSLEAF did not evaluate')

    def in_interp(c):   # class exists in the grammar of the analysing interpreter (else its base is a dummy)
        return not c.is_ast or getattr(c, 'pyclass', None) is not None

    def expected(k):
        # FunctionType (ast.parse(mode='func_type') root) is a `mod` in the stdlib hierarchy but pfst documents it as not
        # supported (ASTS_LEAF_MISC); it can never occur inside a tree that is searched
        return {l for l in leaves if l.issub(k) and not (l.name == 'FunctionType' and k.name != 'FunctionType' and k.name != 'AST')}
    for k, v in A.items():
        if not isinstance(k, ClassTok):
            continue
        if not isinstance(v, (set, frozenset)):
            ctx.bad('R17.5', 'asttypes', 'AST2ASTSLEAF', k.name, f'value is not a set: {v!r}')
            continue
        exp = expected(k)
        got = {c for c in v if isinstance(c, ClassTok)}
        missing = exp - got
        extra = {c for c in got - exp if in_interp(c) and in_interp(k) and c.module == 'ast' or (c.module != 'ast' and k.module != 'ast' and c not in exp and in_interp(c) and c.module != 'asttypes')}
        extra = {c for c in got - exp if in_interp(c) and c.node is None} if in_interp(k) else set()
        ctx.check('R17.5', not missing and not extra, 'asttypes', 'AST2ASTSLEAF', f'{k.name}: {len(got)} leaf types',
                  f'AST2ASTSLEAF[{k.name}] ' + (f'lacks {sorted(c.name for c in missing)}' if missing else '') +
                  (f' has foreign {sorted(c.name for c in extra)}' if extra else '') +
                  ': search() pre-filters the walk with this set, so patterns typed by this class silently skip those nodes',
                  sample={'type': k.name, 'leafs': len(got)})
    cats = {'ASTS_LEAF_MOD': 'mod', 'ASTS_LEAF_STMT': 'stmt', 'ASTS_LEAF_EXPR': 'expr', 'ASTS_LEAF_EXPR_CONTEXT': 'expr_context',
            'ASTS_LEAF_BOOLOP': 'boolop', 'ASTS_LEAF_OPERATOR': 'operator', 'ASTS_LEAF_UNARYOP': 'unaryop', 'ASTS_LEAF_CMPOP': 'cmpop',
            'ASTS_LEAF_PATTERN': 'pattern', 'ASTS_LEAF_TYPE_PARAM': 'type_param', 'ASTS_LEAF__SLICE': '_slice'}
    env = ctx.ev.env('asttypes')
    for name, base in cats.items():
        v = env.get(name)
        b = env.get(base)
        if not isinstance(v, (set, frozenset)) or not isinstance(b, ClassTok):
            raise AnalysisError(f'asttypes.{name} / {base} did not evaluate')
        exp = expected(b)
        got = {c for c in v if isinstance(c, ClassTok)}
        missing = exp - got
        extra = {c for c in got - exp if in_interp(c) and c.node is None}
        ctx.check('R17.5', not missing and not extra, 'asttypes', name, f'{name} vs subclasses of {base}',
                  f'{name} ' + (f'lacks {sorted(c.name for c in missing)} ' if missing else '') +
                  (f'has foreign {sorted(c.name for c in extra)}' if extra else ''))


def check_prefilter_soundness(ctx, m):
    """R17.6: the search pre-filter is an *upper bound* of the node types a pattern can match."""
    from ..struct import enclosing_tests, parent_map
    from .. import tables as T
    ctx.rule('R17.6', 'leaf-type sets are upper bounds: they are united / intersected but complemented only for a bare type '
                      'pattern (which matches every node of its types); a matcher that accepts a whole base class '
                      '(isinstance(tgt, <base>)) has a pre-filter covering all leaf types of that base', 4)
    n_compl = 0
    for q, fis in m.funcs.items():
        if not (q.endswith('._leaf_asts') or q.startswith('_leaf_asts')):
            continue
        for fi in fis:
            par = parent_map(fi.node)
            # names bound from a (recursive) pre-filter call
            bounds = set()
            for n in walk_no_nested(fi.node):
                if isinstance(n, (ast.Assign, ast.NamedExpr)):
                    v = n.value
                    tg = n.targets[0] if isinstance(n, ast.Assign) else n.target
                    if isinstance(tg, ast.Name) and isinstance(v, ast.Call) and ('_LEAF_ASTS_FUNCS' in norm(v, 400) or '_leaf_asts' in norm(v.func, 200)):
                        bounds.add(tg.id)
            for n in walk_no_nested(fi.node):
                if isinstance(n, ast.BinOp) and isinstance(n.op, ast.Sub) and isinstance(n.right, ast.Name) and n.right.id in bounds:
                    n_compl += 1
                    # dominance on the CFG: every path to the complement passes the "pattern is a bare type" edge
                    cfg = CFG(fi.node)
                    sub_nodes = [c for c in cfg.nodes if any(x is n for x in subnodes(cfg, c))]
                    gate = []
                    for c in cfg.nodes:
                        if c.kind == 'test':
                            t = norm(c.ast)
                            if t.startswith('not isinstance(p, type)'):
                                gate.append((c.id, 'false'))
                            elif t.startswith('isinstance(p, type)'):
                                gate.append((c.id, 'true'))
                    if gate and sub_nodes:
                        reach = cfg.reachable(cfg.entry, lambda nd, lab, s_: (nd.id, lab) not in gate)
                        ok = all(c.id not in reach for c in sub_nodes)
                    else:
                        ok = False
                    ctx.check('R17.6', ok, 'match', fi.qualname, n,
                              f'`{norm(n)}` complements an upper bound: `{n.right.id}` lists the types the inner pattern *may* match; '
                              f'unless that pattern is a bare type it rejects some nodes of those types, which the complement then '
                              f'hides from search()', n.lineno, sample=norm(n))
    if n_compl < 1:
        raise AnalysisError('no complement of a leaf-type set found (MNOT._leaf_asts anchor vanished)')
    # matcher acceptance vs default pre-filter for AST-instance patterns
    F = T.fields(ctx)
    M = ctx.ev.get('match', '_MATCH_FUNCS')
    A = ctx.ev.get('asttypes', 'AST2ASTSLEAF')
    env = dict(ctx.ev.env('match'))
    dflt = ctx.repo.funcs('match', '_leaf_asts_default')[0]
    # special cases inside `if isinstance(pat, AST):`
    special = []   # [(ClassTok tested, ClassTok whose leaf set is returned)]
    for n in walk_no_nested(dflt.node):
        if isinstance(n, ast.If) and norm(n.test) == 'isinstance(pat, AST)':
            for st in n.body:
                if isinstance(st, ast.If) and isinstance(st.test, ast.Call) and call_name(st.test) == 'isinstance' and \
                        norm(st.test.args[0]) == 'pat':
                    x = ctx.ev.eval(st.test.args[1], dict(env), 'match')
                    r = st.body[0]
                    if isinstance(x, ClassTok) and isinstance(r, ast.Return) and isinstance(r.value, ast.Subscript) and \
                            norm(r.value.value) == 'AST2ASTSLEAF':
                        y = ctx.ev.eval(r.value.slice, dict(env), 'match')
                        if isinstance(y, ClassTok):
                            special.append((x, y))

    def prefilter(k):
        for x, y in special:
            if k.issub(x):
                return set(A.get(y, ()))
        return set(A.get(k, ()))
    n_m = 0
    for k, v in M.items():
        if not (isinstance(k, ClassTok) and (k.is_ast or k.module == 'asttypes') and isinstance(v, FuncTok)):
            continue
        fis = ctx.repo.mod(v.module).func(v.qualname)
        if not fis or v.name == '_match_node':
            continue
        fn = fis[0].node
        for n in walk_no_nested(fn):
            if isinstance(n, ast.Call) and call_name(n) == 'isinstance' and len(n.args) == 2 and norm(n.args[0]) == 'tgt':
                t = ctx.ev.eval(n.args[1], dict(env), 'match')
                if isinstance(t, ClassTok) and t in A and t is not k and k.issub(t):
                    n_m += 1
                    need = set(A[t])
                    have = prefilter(k)
                    ctx.check('R17.6', need <= have, 'match', '_leaf_asts_default', f'{k.name} instance pattern matched by {v.name}',
                              f'{v.name} accepts any {t.name} target for a {k.name}() pattern (isinstance(tgt, {t.name})), but search() '
                              f'pre-filters that pattern to {sorted(c.name for c in have)}: nodes of types '
                              f'{sorted(c.name for c in need - have)} are never offered to the matcher', dflt.lineno,
                              sample={'pattern': k.name, 'matcher': v.name, 'prefilter': sorted(c.name for c in have)})
    if n_m < 3:
        raise AnalysisError('expr_context matcher anchor vanished (R17.6)')
