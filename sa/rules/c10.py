"""C10 — raw source edits are equivalent to re-parsing the whole file, or change nothing: atomicity ordering only.

R10.1 parse before mutate: in every function of fst_raw.py (all version variants) each mutation of the target tree (the tree of
      `self`: source lines, positions, AST grafts, _set_ast) is dominated by the call that can reject the new text
      (FST.fromsrc / parse_match_case / parse_ExceptHandler / the base reparse); everything before works on fresh copies.
R10.2 nothing that can reject the request (explicit request-dependent raise, parser / validator call) is reachable after the
      first mutation of the target in those functions.
R10.3 every entry into the raw reparse runs under `with ..._modifying(..., raw=True)`; the only ways new nodes are attached are
      `X._set_ast(copy.a, ...)` on an existing node and `self._lines = ...` on the root (the root object keeps its identity).
R10.4 a line list a reparse function writes into before its parser call is never the live line list of a tree.
R10.5 header-only reparse: the children the reparse did not see (everything after the block header) are carried over from the old node
      completely: the set of fields grafted onto the reparsed copy covers every block-list field of the grammar (element type stmt /
      excepthandler / match_case in astutil.FIELDS). A missing field would leave the wrapper's placeholder block in the tree.
Not decided: success <=> the whole new source is valid; equality with a from-scratch parse (incremental strategy is value level;
the design-time disagreements named in the property are not claimed as held).
"""
from __future__ import annotations

import ast
import re

from ..model import AnalysisError, norm, walk_no_nested, call_name
from ..callgraph import Resolver
from ..effects import Effects
from ..cfg import CFG, subnodes
from ..struct import parent_map
from .atomic import Flow
from . import atomic

PROP = 'C10'

PARSERS = {'fromsrc', 'parse_match_case', 'parse_ExceptHandler', '_reparse_raw_base', '_reparse_raw_stmtlike'}
RAW_FUNCS = ('_reparse_raw_base', '_reparse_raw_stmtlike', '_reparse_raw')


def run(ctx):
    ctx.not_decided += ['that the raw edit succeeds exactly when the whole new source is valid for the root kind',
                        'equality of the incrementally reparsed tree (structure and positions) with a from-scratch parse']
    res = Resolver(ctx.repo, ctx.ev)
    ef = Effects(ctx.repo, res)
    ef.compute_mutations()
    ctx.rule('R10.1', 'every mutation of the target tree in fst_raw.py is dominated by a call that parses the complete new text', 8)
    ctx.rule('R10.2', 'no request-rejecting construct is reachable after the first target mutation in fst_raw.py', 3)
    # for this check the parser entry points are request validators too
    saved = atomic.VALIDATOR_RE
    from . import c12
    from .. import effects as _effects
    saved_exc = set(_effects.USER_EXC)
    # in the raw path a RuntimeError that depends on the new text ("could not find node after reparse") is a rejection of the request too
    _effects.USER_EXC.add('RuntimeError')
    try:
        extra = re.compile(saved.pattern[:-2] + r'|fromsrc|_code_as_lines)$')
        atomic.VALIDATOR_RE = extra
        c12.VALIDATOR_RE = extra
        # wrapper summary: a private module-level function of fst_raw whose every normal return passes a parser call (and that does not
        # touch a tree of its own: no `self`) *is* a parser — the parse-before-mutate prologue extracted into a worker
        parsers = set(PARSERS)
        changed = True
        while changed:
            changed = False
            for q0, fis0 in ctx.repo.mod('fst_raw').funcs.items():
                if '.' in q0 or q0 in parsers:
                    continue
                for f0 in fis0:
                    if isinstance(f0.node, ast.Lambda):
                        continue
                    ps0 = [a.arg for a in f0.node.args.posonlyargs + f0.node.args.args]
                    if ps0[:1] == ['self']:
                        continue
                    c0 = CFG(f0.node)

                    def parses(x):
                        if not isinstance(x, ast.Call):
                            return False
                        if call_name(x) in parsers:
                            return True
                        # (parse_match_case if is_match_case else parse_ExceptHandler)(...)
                        return isinstance(x.func, ast.IfExp) and all(isinstance(b, ast.Name) and b.id in parsers for b in (x.func.body, x.func.orelse))
                    pn = {n.id for n in c0.nodes if any(parses(x) for x in subnodes(c0, n))}
                    if pn and c0.exit not in c0.reachable(c0.entry, lambda n, lab, s: lab != 'exc' and n.id not in pn):
                        parsers.add(q0)
                        changed = True
        ctx.extra['parser_wrappers'] = sorted(parsers - set(PARSERS))
        # the raw functions, plus the parser wrappers that are handed the node to reparse (first parameter annotated as a tree node):
        # inside them the same order has to hold
        targets = [(q, fi, 'self') for q in RAW_FUNCS for fi in ctx.repo.funcs('fst_raw', q)]
        for q0 in sorted(parsers - set(PARSERS)):
            for fi in ctx.repo.mod('fst_raw').func(q0):
                a0 = (fi.node.args.posonlyargs + fi.node.args.args)[:1]
                if a0 and a0[0].annotation is not None and norm(a0[0].annotation).strip("'") in ('fst.FST', 'FST'):
                    targets.append((q0, fi, a0[0].arg))
        for q, fi, tree_param in targets:
            if True:
                flow = Flow(ef, fi, tree_param, {})
                cfg = flow.cfg
                # a local that only ever names a parser: `parse_stmtlike = parse_match_case if is_match_case else parse_ExceptHandler`
                def names_parser(e):
                    if isinstance(e, ast.Name):
                        return e.id in parsers
                    if isinstance(e, ast.IfExp):
                        return names_parser(e.body) and names_parser(e.orelse)
                    return False
                binds = {}
                for y in walk_no_nested(fi.node):
                    if isinstance(y, ast.Assign) and len(y.targets) == 1 and isinstance(y.targets[0], ast.Name):
                        binds.setdefault(y.targets[0].id, []).append(y.value)
                    elif isinstance(y, (ast.NamedExpr, ast.AugAssign, ast.For)) and isinstance(y.target, ast.Name):
                        binds.setdefault(y.target.id, []).append(None)
                parser_aliases = {k for k, vs in binds.items() if vs and all(v is not None and names_parser(v) for v in vs)}

                def is_parse_call(x):
                    if not isinstance(x, ast.Call):
                        return False
                    if isinstance(x.func, ast.Name) and x.func.id in parser_aliases:
                        return True
                    if call_name(x) in parsers:
                        return True
                    # (parse_match_case if is_match_case else parse_ExceptHandler)(...)
                    return isinstance(x.func, ast.IfExp) and all(isinstance(b, ast.Name) and b.id in parsers for b in (x.func.body, x.func.orelse))
                parse_nodes = {n.id for n in cfg.nodes if any(is_parse_call(x) for x in subnodes(cfg, n))}
                if not parse_nodes:
                    raise AnalysisError(f'{fi.key}: no parser call found (anchor vanished)')
                # mutation nodes = nodes at which $mut becomes set, or that mutate while it is set
                unparsed = cfg.reachable(cfg.entry, lambda n, lab, s: n.id not in parse_nodes or lab == 'exc') | {cfg.entry}
                n_mut = 0
                for node in cfg.nodes:
                    if node.kind not in ('stmt', 'test', 'iter', 'with', 'case') or not flow.states(node.id):
                        continue
                    clean = [{k: v for k, v in d.items() if k[:1] != '$'} for d in flow.states(node.id)]
                    hits = ef.node_mutates(fi, cfg, node, tree_param, clean)
                    if not hits:
                        continue
                    n_mut += 1
                    own = node.id in parse_nodes      # `_reparse_raw_base(stmtlike, ...)` both parses and mutates: ordered inside it
                    ctx.check('R10.1', node.id not in unparsed or own, fi.module, fi.key.split('.', 1)[1], hits[0],
                              'this modification of the target tree is reachable without a preceding successful parse of the new '
                              'text: invalid text would leave source and tree changed', getattr(hits[0], 'lineno', node.lineno),
                              sample={'function': fi.qualname, 'mutation': norm(hits[0], 70)})
                if n_mut == 0 and q != '_reparse_raw' and q in RAW_FUNCS:
                    raise AnalysisError(f'{fi.key}: no target mutation found')
                findings, n = c12.analyse_function(ctx, ef, fi, tree_param, {})
                if not findings:
                    ctx.ok('R10.2', f'{fi.module}|{fi.qualname}', sample={'function': fi.key, 'nodes_after_mutation': n})
                seen = set()
                for construct, how, state, tag in findings:
                    k = norm(construct, 80) + ' @' + tag
                    if k in seen:
                        continue
                    seen.add(k)
                    ctx.bad('R10.2', fi.module, fi.key.split('.', 1)[1], k,
                            f'{how} is reachable while {state}: the raw edit would raise after having changed source / tree',
                            getattr(construct, 'lineno', 0))
    finally:
        atomic.VALIDATOR_RE = saved
        c12.VALIDATOR_RE = saved
        _effects.USER_EXC.clear()
        _effects.USER_EXC.update(saved_exc)
    check_scratch_lines(ctx, parsers)
    check_entries(ctx)
    check_header_graft(ctx)


def check_scratch_lines(ctx, parsers):
    """R10.4: the reparse splices the new text into a line list *before* it knows whether the result parses (`FST(Pass(), copy_lines, None,
    lcopy=False)` adopts the list, `_put_src` writes into it, then the parser is called).  That list must never be the live line list of
    the target tree: every call site hands over a copy (`root._lines[:]`, a list built from pieces), or its own parameter in the same role."""
    ctx.rule('R10.4', 'a line list that a reparse function writes into before its parser call is, at every call site, not the live line list of a '
                      'tree (`X._lines` or a local bound to it)', 2)
    m = ctx.repo.mod('fst_raw')
    funcs = [fi for q, fis in m.funcs.items() if '.' not in q for fi in fis if not isinstance(fi.node, ast.Lambda)]

    def is_parse(x):
        return isinstance(x, ast.Call) and (call_name(x) in parsers or
                                            (isinstance(x.func, ast.IfExp) and all(isinstance(b, ast.Name) and b.id in parsers for b in (x.func.body, x.func.orelse))))
    # scribbled[function name] = {parameter: description}: parameters written into / adopted by a scratch tree before the parse
    scribbled = {}
    for fi in funcs:
        ps = fi.params()
        cfg = CFG(fi.node)
        pn = {n.id for n in cfg.nodes if any(is_parse(x) for x in subnodes(cfg, n))}
        if not pn:
            continue
        before = cfg.reachable(cfg.entry, lambda n, lab, s: n.id not in pn or lab == 'exc') | {cfg.entry}
        rebound = {x.id for x in walk_no_nested(fi.node) if isinstance(x, ast.Name) and isinstance(x.ctx, ast.Store)}
        for node in cfg.nodes:
            if node.id not in before or node.id in pn:
                continue
            for x in subnodes(cfg, node):
                if isinstance(x, ast.Call) and call_name(x) == 'FST' and len(x.args) >= 2 and isinstance(x.args[1], ast.Name) and \
                        x.args[1].id in ps and x.args[1].id not in rebound and \
                        any(k.arg == 'lcopy' and isinstance(k.value, ast.Constant) and k.value.value is False for k in x.keywords):
                    scribbled.setdefault(fi.name, {})[x.args[1].id] = f'adopted by a scratch tree at line {x.lineno} before the parser call'
                elif isinstance(x, (ast.Assign, ast.AugAssign, ast.Delete)):
                    for t in (x.targets if not isinstance(x, ast.AugAssign) else [x.target]):
                        if isinstance(t, ast.Subscript) and isinstance(t.value, ast.Name) and t.value.id in ps and t.value.id not in rebound:
                            scribbled.setdefault(fi.name, {})[t.value.id] = f'written into at line {x.lineno} before the parser call'
    # a function that hands its own parameter on in that role has the same obligation towards its callers
    changed = True
    while changed:
        changed = False
        for fi in funcs:
            ps = fi.params()
            rebound = {x.id for x in walk_no_nested(fi.node) if isinstance(x, ast.Name) and isinstance(x.ctx, ast.Store)}
            for c in walk_no_nested(fi.node):
                if isinstance(c, ast.Call) and isinstance(c.func, ast.Name) and c.func.id in scribbled:
                    for g in m.func(c.func.id):
                        gp = g.params()
                        for q, why in scribbled[c.func.id].items():
                            a = c.args[gp.index(q)] if gp.index(q) < len(c.args) and not any(isinstance(z, ast.Starred) for z in c.args) else \
                                next((k.value for k in c.keywords if k.arg == q), None)
                            if isinstance(a, ast.Name) and a.id in ps and a.id not in rebound and a.id not in scribbled.get(fi.name, {}):
                                scribbled.setdefault(fi.name, {})[a.id] = f'handed to {c.func.id}() which has it {why}'
                                changed = True
    if not scribbled:
        raise AnalysisError('no reparse function writes into a scratch line list before parsing (anchor vanished)')
    ctx.extra['scratch_line_list_params'] = {k: sorted(v) for k, v in scribbled.items()}

    from ..cfg import solve

    def reaching(fi, name, call):
        """Value expressions bound to local `name` that reach the statement holding `call` (None for a binding whose value is not an expression:
        loop target, unpacking).  `copy_lines = root._lines` followed by `copy_lines = copy_lines[:]` reaches the call as the copy only."""
        cfg = CFG(fi.node)

        def transfer(node, st):
            cur = st
            for x in subnodes(cfg, node):
                if isinstance(x, ast.NamedExpr) and x.target.id == name:
                    cur = frozenset([x.value])
            if node.kind == 'stmt' and isinstance(node.ast, (ast.Assign, ast.AnnAssign, ast.AugAssign)):
                tgs = node.ast.targets if isinstance(node.ast, ast.Assign) else [node.ast.target]
                for t in tgs:
                    if isinstance(t, ast.Name) and t.id == name:
                        cur = frozenset([node.ast.value if isinstance(node.ast, ast.Assign) or getattr(node.ast, 'value', None) is not None and
                                         not isinstance(node.ast, ast.AugAssign) else None])
                    elif any(isinstance(y, ast.Name) and y.id == name and isinstance(y.ctx, ast.Store) for y in ast.walk(t)):
                        cur = frozenset([None])
            elif node.kind == 'iter' and any(isinstance(y, ast.Name) and y.id == name for y in ast.walk(node.ast.target)):
                cur = frozenset([None])
            return cur
        ins = solve(cfg, frozenset(), transfer, lambda a, b: a | b)
        for nd in cfg.nodes:
            if any(x is call for x in subnodes(cfg, nd)):
                return ins.get(nd.id) or frozenset()
        return frozenset()

    def live(fi, e, call=None, depth=0):
        """Does expression `e` (in function fi) possibly denote the live line list of a tree?"""
        if isinstance(e, ast.NamedExpr):
            return live(fi, e.value, call, depth)
        if isinstance(e, ast.Attribute):
            return e.attr in ('_lines', 'lines')
        if isinstance(e, ast.IfExp):
            return live(fi, e.body, call, depth) or live(fi, e.orelse, call, depth)
        if isinstance(e, ast.Name) and depth < 3:
            if call is not None and depth == 0:
                return any(v is not None and live(fi, v, None, depth + 1) for v in reaching(fi, e.id, call))
            for x in walk_no_nested(fi.node):
                if isinstance(x, ast.Assign) and any(isinstance(t, ast.Name) and t.id == e.id for t in x.targets) and live(fi, x.value, None, depth + 1):
                    return True
                if isinstance(x, ast.NamedExpr) and x.target.id == e.id and live(fi, x.value, None, depth + 1):
                    return True
        return False
    n = 0
    for fi in ctx.repo.all_funcs():
        if isinstance(fi.node, ast.Lambda):
            continue
        ps = fi.params()
        for c in walk_no_nested(fi.node):
            if not (isinstance(c, ast.Call) and call_name(c) in scribbled):
                continue
            for g in m.func(call_name(c)):
                gp = g.params()
                bound = isinstance(c.func, ast.Attribute)
                eff = gp[1:] if bound and gp[:1] == ['self'] else gp
                for q, why in scribbled[call_name(c)].items():
                    if q not in eff or any(isinstance(z, ast.Starred) for z in c.args):
                        continue
                    i = eff.index(q)
                    a = c.args[i] if i < len(c.args) else next((k.value for k in c.keywords if k.arg == q), None)
                    if a is None:
                        continue
                    if isinstance(a, ast.Name) and a.id in scribbled.get(fi.name, {}):
                        continue                  # own parameter in the same role: checked at this function's call sites
                    n += 1
                    ctx.check('R10.4', not live(fi, a, c), fi.module, fi.qualname, f'{call_name(c)}(... {q}={norm(a, 40)} ...)',
                              f'`{norm(a, 40)}` may be the live line list of a tree, and {call_name(c)}() has its parameter `{q}` {why}: text that does '
                              f'not parse would stay spliced into the source while tree and positions are the old ones', c.lineno,
                              sample={'function': fi.key, 'call': norm(c, 90)})
    if n < 2:
        raise AnalysisError(f'only {n} call sites hand a scratch line list to a reparse function')


def check_entries(ctx):
    ctx.rule('R10.3', 'raw reparse is entered only under `with X._modifying(..., raw=True)`; new nodes are attached to the live tree '
                      'only through _set_ast on an existing node / `self._lines = ` on the root', 5)
    n = 0
    for fi in ctx.repo.all_funcs():
        if isinstance(fi.node, ast.Lambda) or fi.module == 'fst_raw':
            continue
        par = None
        for c in walk_no_nested(fi.node):
            if isinstance(c, ast.Call) and call_name(c) in ('_reparse_raw', '_put_one_raw', '_put_slice_raw') and \
                    fi.name not in ('_put_one_raw', '_put_slice_raw'):
                par = par or parent_map(fi.node)
                n += 1
                cur, ok = c, False
                while cur in par:
                    cur = par[cur]
                    if isinstance(cur, ast.With):
                        for it in cur.items:
                            e = it.context_expr
                            if isinstance(e, ast.Call) and call_name(e) == '_modifying':
                                raw = e.args[1] if len(e.args) >= 2 else next((k.value for k in e.keywords if k.arg == 'raw'), None)
                                if isinstance(raw, ast.Constant) and raw.value is True:
                                    ok = True
                    if cur is fi.node:
                        break
                ctx.check('R10.3', ok, fi.module, fi.qualname, c,
                          'raw reparse entered without holding the modification lock in raw mode: f-string bookkeeping of a '
                          'structured edit in progress would run against the reparsed tree, and nested edits are not excluded',
                          c.lineno, sample=norm(c, 70))
    if n < 3:
        raise AnalysisError('fewer than 3 entries into the raw reparse found')
    # attachment points in fst_raw
    m = ctx.repo.mod('fst_raw')
    for q in RAW_FUNCS:
        for fi in m.func(q):
            for node in walk_no_nested(fi.node):
                if isinstance(node, ast.Return) and node.value is not None and q == '_reparse_raw':
                    ctx.check('R10.3', isinstance(node.value, ast.Tuple), fi.module, fi.qualname, node,
                              '_reparse_raw must return the end position, not a replacement node', node.lineno)
                if isinstance(node, ast.Assign):
                    for t in node.targets:
                        if isinstance(t, ast.Attribute) and t.attr in ('a', 'f', 'parent', 'pfield') and norm(t.value) in ('self', 'root', 'stmtlike'):
                            ctx.bad('R10.3', fi.module, fi.qualname, node, 'direct re-linking of a live node instead of _set_ast: identity / links '
                                                                            'of the root are not guaranteed', node.lineno)
            sets = [c for c in walk_no_nested(fi.node) if isinstance(c, ast.Call) and call_name(c) == '_set_ast']
            for c in sets:
                ctx.check('R10.3', norm(c.func.value) in ('self', 'stmtlike'), fi.module, fi.qualname, c,
                          '_set_ast must be applied to the existing node being reparsed', c.lineno)


BLOCK_ELEMENT_TYPES = ('stmt*', 'excepthandler*', 'match_case*')


def check_header_graft(ctx):
    """R10.5: `_reparse_raw_stmtlike` reparses only the header of a block statement inside a wrapper whose blocks are placeholders (`pass`,
    `case _: pass`, `except: pass`) and then grafts the old blocks onto the copy.  The grafted field set is evaluated statically (whatever
    constant or expression the loop iterates over) and compared with the block-list fields of the grammar table."""
    from ..tables import fields
    ctx.rule('R10.5', 'the header-only raw reparse grafts every block-list field of the grammar (stmt* / excepthandler* / match_case*) from the '
                      'old node onto the reparsed copy', 5)
    F = fields(ctx)
    required = {}
    for cls, fs in F.items():
        for f, ty in fs:
            if ty in BLOCK_ELEMENT_TYPES:
                required.setdefault(f, []).append(getattr(cls, 'name', str(cls)))
    if len(required) < 5:
        raise AnalysisError(f'astutil.FIELDS yields only {sorted(required)} as block-list fields (>= 5 expected)')
    n_sites = 0
    anchor = ctx.repo.find_funcs('fst_raw', '_reparse_raw_stmtlike')
    if not anchor:
        raise AnalysisError('fst_raw._reparse_raw_stmtlike not found (anchor vanished)')
    # the graft may live in a worker split off the anchor function: every module-level function of its module is searched
    home = ctx.repo.mod(anchor[0].module)
    cands = [fi for q, fis in home.funcs.items() for fi in fis if not isinstance(fi.node, ast.Lambda)]
    explicit_only = []
    for fi in cands:
        grafted, site, unknown, loop = set(), None, None, None
        for x in walk_no_nested(fi.node):
            if isinstance(x, ast.For) and isinstance(x.target, ast.Name):
                v = x.target.id
                sets = [c for y in x.body for c in ast.walk(y) if isinstance(c, ast.Call) and call_name(c) == 'setattr' and len(c.args) == 3 and
                        isinstance(c.args[1], ast.Name) and c.args[1].id == v]
                gets = [c for y in x.body for c in ast.walk(y) if isinstance(c, ast.Call) and call_name(c) == 'getattr' and len(c.args) >= 2 and
                        isinstance(c.args[1], ast.Name) and c.args[1].id == v]
                if not sets or not gets:
                    continue
                loop = loop or x
                try:
                    val = ctx.ev.eval(x.iter, dict(ctx.ev.env(fi.module)), fi.module)
                except Exception:
                    val = None
                if isinstance(val, (set, frozenset, tuple, list)) and all(isinstance(s, str) for s in val):
                    grafted |= set(val)
                else:
                    unknown = x
            elif isinstance(x, ast.Assign):
                for t in x.targets:
                    if isinstance(t, ast.Attribute) and t.attr in required and isinstance(x.value, ast.Attribute) and x.value.attr == t.attr and \
                            norm(t.value) != norm(x.value.value):
                        grafted.add(t.attr)
                        site = site or x
        if loop is None:
            # explicit stores only (`copya.body = stmtlikea.body` on the path restricted to match_case / ExceptHandler, whose only block is
            # `body`): complete for the classes that path serves; judged only when no general graft loop exists anywhere
            if site is not None:
                explicit_only.append((fi, site, grafted))
            continue
        if unknown is not None:
            raise AnalysisError(f'{fi.key}: the field set of the graft loop at line {unknown.lineno} (`{norm(unknown.iter, 60)}`) did not evaluate '
                                f'statically to a collection of names')
        n_sites += 1
        for f in sorted(required):
            ctx.check('R10.5', f in grafted, fi.module, fi.qualname, f'graft of block field {f!r}',
                      f'after a header-only reparse the old `{f}` ({", ".join(sorted(required[f])[:4])}) is not carried over to the reparsed copy: '
                      f'the tree keeps the placeholder block of the wrapper while the source keeps the real one (tree differs from a full parse)',
                      loop.lineno, sample={'function': fi.key, 'field': f, 'grafted': sorted(grafted)})
    if not n_sites and explicit_only:
        union = set().union(*(g for _, _, g in explicit_only))
        fi, site, _ = explicit_only[0]
        n_sites += 1
        for f in sorted(required):
            ctx.check('R10.5', f in union, fi.module, fi.qualname, f'graft of block field {f!r}',
                      f'after a header-only reparse the old `{f}` ({", ".join(sorted(required[f])[:4])}) is not carried over to the reparsed copy by '
                      f'any of the explicit stores in {sorted(x.qualname for x, _, _ in explicit_only)}', site.lineno,
                      sample={'function': fi.key, 'field': f, 'grafted': sorted(union)})
    if not n_sites:
        raise AnalysisError(f'{home.name if hasattr(home, "name") else "fst_raw"}: no graft of the old blocks onto a reparsed copy found (anchor vanished)')
