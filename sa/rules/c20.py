"""C20 — options and edits are isolated per call, per block and per thread.

R20.1 inventory of module-level mutable state and of every run-time writer; writers must be in the frozen allow-list.
R20.2 the option defaults live in a threading.local instance initialised from a table that has no writer.
R20.3 set_options(): validate everything, collect old values, then update; nothing after the update can raise.
R20.4 options(): restore in `finally`; in-repo uses are `with` items.
R20.5 every public method with **options validates them before any kernel call / target mutation.
R20.6 no function mutates an `options` mapping it did not create.
R20.7 option registries agree; literal option names used in the package exist.
R20.8 the modification registry is keyed by the tree root everywhere.
Thread clause: non-interference by absence of shared writes (R20.1 + R20.2 + R20.8); schedules are not enumerated.
"""
from __future__ import annotations

import ast

from ..model import AnalysisError, norm, walk_no_nested, call_name
from ..consteval import ClassTok, FuncTok
from ..cfg import CFG, subnodes
from ..gstate import mutable_globals, writers, MUTATORS
from ..struct import parent_map

PROP = 'C20'

# (module, global) -> set of function qualnames allowed to write it at run time, with the reason
ALLOWED_WRITERS = {
    # (the context manager may be split into a version-independent base class and per-version subclasses: `_Modifying*`)
    ('fst_core', '_MODIFYING'): ({'re:_Modifying\\w*\\.(enter|success|fail)'},
                                 'modification registry: written only by the context manager protocol'),
    ('fst_options', '_OPTIONS'): ({'set_options', 'options', '_ThreadOptions.__init__'},
                                  'per-thread option defaults: written only by set_options() and the options() restore'),
    ('common', '_pyver_registry'): ({'pyver.<locals>.decorator'}, 'filled by the @pyver decorator at import time'),
    ('fst_misc', '_DUMP_IGNORE_FIELDS'): ({'set_dump_ignore_fields'}, 'cosmetic dump() setting, documented as global'),
}
KERNEL = {'_put_one', '_put_slice', '_get_one', '_get_slice', '_reparse_raw', '_put_src', '_modifying'}


def run(ctx):
    ctx.not_decided += ['thread schedules as such (argument is non-interference: no shared written state between trees)',
                        'that option *values* have the documented effect']
    ctx.assumptions = ['CPython executes single dict item get / set / delete atomically (GIL or per-object lock)']
    repo = ctx.repo
    mg = mutable_globals(repo)

    # ---- R20.1 -------------------------------------------------------------------------------------------------------
    ctx.rule('R20.1', 'every run-time write that can reach a module-level mutable object (direct, via alias, via .__dict__, '
                      'via `global`) is made by a function in the frozen allow-list for that object', 10)
    ctx.extra['mutable_module_level_objects'] = len(mg)
    if len(mg) < 80:
        raise AnalysisError(f'only {len(mg)} module-level mutable objects found (>= 80 expected)')
    n_w = 0
    callers_of = {}
    for cfi in repo.all_funcs():
        for c in ast.walk(cfi.node):
            if isinstance(c, ast.Call) and call_name(c):
                callers_of.setdefault(call_name(c), set()).add((cfi.module, cfi.qualname))

    def is_allowed(q, allowed):
        import re as _re
        return q in allowed or any(a.startswith('re:') and _re.fullmatch(a[3:], q) for a in allowed)

    def only_for(fi, g, allowed, depth=0):
        """A private helper that exists only to serve the allowed writers of `g`: every function that calls it by name is an allowed
        writer (same module) or such a helper itself — the allow-list is closed under extracting a helper from its members."""
        if not fi.name.startswith('_') or fi.name.startswith('__') or depth > 2:
            return False
        cs = callers_of.get(fi.name, set())
        if not cs:
            return False
        for (cm_, cq) in cs:
            if cm_ == g[0] and is_allowed(cq, allowed):
                continue
            cfis = repo.mod(cm_).func(cq)
            if not cfis or not only_for(cfis[0], g, allowed, depth + 1):
                return False
        return True
    for g, fi, node, kind in writers(repo, mg):
        n_w += 1
        allowed, reason = ALLOWED_WRITERS.get(g, (set(), ''))
        ctx.check('R20.1', is_allowed(fi.qualname, allowed) or (bool(allowed) and fi.module == g[0] and only_for(fi, g, allowed)), fi.module, fi.qualname, f'{kind} on {g[0]}.{g[1]}: {norm(node, 80)}',
                  f'{fi.module}.{fi.qualname} writes process-global {g[0]}.{g[1]} at run time ({kind}); allowed writers are '
                  f'{sorted(allowed) or "none (read-only table)"}: state would leak between calls / threads / trees',
                  node.lineno, sample={'global': f'{g[0]}.{g[1]}', 'writer': fi.key, 'kind': kind})
    for g in ALLOWED_WRITERS:
        if g not in mg and g != ('fst_misc', '_DUMP_IGNORE_FIELDS'):   # that one is an immutable tuple rebound via `global`
            raise AnalysisError(f'anchor {g[0]}.{g[1]} is no longer a module-level mutable object')

    # ---- R20.2 -------------------------------------------------------------------------------------------------------
    ctx.rule('R20.2', '_OPTIONS is an instance of a threading.local subclass whose __init__ copies _GLOBAL_OPTIONS_W_DEFAULTS; '
                      'defaults are read only through _OPTIONS', 4)
    om = repo.mod('fst_options')
    cls = om.classes.get('_ThreadOptions')
    ok = cls is not None and any(norm(b) in ('threading.local', 'local') for b in cls.bases)
    ctx.check('R20.2', ok, 'fst_options', '_ThreadOptions', 'class _ThreadOptions(threading.local)',
              'option defaults must live in a threading.local subclass, otherwise set_options() in one thread is visible in all',
              cls.lineno if cls else 0)
    if ok and 'local' in [norm(b) for b in cls.bases]:
        ctx.check('R20.2', om.imports.get('local', ('', ''))[0] == 'threading', 'fst_options', '_ThreadOptions', 'local is threading.local', 'base `local` is not threading.local')
    init = om.func('_ThreadOptions.__init__')
    copies = bool(init) and any(isinstance(x, ast.Call) and call_name(x) == 'update' and x.args and norm(x.args[0]) == '_GLOBAL_OPTIONS_W_DEFAULTS'
                                and norm(x.func.value) in ('self.__dict__', 'vars(self)') for x in ast.walk(init[0].node))
    ctx.check('R20.2', copies, 'fst_options', '_ThreadOptions.__init__',
              'self.__dict__.update(_GLOBAL_OPTIONS_W_DEFAULTS)', 'each thread must start from a copy of the default table',
              init[0].lineno if init else 0)
    inst = [st for st in om.tree.body if isinstance(st, ast.Assign) and norm(st.targets[0]) == '_OPTIONS']
    ctx.check('R20.2', len(inst) == 1 and norm(inst[0].value) == '_ThreadOptions()', 'fst_options', '<module>',
              '_OPTIONS = _ThreadOptions()', '_OPTIONS must be the single thread-local instance', inst[0].lineno if inst else 0)
    # no function reads defaults directly from the table (would bypass the thread's copy)
    for fi in repo.all_funcs():
        if isinstance(fi.node, ast.Lambda) or fi.qualname == '_ThreadOptions.__init__':
            continue
        for n in walk_no_nested(fi.node):
            if isinstance(n, ast.Name) and n.id == '_GLOBAL_OPTIONS_W_DEFAULTS' and isinstance(n.ctx, ast.Load):
                ctx.bad('R20.2', fi.module, fi.qualname, n, 'run-time read of the process-wide default table instead of the '
                                                             'thread-local _OPTIONS', n.lineno)
    ctx.ok('R20.2', 'no run-time reader of _GLOBAL_OPTIONS_W_DEFAULTS outside _ThreadOptions.__init__')

    # ---- R20.11 ------------------------------------------------------------------------------------------------------
    ctx.rule('R20.11', 'the per-thread option store is dereferenced at call time only: no reference to _OPTIONS in a default-argument value, '
                       'decorator, class body or module-level statement (evaluated once, at import, in the importing thread)', 4)

    def import_time_refs(tree):
        """(Name node, where) for loads of `_OPTIONS` that are evaluated when the module is imported."""
        out, n_run = [], 0

        def names(e):
            return [x for x in ast.walk(e) if isinstance(x, ast.Name) and x.id == '_OPTIONS' and isinstance(x.ctx, ast.Load)]

        def scan(stmts, where):
            nonlocal n_run
            for st in stmts:
                if isinstance(st, (ast.FunctionDef, ast.AsyncFunctionDef)):
                    a = st.args
                    for d in list(a.defaults) + [k for k in a.kw_defaults if k is not None] + list(st.decorator_list):
                        out.extend((x, f'default value / decorator of {st.name}()') for x in names(d))
                    for b in st.body:
                        n_run += len(names(b)) - sum(len(names(d)) for f in ast.walk(b) if isinstance(f, (ast.FunctionDef, ast.AsyncFunctionDef, ast.Lambda))
                                                     for d in list(f.args.defaults) + [k for k in f.args.kw_defaults if k is not None])
                        # defaults of nested functions / lambdas are evaluated when the enclosing function runs: call time, fine
                elif isinstance(st, ast.ClassDef):
                    for d in st.decorator_list + st.bases:
                        out.extend((x, f'class header of {st.name}') for x in names(d))
                    scan(st.body, f'class body of {st.name}')
                elif isinstance(st, (ast.If, ast.Try, ast.With, ast.For, ast.While)):
                    for fld in ('test', 'iter'):
                        if getattr(st, fld, None) is not None:
                            out.extend((x, where) for x in names(getattr(st, fld)))
                    for fld in ('body', 'orelse', 'finalbody'):
                        scan(getattr(st, fld, []) or [], where)
                    for h in getattr(st, 'handlers', []) or []:
                        scan(h.body, where)
                else:
                    if isinstance(st, ast.Assign) and norm(st.targets[0]) == '_OPTIONS':
                        continue
                    for x in names(st):
                        # a lambda body at module level is deferred; its defaults are not
                        out.append((x, where))
        scan(tree.body, 'module level')
        return out, n_run
    total_run = 0
    for mname, m in repo.modules.items():
        refs, n_run = import_time_refs(m.tree)
        total_run += n_run
        par = None
        for x, where in refs:
            # inside a module-level lambda *body* the name is looked up at call time
            par = par or {c: p for p in ast.walk(m.tree) for c in ast.iter_child_nodes(p)}
            cur, deferred = x, False
            while cur in par:
                p_ = par[cur]
                if isinstance(p_, ast.Lambda) and cur is p_.body:
                    deferred = True
                    break
                cur = p_
            if deferred:
                total_run += 1
                continue
            ctx.bad('R20.11', mname, '<module>', f'_OPTIONS in {where}: {norm(par[x], 60)}',
                    'the thread-local option store is dereferenced while the module is imported: the value (or the __dict__) captured belongs to the '
                    'importing thread, every other thread reads and writes that thread\'s defaults through it', x.lineno)
    for i in range(total_run):
        ctx.ok('R20.11', f'call-time reference #{i + 1} to _OPTIONS', sample={'call_time_references': total_run})
    if total_run < 3:
        raise AnalysisError(f'only {total_run} call-time references to _OPTIONS found')

    # ---- R20.3 -------------------------------------------------------------------------------------------------------
    ctx.rule('R20.3', 'set_options(): check_options(options, False) and the complete old-value lookup dominate the update; '
                      'no statement after the update can raise', 3)
    so = repo.funcs('fst_options', 'set_options')[0]
    cfg = CFG(so.node)
    # names of the thread-local store inside the function: `_OPTIONS.__dict__` and locals bound to it
    store_names = {'_OPTIONS.__dict__', 'vars(_OPTIONS)'}
    for n in walk_no_nested(so.node):
        if isinstance(n, ast.Assign) and isinstance(n.targets[0], ast.Name) and norm(n.value) in store_names:
            store_names.add(n.targets[0].id)
    opt_param = so.node.args.kwarg.arg if so.node.args.kwarg else 'options'
    upd = [n for n in cfg.nodes if any(isinstance(x, ast.Call) and call_name(x) == 'update' and norm(x.func.value) in store_names
                                       for x in subnodes(cfg, n))]
    chk = [n for n in cfg.nodes if any(isinstance(x, ast.Call) and call_name(x) == 'check_options' and len(x.args) >= 2 and
                                       norm(x.args[0]) == opt_param and norm(x.args[1]) == 'False' for x in subnodes(cfg, n))]
    # the snapshot: the local that is returned, bound to a comprehension over the requested options reading the store
    ret_names = {norm(n.value) for n in walk_no_nested(so.node) if isinstance(n, ast.Return) and isinstance(n.value, ast.Name)}
    def reads_store(e):
        return any(isinstance(x, ast.Subscript) and norm(x.value) in store_names for x in ast.walk(e))
    # form 1: `snap = {o: store[o] for o in options}`
    old = [n for n in cfg.nodes if n.kind == 'stmt' and isinstance(n.ast, ast.Assign) and norm(n.ast.targets[0]) in ret_names and
           not (isinstance(n.ast.value, ast.Dict) and not n.ast.value.keys)]
    # form 2: `snap = {}` ... `for o in options: snap[o] = store[o]` — the loop is the lookup
    loop_form = [n for n in cfg.nodes if n.kind == 'iter' and norm(n.ast.iter) == opt_param and isinstance(n.ast.target, ast.Name) and
                 any(isinstance(y, ast.Assign) and isinstance(y.targets[0], ast.Subscript) and norm(y.targets[0].value) in ret_names and
                     norm(y.targets[0].slice) == n.ast.target.id and reads_store(y.value) for b in n.ast.body for y in ast.walk(b))]
    old = old + loop_form
    # any other write into the thread-local store inside set_options (e.g. per-item assignment in a loop) is an update too
    other_writes = [n for n in cfg.nodes if n.kind == 'stmt' and isinstance(n.ast, (ast.Assign, ast.AugAssign)) and any(
        isinstance(t, ast.Subscript) and norm(t.value) in store_names
        for t in (n.ast.targets if isinstance(n.ast, ast.Assign) else [n.ast.target]))]
    all_upd = upd + other_writes
    ctx.check('R20.3', len(upd) == 1 and not other_writes and len(chk) >= 1 and len(old) == 1, 'fst_options', 'set_options',
              f'{len(chk)} check_options, {len(old)} old_options lookups, {len(upd)} bulk updates, {len(other_writes)} item writes',
              'set_options must validate, snapshot all old values, then perform ONE bulk update; item-wise writes interleaved with '
              'lookups leave earlier options set when a later one is rejected', so.lineno)
    if all_upd and chk and old:
        for u in all_upd:
            for name, pre in (('check_options(options, False)', chk), ('old_options lookup', old)):
                reach = cfg.reachable(cfg.entry, lambda n, lab, s: n.id not in {p.id for p in pre} or lab == 'exc')
                # an 'exc' edge out of the pre node does not count as passing it
                reach2 = cfg.reachable(cfg.entry, lambda n, lab, s: not (n.id in {p.id for p in pre}))
                ctx.check('R20.3', u.id not in reach2, 'fst_options', 'set_options', f'{name} dominates the update',
                          f'the thread-local store can be updated on a path that skipped `{name}`', u.lineno)
            after = cfg.reachable(u.id, lambda n, lab, s: lab != 'exc')
            risky = [cfg.nodes[i] for i in after if cfg.nodes[i].kind in ('stmt', 'test', 'iter', 'with') and
                     (cfg.nodes[i].info.get('raises') or any(isinstance(x, (ast.Call, ast.Subscript, ast.Raise)) for x in subnodes(cfg, cfg.nodes[i])))
                     and i != u.id]
            ctx.check('R20.3', not risky, 'fst_options', 'set_options', 'nothing after the update can raise',
                      f'after the defaults were changed, {[norm(r.ast, 60) for r in risky][:2]} can still raise: the caller sees an '
                      f'error but the options stay changed', u.lineno)
        # the old-value lookup must cover every key of `options` (comprehension over options) and turn KeyError into ValueError
        if old[0].kind == 'iter':
            ok = True           # established by construction of `loop_form`
        else:
            o = old[0].ast.value
            ok = isinstance(o, ast.DictComp) and norm(o.generators[0].iter) == opt_param and reads_store(o.value)
        ctx.check('R20.3', ok, 'fst_options', 'set_options', norm(old[0].ast, 100),
                  'the snapshot of old values must look up every key of `options` in the store (unknown names are rejected here)', old[0].lineno)

    # ---- R20.4 -------------------------------------------------------------------------------------------------------
    ctx.rule('R20.4', 'options(): set_options() before the try, yield inside try, restore of exactly old_options in finally; every '
                      'in-repo use of .options(...) is a with-item', 3)
    op = repo.funcs('fst_options', 'options')[0]
    trys = [n for n in walk_no_nested(op.node) if isinstance(n, ast.Try)]
    ok = False
    if len(trys) == 1:
        t = trys[0]
        has_yield = any(isinstance(x, ast.Yield) for s in t.body for x in ast.walk(s))
        restore = [norm(s) for s in t.finalbody]
        pre = [s for s in op.node.body if s.lineno < t.lineno and isinstance(s, ast.Assign) and norm(s.targets[0]) == 'old_options'
               and 'set_options(**options)' in norm(s.value)]
        ok = has_yield and restore == ['_OPTIONS.__dict__.update(old_options)'] and len(pre) == 1 and not t.handlers
        yields_outside = [x for x in walk_no_nested(op.node) if isinstance(x, ast.Yield) and not any(x in list(ast.walk(s)) for s in t.body)]
        ok = ok and not yields_outside
    ctx.check('R20.4', ok, 'fst_options', 'options', 'old = set_options(**options); try: yield ...; finally: _OPTIONS.__dict__.update(old)',
              'the options() context manager must restore exactly the previous values in a finally clause (also when the block raises)', op.lineno)
    decs = [norm(d) for d in op.node.decorator_list]
    ctx.check('R20.4', 'contextmanager' in decs and 'staticmethod' in decs, 'fst_options', 'options', f'decorators {decs}', 'options must be a @contextmanager', op.lineno)
    n_uses = 0
    for fi in repo.all_funcs():
        if isinstance(fi.node, ast.Lambda):
            continue
        par = None
        for n in walk_no_nested(fi.node):
            if isinstance(n, ast.Call) and call_name(n) == 'options' and isinstance(n.func, ast.Attribute) and norm(n.func.value) in ('FST', 'fst.FST', 'self', 'fst_'):
                par = par or parent_map(fi.node)
                p = par.get(n)
                n_uses += 1
                ctx.check('R20.4', isinstance(p, ast.withitem), fi.module, fi.qualname, n,
                          'FST.options(...) used outside a `with`: the previous option values are never restored', n.lineno, sample=norm(n, 80))
    ctx.extra['in_repo_options_blocks'] = n_uses

    check_validate_first(ctx)
    check_no_leak(ctx)
    check_registries(ctx)

    # ---- R20.8 -------------------------------------------------------------------------------------------------------
    ctx.rule('R20.8', 'every access to _MODIFYING is keyed by a variable bound from `.root` in the same method (or by the parameter of a helper that every call site hands a root)', 4)
    cm = repo.mod('fst_core')
    # `self.root` is a root when the manager classes bind it from `<node>.root` (possibly in another method than the one that uses it)
    class_root_attrs = set()
    for q, fis in cm.funcs.items():
        if not q.startswith('_Modifying'):
            continue
        for fi in fis:
            for n in walk_no_nested(fi.node):
                if isinstance(n, ast.Assign) and isinstance(n.value, ast.Attribute) and n.value.attr == 'root':
                    class_root_attrs |= {norm(t) for t in n.targets if isinstance(t, ast.Attribute) and norm(t.value) == 'self'}
    for q, fis in cm.funcs.items():
        for fi in fis:
            if isinstance(fi.node, ast.Lambda):
                continue
            roots = set(class_root_attrs)
            for n in walk_no_nested(fi.node):
                if isinstance(n, ast.Assign):
                    if isinstance(n.value, ast.Attribute) and n.value.attr == 'root':
                        for t in n.targets:
                            for x in ast.walk(t):
                                if isinstance(x, ast.Name):
                                    roots.add(x.id)
                            if isinstance(t, ast.Attribute):
                                roots.add(norm(t))
                    # self.root = root = fst_.root
            for n in walk_no_nested(fi.node):
                key = None
                if isinstance(n, ast.Subscript) and norm(n.value) == '_MODIFYING':
                    key = n.slice
                elif isinstance(n, ast.Call) and isinstance(n.func, ast.Attribute) and norm(n.func.value) == '_MODIFYING':
                    if n.func.attr != 'get' or not n.args:
                        ctx.bad('R20.8', fi.module, fi.qualname, n,
                                f'_MODIFYING.{n.func.attr}(...) is a whole-registry operation: it touches the entries of other trees '
                                f'that other threads are editing; only keyed get / set / del by the own root is allowed', n.lineno)
                        continue
                    key = n.args[0]
                if key is not None:
                    ok = norm(key) in roots
                    if not ok and isinstance(key, ast.Name) and '.' not in fi.qualname and \
                            key.id in [a.arg for a in fi.node.args.posonlyargs + fi.node.args.args]:
                        # a helper keyed by its parameter: every call site has to hand it a root (`X.root`, or a local bound from `.root`)
                        pos = [a.arg for a in fi.node.args.posonlyargs + fi.node.args.args].index(key.id)
                        sites = []
                        for cfi in repo.all_funcs():
                            if isinstance(cfi.node, ast.Lambda):
                                continue
                            croots = {x.id for a_ in walk_no_nested(cfi.node) if isinstance(a_, ast.Assign) and isinstance(a_.value, ast.Attribute) and
                                      a_.value.attr == 'root' for t in a_.targets for x in ast.walk(t) if isinstance(x, ast.Name)}
                            for c in walk_no_nested(cfi.node):
                                if isinstance(c, ast.Call) and isinstance(c.func, ast.Name) and c.func.id == fi.name:
                                    arg = c.args[pos] if pos < len(c.args) else next((k.value for k in c.keywords if k.arg == key.id), None)
                                    sites.append(arg is not None and ((isinstance(arg, ast.Attribute) and arg.attr == 'root') or
                                                                      (isinstance(arg, ast.Name) and arg.id in croots)))
                        ok = bool(sites) and all(sites)
                    ctx.check('R20.8', ok, fi.module, fi.qualname, n,
                              f'_MODIFYING is accessed with key `{norm(key)}` which is not bound from `.root` here: two trees (threads) '
                              f'would share or miss each other\'s registry entry', n.lineno, sample=norm(n))


# ----------------------------------------------------------------------------------------------------------------------
    check_per_call_options_honoured(ctx)
    check_option_carrying_params(ctx)


def public_option_methods(ctx):
    out = []
    ns = ctx.repo.fst_namespace()
    for name, fis in ns.items():
        for fi in fis:
            if isinstance(fi.node, ast.Lambda):
                continue
            kw = fi.node.args.kwarg
            if kw is not None and kw.arg == 'options' and not name.startswith('_'):
                out.append(fi)
    for q, fis in ctx.repo.mod('view').funcs.items():
        if q.count('.') == 1 and q.split('.')[0].startswith('FSTView') and not q.split('.')[1].startswith('_'):
            for fi in fis:
                kw = fi.node.args.kwarg
                if kw is not None and kw.arg == 'options':
                    out.append(fi)
    for q in ('sub', 'subn'):
        out += [fi for fi in ctx.repo.find_funcs('match', q)]
    return out


def check_validate_first(ctx):
    ctx.rule('R20.5', 'every public method taking **options calls check_options(options ...) (or delegates all work to a sibling '
                      'that does) before any kernel call / target mutation on every path', 25)
    fns = public_option_methods(ctx)
    if len(fns) < 20:
        raise AnalysisError(f'only {len(fns)} public **options methods found')
    names = {fi.name for fi in fns}
    for fi in fns:
        cfg = CFG(fi.node)
        chk = set()
        kern = []
        for n in cfg.nodes:
            for x in subnodes(cfg, n):
                if isinstance(x, ast.Call):
                    cn = call_name(x)
                    if cn == 'check_options' and x.args and norm(x.args[0]) in ('options',):
                        chk.add(n.id)
                    elif cn in names and isinstance(x.func, ast.Attribute) and any(
                            (kw.arg is None and norm(kw.value) == 'options') for kw in x.keywords):
                        chk.add(n.id)          # delegates with **options to a public sibling, which validates first itself
                    elif cn in KERNEL and isinstance(x.func, ast.Attribute):
                        kern.append((n, x))
        reach = cfg.reachable(cfg.entry, lambda n, lab, s: n.id not in chk)
        reach.add(cfg.entry)
        if not kern:
            # no kernel call at all (dummy views, pure delegators): nothing can be changed before validation
            ctx.ok('R20.5', f'{fi.module}|{fi.qualname}|no kernel call')
        for n, x in kern:
            ctx.check('R20.5', n.id not in reach or n.id in chk, fi.module, fi.qualname, x,
                      f'{call_name(x)}(...) is reachable before check_options(options): an unknown / invalid option is only noticed '
                      f'after the tree may have been touched', x.lineno, sample=norm(x, 80))


def check_no_leak(ctx):
    ctx.rule('R20.6', 'no function mutates an `options` / `*_options` mapping it received; own **kwargs dicts excepted', 2)
    n = 0
    for fi in ctx.repo.all_funcs():
        if isinstance(fi.node, ast.Lambda):
            continue
        params = fi.params()
        opt_params = [p for p in params if p == 'options' or p.endswith('_options')]
        if not opt_params:
            continue
        own_kwargs = fi.node.args.kwarg.arg if fi.node.args.kwarg else None
        rebound = {x.id for x in walk_no_nested(fi.node) if isinstance(x, ast.Name) and isinstance(x.ctx, ast.Store)}
        for node in walk_no_nested(fi.node):
            recv = None
            if isinstance(node, ast.Call) and isinstance(node.func, ast.Attribute) and node.func.attr in MUTATORS:
                recv = node.func.value
            elif isinstance(node, (ast.Assign, ast.AugAssign, ast.Delete)):
                for t in (node.targets if isinstance(node, (ast.Assign, ast.Delete)) else [node.target]):
                    if isinstance(t, ast.Subscript):
                        recv = t.value
            if isinstance(recv, ast.Name) and recv.id in opt_params:
                n += 1
                own = recv.id == own_kwargs
                # a name that was rebound to a fresh dict before (options = dict(options, ...)) is the function's own
                ctx.check('R20.6', own or recv.id in rebound, fi.module, fi.qualname, node,
                          f'`{recv.id}` is the caller\'s mapping; mutating it leaks this call\'s options into the caller\'s later calls',
                          node.lineno, sample=norm(node, 80))
    ctx.extra['options_mutations_examined'] = n


def check_registries(ctx):
    ctx.rule('R20.7', 'keys(_GLOBAL_OPTIONS_W_DEFAULTS) + _DYN_OPTIONS == keys(_ALL_OPTION_CHECK_FUNCS); every literal option name '
                      'used with get_option / options.get / _OPTIONS.<x> / FST.options(...) / set_options(...) exists; the names '
                      'reconcile() rejects equal the keyword set of its FST.options block', 40)
    G = ctx.ev.get('fst_options', '_GLOBAL_OPTIONS_W_DEFAULTS')
    D = ctx.ev.get('fst_options', '_DYN_OPTIONS')
    C = ctx.ev.get('fst_options', '_ALL_OPTION_CHECK_FUNCS')
    allo = set(G) | set(D)
    for o in allo | set(C):
        ctx.check('R20.7', o in allo and o in C and isinstance(C.get(o), FuncTok), 'fst_options', '_ALL_OPTION_CHECK_FUNCS', f'option {o!r}',
                  'option ' + ('has no value check function: any value is accepted' if o not in C else 'is checked but is not a known option'))
    # internal keys: the two private markers, and the derived dict the statement-slice code builds for its legacy SrcEdit
    # helper (dict(precomms=..., postcomms=..., prespace=..., postspace=...) in get/put_slice_stmtlike), never user supplied
    internal = {'__options_checked', '__warn_stacklevel', 'precomms', 'postcomms', 'prespace', 'postspace'}
    for fi in ctx.repo.all_funcs():
        if isinstance(fi.node, ast.Lambda):
            continue
        for n in walk_no_nested(fi.node):
            name = None
            if isinstance(n, ast.Call):
                cn = call_name(n)
                if cn == 'get_option' and n.args and isinstance(n.args[0], ast.Constant) and isinstance(n.args[0].value, str):
                    name = n.args[0].value
                elif cn in ('get', 'pop') and isinstance(n.func, ast.Attribute) and norm(n.func.value).endswith('options') and n.args and \
                        isinstance(n.args[0], ast.Constant) and isinstance(n.args[0].value, str):
                    name = n.args[0].value
                elif cn in ('options', 'set_options') and isinstance(n.func, ast.Attribute) and norm(n.func.value) in ('FST', 'fst.FST', 'self'):
                    for kw in n.keywords:
                        if kw.arg:
                            ctx.check('R20.7', kw.arg in G, fi.module, fi.qualname, f'{cn}({kw.arg}=...)',
                                      f'{kw.arg!r} is not a global option: set_options would raise at run time', n.lineno)
            elif isinstance(n, ast.Attribute) and norm(n.value) == '_OPTIONS' and n.attr != '__dict__':
                name = n.attr
                ctx.check('R20.7', name in G, fi.module, fi.qualname, f'_OPTIONS.{name}', f'{name!r} is not a global option default', n.lineno)
                continue
            if name is not None and name not in internal:
                ctx.check('R20.7', name in allo, fi.module, fi.qualname, f'option name {name!r} in {norm(n, 60)}',
                          f'{name!r} is not a known option: the lookup silently returns None / the default', n.lineno)
    # reconcile(): rejected names == keyword set of its options block
    rc = ctx.repo.funcs('fst', 'FST.reconcile')[0]
    kws, rejected = None, None
    for n in walk_no_nested(rc.node):
        if isinstance(n, ast.With):
            for it in n.items:
                c = it.context_expr
                if isinstance(c, ast.Call) and call_name(c) == 'options':
                    kws = {kw.arg for kw in c.keywords if kw.arg}
        if isinstance(n, ast.For) and isinstance(n.iter, (ast.Tuple, ast.List)) and all(isinstance(e, ast.Constant) for e in n.iter.elts):
            rejected = {e.value for e in n.iter.elts}
        if isinstance(n, ast.Compare) and isinstance(n.ops[0], ast.In) and isinstance(n.comparators[0], (ast.Tuple, ast.List, ast.Set)) and \
                all(isinstance(e, ast.Constant) for e in n.comparators[0].elts) and rejected is None:
            rejected = {e.value for e in n.comparators[0].elts}
    if kws is None:
        raise AnalysisError('FST.reconcile: options block not found')
    if rejected is not None:
        ctx.check('R20.7', rejected == kws, 'fst', 'FST.reconcile', f'rejected {sorted(rejected)} vs fixed {sorted(kws)}',
                  'the options reconcile() forbids must be exactly the ones it fixes for the replay', rc.lineno)
    else:
        ctx.note('reconcile(): no literal tuple of rejected option names found; only the fixed option block was checked')
        ctx.check('R20.7', kws <= set(G), 'fst', 'FST.reconcile', f'fixed options {sorted(kws)}', 'unknown option in reconcile block', rc.lineno)


def check_per_call_options_honoured(ctx):
    """R20.9 — where a per-call `options` mapping is in scope, an option is never read from the global default alone:
    `get_option('x')` without the mapping is accepted only as the fallback of the idiom
    `if (v := <opts>.get('x', <sentinel>)) is <sentinel>: v = get_option('x')`."""
    ctx.rule('R20.9', 'inside a function that received per-call options, get_option(name) is given that mapping (or is the fallback of an '
                      'explicit `<options>.get(name, sentinel)` lookup of the same name)', 50)
    n = 0
    for fi in ctx.repo.all_funcs():
        if isinstance(fi.node, ast.Lambda):
            continue
        a = fi.node.args
        names = [p.arg for p in a.posonlyargs + a.args + a.kwonlyargs] + ([a.kwarg.arg] if a.kwarg else [])
        opt_names = [p for p in names if p == 'options' or p.endswith('_options')]
        for c in walk_no_nested(fi.node):
            if not (isinstance(c, ast.Call) and call_name(c) == 'get_option' and c.args and isinstance(c.args[0], ast.Constant)):
                continue
            if not opt_names:
                continue
            n += 1
            passed = len(c.args) >= 2 or any(k.arg == 'options' for k in c.keywords)
            if passed:
                ctx.ok('R20.9', f'{fi.module}|{fi.qualname}|{norm(c, 60)}')
                continue
            name = c.args[0].value
            fallback = any(isinstance(x, ast.Call) and isinstance(x.func, ast.Attribute) and x.func.attr == 'get' and x.args and
                           isinstance(x.args[0], ast.Constant) and x.args[0].value == name and len(x.args) == 2 and
                           (norm(x.func.value) == 'options' or norm(x.func.value).endswith('_options')) and x.lineno <= c.lineno
                           for x in walk_no_nested(fi.node))
            ctx.check('R20.9', fallback, fi.module, fi.qualname, norm(c, 60),
                      f'option {name!r} is read from the global / block default although the caller passed per-call options: a value given for this '
                      f'call only is ignored here (and the operation behaves as if the global setting had been changed)', c.lineno,
                      sample={'function': fi.key, 'call': norm(c, 60)})
    # the converse: reading a global option straight from the per-call mapping with a hard-coded default bypasses the global / block setting;
    # the lookup is legitimate only with a sentinel default (absence is detected and the real default consulted afterwards)
    OPT = set(ctx.ev.get('fst_options', '_GLOBAL_OPTIONS_W_DEFAULTS').keys())
    for fi in ctx.repo.all_funcs():
        if isinstance(fi.node, ast.Lambda):
            continue
        for c in walk_no_nested(fi.node):
            if isinstance(c, ast.Call) and isinstance(c.func, ast.Attribute) and c.func.attr == 'get' and c.args and isinstance(c.args[0], ast.Constant) and \
                    c.args[0].value in OPT and (norm(c.func.value) == 'options' or norm(c.func.value).endswith('_options')):
                n += 1
                d = c.args[1] if len(c.args) > 1 else None
                sentinel = d is not None and ((isinstance(d, ast.Constant) and d.value is ...) or (isinstance(d, ast.Name) and 'SENTINEL' in d.id.upper()))
                ctx.check('R20.9', sentinel, fi.module, fi.qualname, norm(c, 60),
                          f'option {c.args[0].value!r} is read from the per-call mapping with the hard-coded default `{norm(d) if d is not None else None}`: when '
                          f'the caller did not pass it for this call, the value set globally / by an enclosing options() block is ignored', c.lineno,
                          sample={'function': fi.key, 'call': norm(c, 60)})
    if n < 50:
        raise AnalysisError(f'only {n} get_option() reads in functions with an options mapping found')


def check_option_carrying_params(ctx):
    """R20.10 — some helpers take a *resolved* option value as a parameter named like the option (`docstr`, ...), with the global default as
    parameter default.  Which (helper, parameter) pairs carry an option is read off the code: at least one caller passes
    `get_option('<name>', ...)` (or a local bound to it, or its own parameter of that name) for it.  Every other caller that has per-call
    options (or such a parameter) in scope must pass the parameter too; leaving it out silently replaces the per-call value by the default."""
    from ..callgraph import Resolver
    ctx.rule('R20.10', 'a helper parameter that carries a resolved option is supplied by every caller that has per-call options in scope', 10)
    OPT = set(ctx.ev.get('fst_options', '_GLOBAL_OPTIONS_W_DEFAULTS').keys())
    res = Resolver(ctx.repo, ctx.ev)
    carry, sites = {}, []
    for fi in ctx.repo.all_funcs():
        if isinstance(fi.node, ast.Lambda):
            continue
        a = fi.node.args
        names = [p.arg for p in a.posonlyargs + a.args + a.kwonlyargs] + ([a.kwarg.arg] if a.kwarg else [])
        has_opts = any(p == 'options' or p.endswith('_options') for p in names)
        optlocals = {}
        for x in walk_no_nested(fi.node):
            if isinstance(x, (ast.Assign, ast.NamedExpr)):
                t = x.targets[0] if isinstance(x, ast.Assign) else x.target
                v = x.value
                if isinstance(t, ast.Name) and isinstance(v, ast.Call) and call_name(v) == 'get_option' and v.args and isinstance(v.args[0], ast.Constant):
                    optlocals[t.id] = v.args[0].value
        for c in walk_no_nested(fi.node):
            if not isinstance(c, ast.Call):
                continue
            for cal in res.resolve(c, fi):
                if isinstance(cal.node, ast.Lambda) or cal.key == fi.key:
                    continue
                ca = cal.node.args
                cps = [p.arg for p in ca.posonlyargs + ca.args]
                kwo = [p.arg for p in ca.kwonlyargs]
                if any(p == 'options' or p.endswith('_options') for p in cps + kwo + ([ca.kwarg.arg] if ca.kwarg else [])):
                    continue        # the callee gets the mapping itself
                bound = 1 if (cps[:1] == ['self'] and isinstance(c.func, ast.Attribute)) else 0
                star = any(isinstance(x, ast.Starred) for x in c.args) or any(k.arg is None for k in c.keywords)
                for i, p in enumerate(cps + kwo):
                    if p not in OPT:
                        continue
                    arg = None
                    if p in cps and 0 <= i - bound < len(c.args):
                        arg = c.args[i - bound]
                    for k in c.keywords:
                        if k.arg == p:
                            arg = k.value
                    ev = arg is not None and (
                        (isinstance(arg, ast.Call) and call_name(arg) == 'get_option' and arg.args and isinstance(arg.args[0], ast.Constant) and arg.args[0].value == p)
                        or (isinstance(arg, ast.Name) and optlocals.get(arg.id) == p))
                    if ev:
                        carry[(cal.key, p)] = fi.key
                    sites.append((fi, c, cal, p, arg, has_opts or p in names, star))
    # propagate: a helper that forwards its own parameter <p> into an option-carrying (callee, <p>) carries the option itself
    changed = True
    while changed:
        changed = False
        for fi, c, cal, p, arg, in_scope, star in sites:
            own = isinstance(arg, ast.Name) and arg.id == p and p in fi.params()
            if (cal.key, p) in carry and own and (fi.key, p) not in carry:
                carry[(fi.key, p)] = f'{cal.key} (forwarded)'
                changed = True
            # ... and a carrier that hands its parameter on makes the receiving parameter a carrier (worker split off a carrier)
            if (fi.key, p) in carry and own and (cal.key, p) not in carry:
                carry[(cal.key, p)] = f'{fi.key} (handed on)'
                changed = True
    if len(carry) < 5:
        raise AnalysisError(f'only {len(carry)} option-carrying helper parameters found')
    for fi, c, cal, p, arg, in_scope, star in sites:
        if (cal.key, p) not in carry or not in_scope or star:
            continue
        ctx.check('R20.10', arg is not None, fi.module, fi.qualname, f'{norm(c, 60)} -> {cal.qualname}({p}=)',
                  f'`{cal.qualname}` takes the resolved option {p!r} as a parameter (e.g. from {carry[(cal.key, p)]}), this caller has per-call options in '
                  f'scope but leaves it at the default: a value given for this call only is ignored here', c.lineno,
                  sample={'caller': fi.key, 'callee': cal.key, 'param': p})
