"""R3.1 raw-index discipline: `start` / `stop` / `idx` parameters of slice and single-element handlers are RAW (negative,
'end', out of range) until rebound from a normaliser; a RAW value may only be handed to a normaliser, forwarded to a
callee parameter that is itself analysed as RAW, or tested against the raw vocabulary ('end', None).  Any other use
(subscript, arithmetic, comparison, range) is reported.  Flow-sensitive over the CFG, interprocedural by forwarding.
"""
from __future__ import annotations

import ast

from ..model import AnalysisError, norm, FuncInfo, call_name
from ..consteval import FuncTok
from ..cfg import CFG, solve, subnodes
from ..callgraph import Resolver, arg_for_param

NORMALISERS = {'fixup_slice_indices', 'fixup_one_index', '_fixup_slice_index_for_raw', '_validate_put', '_validate_get',
               '_validate_put_seq', '_params_Compare', '_fixup_item_indices', '_fixup_slice_indices'}

VALIDATORS_ONE = {'fixup_one_index', '_validate_put', '_validate_get'}   # raise IndexError when out of range

RAW_PARAMS = ('start', 'stop')
IDX_PARAMS = ('idx',)
RAW, NEG = 2, 1    # RAW: anything; NEG: validated to be in range by a callee but possibly still negative (only the
                   # callee's copy was rebound) -- sound as a subscript index, nothing else


def const_of(e):
    """Literal truthiness-relevant constant of an argument expression, or None when unknown."""
    if isinstance(e, ast.Constant):
        return ('c', e.value)
    if isinstance(e, ast.Call) and isinstance(e.func, ast.Name) and e.func.id == 'max' and e.args and \
            isinstance(e.args[0], ast.Constant) and isinstance(e.args[0].value, int) and e.args[0].value > 0:
        return ('c', True)       # max(1, validated) is truthy
    return None


def call_consts(call, callee, bound):
    """{param: ('c', value)} for parameters of `callee` whose value is a literal at this call site (incl. defaults)."""
    a = callee.node.args
    ps = [x.arg for x in a.posonlyargs + a.args]
    defaults = {}
    pos_defaults = a.defaults
    for name, d in zip(ps[len(ps) - len(pos_defaults):], pos_defaults):
        defaults[name] = d
    for x, d in zip(a.kwonlyargs, a.kw_defaults):
        if d is not None:
            defaults[x.arg] = d
    eff = ps[1:] if bound and ps and ps[0] in ('self', 'cls') else ps
    given = {}
    for i, arg in enumerate(call.args):
        if isinstance(arg, ast.Starred):
            break
        if i < len(eff):
            given[eff[i]] = arg
    for kw in call.keywords:
        if kw.arg:
            given[kw.arg] = kw.value
        else:
            return {}
    out = {}
    for name in ps + [x.arg for x in a.kwonlyargs]:
        e = given.get(name, defaults.get(name))
        c = const_of(e) if e is not None else None
        if c is not None and isinstance(c[1], (bool, int, type(None))):
            out[name] = c
    return out


def edge_ok_for_consts(consts):
    """CFG edge filter that prunes branches contradicted by constant parameters (only tests on bare parameter names)."""
    def ok(node, lab, succ):
        if node.kind != 'test' or lab not in ('true', 'false') or not consts:
            return True
        t = node.ast
        neg = False
        while isinstance(t, ast.UnaryOp) and isinstance(t.op, ast.Not):
            neg = not neg
            t = t.operand
        if isinstance(t, ast.Name) and t.id in consts:
            truth = bool(consts[t.id][1]) != neg
            return truth == (lab == 'true')
        return True
    return ok


def _parents(fn):
    par = {}
    for n in ast.walk(fn):
        for c in ast.iter_child_nodes(n):
            par[c] = n
    return par


def certificate_params(repo) -> set:
    """Names of parameters by which a caller certifies that the index was validated already: a parameter P of a function that runs a
    raising index validator exactly under `if not P:` (today: `validated`)."""
    out = set()
    for fi in repo.all_funcs():
        if isinstance(fi.node, ast.Lambda):
            continue
        ps = set(fi.params())
        for n in ast.walk(fi.node):
            if not isinstance(n, ast.If):
                continue
            t, neg = n.test, False
            while isinstance(t, ast.UnaryOp) and isinstance(t.op, ast.Not):
                neg = not neg
                t = t.operand
            if not (isinstance(t, ast.Name) and t.id in ps):
                continue
            arm = n.body if neg else n.orelse
            if any(isinstance(c, ast.Call) and call_name(c) in VALIDATORS_ONE for st in arm for c in ast.walk(st)):
                out.add(t.id)
    return out


class RawAnalysis:
    def __init__(self, ctx, rid):
        self.ctx = ctx
        self.rid = rid
        self.res = Resolver(ctx.repo, ctx.ev)
        self.done = set()
        self.queue = []
        self.n_uses = 0
        self._val = {}
        self.certs = certificate_params(ctx.repo)
        if not self.certs:
            raise AnalysisError('no "already validated" certificate parameter found (anchor vanished)')
        ctx.extra['validation_certificate_params'] = sorted(self.certs)

    def add(self, fi: FuncInfo, params, consts=None):
        """params: iterable of names (level RAW) or dict name -> level."""
        if not isinstance(params, dict):
            params = {p: RAW for p in params}
        params = {p: l for p, l in params.items() if p in fi.params()}
        if not params:
            return
        consts = {k: v for k, v in (consts or {}).items() if k in self.certs}
        k = (fi.key, tuple(sorted(params.items())), tuple(sorted(consts.items())))
        if k not in self.done:
            self.done.add(k)
            self.queue.append((fi, params, consts))

    def run(self):
        while self.queue:
            fi, params, consts = self.queue.pop()
            self.analyse(fi, params, consts)

    # must-validate summary -------------------------------------------------------------------------------------------
    def validates(self, fi: FuncInfo, pname: str, consts, _stack=()) -> bool:
        """Every normal return of `fi` (specialised for `consts`) is preceded by handing parameter `pname` to a raising
        index validator (directly or through a callee that does)."""
        key = (fi.key, pname, tuple(sorted((consts or {}).items())))
        if key in self._val:
            return self._val[key]
        if key in _stack or isinstance(fi.node, ast.Lambda):
            return False
        cfg = CFG(fi.node)
        blockers = set()
        for n in cfg.nodes:
            if n.kind not in ('stmt', 'test', 'iter', 'with'):
                continue
            for x in subnodes(cfg, n):
                if not isinstance(x, ast.Call):
                    continue
                uses = [a for a in list(x.args) + [k.value for k in x.keywords] if isinstance(a, ast.Name) and a.id == pname]
                if not uses:
                    continue
                cn = x.func.id if isinstance(x.func, ast.Name) else getattr(x.func, 'attr', None)
                if cn in VALIDATORS_ONE:
                    blockers.add(n.id)
                    continue
                for cal in self.res._resolve(x, fi):
                    if isinstance(cal.node, ast.Lambda):
                        continue
                    bound = self.res.bound(x, cal, fi)
                    ps = [a.arg for a in cal.node.args.posonlyargs + cal.node.args.args]
                    eff = ps[1:] if bound and ps and ps[0] in ('self', 'cls') else ps
                    cp = None
                    for kw in x.keywords:
                        if kw.value is uses[0]:
                            cp = kw.arg
                    if cp is None and uses[0] in x.args:
                        i = x.args.index(uses[0])
                        cp = eff[i] if i < len(eff) else None
                    if cp and self.validates(cal, cp, {k: v for k, v in call_consts(x, cal, bound).items() if k in self.certs},
                                             _stack + (key,)):
                        blockers.add(n.id)
        eo = edge_ok_for_consts(consts)

        def edge(node, lab, succ):
            if lab == 'exc':
                return False
            if node.id in blockers:
                return False
            return eo(node, lab, succ)
        reach = cfg.reachable(cfg.entry, edge)
        res = cfg.exit not in reach
        self._val[key] = res
        return res

    def analyse(self, fi: FuncInfo, raw0: dict, consts: dict):
        fn = fi.node
        if isinstance(fn, ast.Lambda):
            return
        from ..inline import effective_node
        fn = effective_node(self.ctx.repo, fi)        # a validation preamble hoisted into a decorator runs before the body
        cfg = CFG(fn)
        par = _parents(fn)
        ctx = self.ctx
        eo = edge_ok_for_consts(consts)


        def normaliser_call(e) -> bool:
            return isinstance(e, ast.Call) and ((isinstance(e.func, ast.Name) and e.func.id in NORMALISERS) or
                                                (isinstance(e.func, ast.Attribute) and e.func.attr in NORMALISERS))

        def cname(e):
            return e.func.id if isinstance(e.func, ast.Name) else getattr(e.func, 'attr', None)

        def kills_and_gens(node, st: dict) -> dict:
            new = dict(st)
            for x in subnodes(cfg, node):
                # a raw value handed to a raising validator (or a callee that always validates it) is in range afterwards
                if isinstance(x, ast.Call):
                    for a in list(x.args) + [k.value for k in x.keywords]:
                        if isinstance(a, ast.Name) and new.get(a.id) == RAW:
                            if cname(x) in VALIDATORS_ONE:
                                new[a.id] = NEG
                            else:
                                for cal in self.res._resolve(x, fi):
                                    if isinstance(cal.node, ast.Lambda):
                                        continue
                                    bound = self.res.bound(x, cal, fi)
                                    ps = [q.arg for q in cal.node.args.posonlyargs + cal.node.args.args]
                                    eff = ps[1:] if bound and ps and ps[0] in ('self', 'cls') else ps
                                    cp = next((k.arg for k in x.keywords if k.value is a), None)
                                    if cp is None and a in x.args:
                                        i = x.args.index(a)
                                        cp = eff[i] if i < len(eff) else None
                                    cc = {k: v for k, v in call_consts(x, cal, bound).items() if k in self.certs}
                                    if cp and self.validates(cal, cp, cc):
                                        new[a.id] = NEG
                                        break
            for x in subnodes(cfg, node):
                tg, val = None, None
                if isinstance(x, ast.Assign):
                    tg, val = x.targets, x.value
                elif isinstance(x, ast.AnnAssign) and x.value is not None:
                    tg, val = [x.target], x.value
                elif isinstance(x, ast.NamedExpr):
                    tg, val = [x.target], x.value
                if tg is None:
                    continue
                names = [n.id for t in tg for n in ast.walk(t) if isinstance(n, ast.Name) and isinstance(n.ctx, ast.Store)]
                if isinstance(val, ast.Name) and val.id in st:
                    for n in names:
                        new[n] = st[val.id]     # alias
                elif isinstance(val, ast.Tuple) and len(tg) == 1 and isinstance(tg[0], ast.Tuple) and len(tg[0].elts) == len(val.elts):
                    for t, v in zip(tg[0].elts, val.elts):
                        if isinstance(t, ast.Name):
                            if isinstance(v, ast.Name) and v.id in st:
                                new[t.id] = st[v.id]
                            else:
                                new.pop(t.id, None)
                elif isinstance(val, ast.IfExp) and any(isinstance(b, ast.Name) and b.id in st for b in (val.body, val.orelse)):
                    lv = max(st[b.id] for b in (val.body, val.orelse) if isinstance(b, ast.Name) and b.id in st)
                    for n in names:
                        new[n] = lv
                else:
                    for n in names:
                        new.pop(n, None)
            if node.kind == 'iter':
                for n in ast.walk(node.ast.target):
                    if isinstance(n, ast.Name):
                        new.pop(n.id, None)
            return new

        def check_uses(node, st: dict):
            for x in subnodes(cfg, node):
                if isinstance(x, ast.AugAssign) and isinstance(x.target, ast.Name) and x.target.id in st:
                    # `start += 1`: the target is read (a Store context hides the read) -- arithmetic on the raw value
                    self.n_uses += 1
                    lv = 'raw index' if st[x.target.id] == RAW else 'range-checked but possibly negative index'
                    self.ctx.check(self.rid, False, fi.module, fi.qualname, f'{x.target.id} in {norm(x, 90)}',
                                   f'{lv} `{x.target.id}` used in augmented arithmetic before it was rebound from fixup_slice_indices / '
                                   f'fixup_one_index / _validate_* (a negative index or the \'end\' marker is shifted like a position)', x.lineno,
                                   sample={'function': fi.key, 'use': norm(x, 90)})
                    continue
                if not (isinstance(x, ast.Name) and isinstance(x.ctx, ast.Load) and x.id in st):
                    continue
                level = st[x.id]
                self.n_uses += 1
                p = par.get(x)
                kwname = None
                if isinstance(p, ast.keyword):
                    kwname = p.arg
                    p = par.get(p)
                ok = False
                why = ''
                if isinstance(p, ast.Call) and (x in p.args or kwname is not None):
                    if normaliser_call(p):
                        ok = True
                    else:
                        callees = [c for c in self.res.resolve(p, fi) if not isinstance(c.node, ast.Lambda)]
                        if callees:
                            fwd = False
                            for cal in callees:
                                bound = self.res.bound(p, cal, fi)
                                ps = [a.arg for a in cal.node.args.posonlyargs + cal.node.args.args]
                                eff = ps[1:] if bound and ps and ps[0] in ('self', 'cls') else ps
                                pname = kwname
                                if pname is None:
                                    i = p.args.index(x)
                                    pname = eff[i] if i < len(eff) else None
                                allp = ps + [a.arg for a in cal.node.args.kwonlyargs]
                                if pname is not None and pname in allp:
                                    cc = call_consts(p, cal, bound)
                                    v = next((cc[c] for c in self.certs if c in cc and c in allp and cc[c][1]), None)
                                    if v is not None and level == RAW:
                                        why = ('passed together with a truthy `validated` argument: the callee skips its own '
                                               'index validation')
                                        fwd = False
                                        break
                                    self.add(cal, {pname: level}, cc)
                                    fwd = True
                            ok = fwd
                            why = why or 'passed to a callee parameter that could not be matched'
                        else:
                            f = p.func
                            if isinstance(f, ast.Name) and f.id in ('handler', 'func', 'loc_func'):
                                ok = True     # dispatch through a handler variable: handlers are analysed as roots
                            elif isinstance(f, ast.Call) and isinstance(f.func, ast.Attribute) and f.func.attr == 'get':
                                ok = True     # TABLE.get(key, default)(...): table functions are analysed as roots
                            elif isinstance(f, ast.Name) and f.id in ('isinstance', 'repr', 'str', 'type', 'slice'):
                                ok = True
                            elif level == NEG and isinstance(f, ast.Name) and f.id == 'astfield':
                                ok = True     # astfield(field, idx) with an in-range index: get/set index like a subscript
                            else:
                                why = f'passed to unresolved call {norm(f)}'
                elif isinstance(p, ast.Compare):
                    lits = [o for o in [p.left] + p.comparators if o is not x]
                    if all(isinstance(o, ast.Constant) and (o.value == 'end' or o.value is None) for o in lits) and \
                            all(isinstance(op, (ast.Eq, ast.NotEq, ast.Is, ast.IsNot)) for op in p.ops):
                        ok = True
                    else:
                        why = 'compared before normalisation'
                elif isinstance(p, (ast.JoinedStr, ast.FormattedValue)):
                    ok = True   # error message
                elif isinstance(p, (ast.Assign, ast.NamedExpr, ast.AnnAssign)) and p.value is x:
                    ok = True   # alias, tracked
                elif isinstance(p, ast.Tuple) and isinstance(par.get(p), ast.Assign) and par.get(p).value is p:
                    ok = True   # tuple alias, tracked
                elif isinstance(p, ast.IfExp) and x in (p.body, p.orelse) and isinstance(par.get(p), (ast.Assign, ast.NamedExpr)):
                    ok = True
                elif isinstance(p, ast.Subscript) and p.slice is x and level == NEG:
                    ok = True   # in range, possibly negative: Python indexing agrees with the normalised index
                elif isinstance(p, ast.Return) or (isinstance(p, ast.Tuple) and isinstance(par.get(p), ast.Return)):
                    why = 'returned un-normalised'
                if not why and not ok:
                    why = f'used in {type(p).__name__}'
                lv = 'raw index' if level == RAW else 'range-checked but possibly negative index'
                self.ctx.check(self.rid, ok, fi.module, fi.qualname, f'{x.id} in {norm(p if p is not None else x, 90)}',
                               f'{lv} `{x.id}` {why} before it was rebound from fixup_slice_indices / fixup_one_index / '
                               f'_validate_*', x.lineno,
                               sample={'function': fi.key, 'use': norm(p, 90) if p is not None else x.id})

        def transfer(node, state):
            st = dict(state)
            check_uses(node, st)
            new = kills_and_gens(node, st)
            out = frozenset(new.items())
            if node.kind == 'test':
                # `if not validated:` -- on the branch where the caller certified validation the index is clean
                res = {}
                for lab in ('true', 'false', 'exc', 'next'):
                    if not eo(node, lab, None):
                        res[lab] = None
                        continue
                    t, negd = node.ast, False
                    while isinstance(t, ast.UnaryOp) and isinstance(t.op, ast.Not):
                        negd = not negd
                        t = t.operand
                    if isinstance(t, ast.Name) and t.id in self.certs and lab in ('true', 'false'):
                        validated_truthy = (lab == 'true') != negd
                        if validated_truthy:
                            res[lab] = frozenset((k, v) for k, v in new.items() if k != 'idx')
                            continue
                    res[lab] = out
                return res
            return out

        def join(a, b):
            d = dict(a)
            for k, v in b:
                d[k] = max(d.get(k, 0), v)
            return frozenset(d.items())

        solve(cfg, frozenset(raw0.items()), transfer, join)


def check_raw_indices(ctx, PS, GS):
    ctx.rule('R3.1', 'raw-index typestate: in every slice / single-element handler (and the callees the indices are forwarded '
                     'to) `start`, `stop`, `idx` are only normalised, forwarded or tested against the raw vocabulary before '
                     'being rebound from a normaliser', 150)
    ra = RawAnalysis(ctx, 'R3.1')
    roots = []
    for tab in (PS, GS):
        for v in tab.values():
            if isinstance(v, FuncTok):
                roots.extend(ctx.repo.mod(v.module).func(v.qualname))
    L = ctx.ev.get('fst_put_slice', '_LOC_SLICE_RAW_PUT_FUNCS')
    for v in L.values():
        if isinstance(v, FuncTok):
            roots.extend(ctx.repo.mod(v.module).func(v.qualname))
    roots += ctx.repo.funcs('fst_put_slice', '_loc_slice_raw_put_default')
    roots += ctx.repo.funcs('fst_put_slice', '_put_slice') + ctx.repo.funcs('fst_get_slice', '_get_slice')
    roots += ctx.repo.funcs('fst_put_slice', '_put_slice_raw')
    P1 = ctx.ev.get('fst_put_one', '_PUT_ONE_HANDLERS')
    G1 = ctx.ev.get('fst_get_one', '_GET_ONE_HANDLERS')
    one_roots = []
    for row in P1.values():
        if isinstance(row, tuple) and isinstance(row[1], FuncTok):
            one_roots.extend(ctx.repo.mod(row[1].module).func(row[1].qualname))
    for v in G1.values():
        if isinstance(v, FuncTok):
            one_roots.extend(ctx.repo.mod(v.module).func(v.qualname))
    seen = set()
    for fi in roots:
        if id(fi) in seen:
            continue
        seen.add(id(fi))
        ra.add(fi, RAW_PARAMS)
    for fi in one_roots:
        if id(fi) in seen:
            continue
        seen.add(id(fi))
        ra.add(fi, IDX_PARAMS)
    if len(seen) < 60:
        raise AnalysisError(f'only {len(seen)} handler functions found for the raw-index rule')
    ra.run()
    ctx.extra['raw_index_functions_analysed'] = len(ra.done)
    ctx.extra['raw_index_uses_examined'] = ra.n_uses
