"""C18 — substitution rewrites exactly the matched nodes: four narrow structural clauses.

R18.1  slot discovery is exhaustive: every class with an identifier-typed field, and Constant, is a key of
       _SUB_REPL_PATH_FUNCS; subn() uses that same table for the template walk filter and for dispatch.
R18.2  the template is never consumed: no mutating call has `repl` as receiver (in subn or in the path functions); each
       substitution works on `repl_ = repl.copy()` created in the same iteration before any use of `repl_`.
R18.3  counts: exactly one `total_count += 1` per performed `matched.replace(repl_, ...)` on every path.
R18.5  the index recorded for a template slot inside a list field enumerates that field itself (unfiltered) or is the node's link index.
R18.6  a slot filled by a raw text splice (no node-level put) is followed by a refresh of the value of the node whose text changed.
R18.4  a per-location budget (`loop`) consumed while one location is rewritten is restored on every path that leaves the location.
Not decided: structural equality with a reference transformer; the remaining nested / count / loop semantics.
"""
from __future__ import annotations

import ast

from ..model import AnalysisError, norm, walk_no_nested, call_name
from ..consteval import ClassTok, FuncTok
from ..cfg import CFG, subnodes
from .. import tables as T

PROP = 'C18'

# receivers' methods that read but never modify an FST
READ_ONLY = {'copy', 'walk', 'child_from_path', 'child_path', 'dump', 'src', 'loc', 'a', 'root', 'match', 'search', 'find',
             'is_alive', 'pars', 'own_src', '_get_src', 'get_src', 'next', 'prev', 'parent', 'pfield', 'lines', '_lines'}
# identifier-typed fields where a template slot (`__FST_tag`) cannot occur because the value is not a free identifier
NO_SLOT = {('_pattern_attrlikes', 'kwd_attrs'): 'special slice container, never part of a parsed template tree'}


def run(ctx):
    F = T.fields(ctx)
    ctx.not_decided += ['equality with a reference ast.NodeTransformer result', 'nested / count / loop semantics',
                        'text preservation outside substituted nodes (C04)']
    S = ctx.ev.get('match', '_SUB_REPL_PATH_FUNCS')
    ctx.rule('R18.1', 'every grammar class with an identifier-typed field (a template slot can be written wherever an '
                      'identifier can) and Constant (slots inside strings) has a slot-discovery function; subn() walks the '
                      'template filtered by, and dispatches through, that same table', 20)
    keys = {k.name for k in S if isinstance(k, ClassTok)}
    for c, fs in F.items():
        idf = [f for f, t in fs if t.rstrip('?*') == 'identifier' and (c.name, f) not in NO_SLOT]
        if not idf and c.name != 'Constant':
            continue
        v = S.get(c)
        ok = isinstance(v, FuncTok) and bool(ctx.repo.mod(v.module).func(v.qualname))
        ctx.check('R18.1', ok, 'match', '_SUB_REPL_PATH_FUNCS', f'{c.name} ({", ".join(idf) or "string value"})',
                  f'template slots written in {c.name}.{idf or ["value"]} are never discovered: the tag is left as literal '
                  f'`__FST_x` in the output', sample={'class': c.name, 'identifier_fields': idf})
        if ok:
            # the path function must look at the identifier field(s) it is registered for
            fn = ctx.repo.mod(v.module).func(v.qualname)[0].node
            reads = {x.attr for x in ast.walk(fn) if isinstance(x, ast.Attribute)} | \
                    {x.value for x in ast.walk(fn) if isinstance(x, ast.Constant) and isinstance(x.value, str)} | \
                    {c_ for c_ in getattr(v, 'closure', {}).values() if isinstance(c_, str)}       # field names a factory-made function closed over
            shared_users = [k.name for k, vv in S.items() if isinstance(vv, FuncTok) and vv.key == v.key]
            need = set(idf) if c.name != 'Constant' else {'value'}
            ctx.check('R18.1', bool(need & reads), 'match', v.qualname, f'{c.name}: reads {sorted(need & reads)}',
                      f'{v.qualname} is registered for {c.name} but never looks at its identifier field(s) {sorted(need)}',
                      fn.lineno)
    sub = ctx.repo.funcs('match', 'subn')[0]
    from ..struct import called_helpers
    drv = [x for g in called_helpers(ctx.repo, sub) for x in ast.walk(g.node)]       # the driver and the workers it calls
    walks = any(isinstance(x, ast.Call) and call_name(x) == 'walk' and
                any(norm(a) == '_SUB_REPL_PATH_FUNCS' for a in list(x.args) + [k.value for k in x.keywords]) for x in drv)
    dispatch = any(isinstance(x, ast.Call) and isinstance(x.func, ast.Attribute) and x.func.attr == 'get' and norm(x.func.value) == '_SUB_REPL_PATH_FUNCS'
                   for x in drv) or any(isinstance(x, ast.Subscript) and norm(x.value) == '_SUB_REPL_PATH_FUNCS' for x in drv)
    ctx.check('R18.1', walks and dispatch, 'match', 'subn', 'walk filter and dispatch use _SUB_REPL_PATH_FUNCS',
              'subn() must walk the template with the slot table as type filter and dispatch through the same table', sub.lineno)

    # ---- R18.2 -------------------------------------------------------------------------------------------------------
    ctx.rule('R18.2', 'the template `repl` is only read (copy / walk / path lookup); all edits go to `repl_ = repl.copy()` which '
                      'is created inside the loop before any use of `repl_`', 10)
    targets, seen_t = [sub], set()
    for v in S.values():          # the slot-discovery functions are the rows of the table, whatever they are called
        if isinstance(v, FuncTok):
            for fi_ in ctx.repo.mod(v.module).func(v.qualname):
                if fi_.key not in seen_t:
                    seen_t.add(fi_.key)
                    targets.append(fi_)
    for fi in targets:
        for n in walk_no_nested(fi.node):
            if isinstance(n, ast.Call) and isinstance(n.func, ast.Attribute) and isinstance(n.func.value, ast.Name) and n.func.value.id == 'repl':
                ctx.check('R18.2', n.func.attr in READ_ONLY, 'match', fi.qualname, n,
                          f'`repl.{n.func.attr}(...)` on the shared template: a mutating call would corrupt every later '
                          f'substitution made from it', n.lineno, sample=norm(n))
            if isinstance(n, (ast.Assign, ast.AugAssign)):
                tgs = n.targets if isinstance(n, ast.Assign) else [n.target]
                for t in tgs:
                    if isinstance(t, (ast.Attribute, ast.Subscript)) and any(isinstance(x, ast.Name) and x.id == 'repl' for x in ast.walk(t.value)):
                        ctx.bad('R18.2', 'match', fi.qualname, n, 'store into the shared template `repl`', n.lineno)
    cfg = CFG(sub.node)
    # roles, read off the code: COPY = the local bound from `repl.copy()` (today `repl_`); MATCHED = the receiver of `.replace(COPY, ...)`;
    # COUNTER = the third element of the returned tuple (today `total_count`)
    cands = [n for n in cfg.nodes if n.kind == 'stmt' and isinstance(n.ast, ast.Assign) and len(n.ast.targets) == 1 and isinstance(n.ast.targets[0], ast.Name)
             and norm(n.ast.value) == 'repl.copy()']
    COPY = cands[0].ast.targets[0].id if cands else 'repl_'
    copy_nodes = [n for n in cands if n.ast.targets[0].id == COPY]
    ctx.check('R18.2', len(cands) == 1, 'match', 'subn', 'repl_ = repl.copy()', 'exactly one per-iteration copy of the template expected', sub.lineno)
    if copy_nodes:
        cp = copy_nodes[0]
        use_nodes = [n for n in cfg.nodes if n.id != cp.id and any(isinstance(x, ast.Name) and x.id == COPY and isinstance(x.ctx, ast.Load)
                                                                     for x in subnodes(cfg, n))]
        # every use must be unreachable from entry when the copy node is removed (dominance), also from the loop back edge
        reach = cfg.reachable(cfg.entry, lambda n, lab, s: n.id != cp.id)
        for u in use_nodes:
            ctx.check('R18.2', u.id not in reach, 'match', 'subn', f'use of repl_: {norm(u.ast, 80)}',
                      '`repl_` can be used on a path that did not copy the template in this call', u.lineno)
        # and the copy is inside the innermost loop that contains the final replace: a second iteration must re-copy
        rep = [n for n in cfg.nodes if any(isinstance(x, ast.Call) and call_name(x) == 'replace' and x.args and norm(x.args[0]) == COPY
                                           for x in subnodes(cfg, n))]
        for r in rep:
            # from the replace node, following loop edges back, the next use of repl_ must pass the copy node again
            after = cfg.reachable(r.id, lambda n, lab, s: n.id != cp.id and lab != 'exc')
            stale = [u for u in use_nodes if u.id in after and u.id != r.id]
            ctx.check('R18.2', not stale, 'match', 'subn', 'template copy is renewed after each replace',
                      f'after `{norm(r.ast, 60)}` a later iteration can reach {[norm(u.ast, 50) for u in stale][:2]} without a fresh '
                      f'`repl.copy()`: the consumed copy would be put again', r.lineno)

    # ---- R18.7 -------------------------------------------------------------------------------------------------------
    ctx.rule('R18.7', 'the nodes of the filled-in template are entered into the "do not substitute again" set on every path from the template copy '
                      'to the replace (a template that itself contains a match must not be substituted again when the walk descends into it)', 1)
    # the guard sets of the driver: locals created as set() that some test in the driver asks `x in S` / `x not in S`
    made = {norm(n.targets[0]) for n in walk_no_nested(sub.node) if isinstance(n, ast.Assign) and len(n.targets) == 1 and isinstance(n.targets[0], ast.Name)
            and isinstance(n.value, ast.Call) and call_name(n.value) == 'set' and not n.value.args}
    asked = {c.id for n in walk_no_nested(sub.node) if isinstance(n, ast.Compare) and len(n.ops) == 1 and isinstance(n.ops[0], (ast.In, ast.NotIn))
             for c in n.comparators if isinstance(c, ast.Name)}
    guards = made & asked
    if not copy_nodes:
        ctx.ok('R18.7', 'no per-iteration template copy to start from (reported by R18.2)')
    if copy_nodes:
        cp = copy_nodes[0]
        marks = {n.id for n in cfg.nodes for x in subnodes(cfg, n)
                 if isinstance(x, ast.Call) and isinstance(x.func, ast.Attribute) and x.func.attr in ('update', 'add') and norm(x.func.value) in guards
                 and any(isinstance(y, ast.Name) and y.id == COPY for a in x.args for y in ast.walk(a))}
        # worker form: `_mark(dirty, repl_)` - the guard set and the copy handed to a function of the module that adds to its parameter
        for n in cfg.nodes:
            for x in subnodes(cfg, n):
                if isinstance(x, ast.Call) and isinstance(x.func, ast.Name) and \
                        any(isinstance(a, ast.Name) and a.id in guards for a in x.args) and \
                        any(isinstance(y, ast.Name) and y.id == COPY for a in x.args for y in ast.walk(a)):
                    for g in ctx.repo.find_funcs('match', x.func.id):
                        gp = g.params()
                        sp = [gp[i] for i, a in enumerate(x.args) if i < len(gp) and isinstance(a, ast.Name) and a.id in guards]
                        if any(isinstance(c, ast.Call) and isinstance(c.func, ast.Attribute) and c.func.attr in ('update', 'add') and norm(c.func.value) in sp
                               for c in ast.walk(g.node)):
                            marks.add(n.id)
        # loop form: `for a in walk(repl_.a): dirty.add(a)` marks at the loop header (the walk yields at least the root of the copy)
        for n in cfg.nodes:
            if n.kind == 'iter' and any(isinstance(y, ast.Name) and y.id == COPY for y in ast.walk(n.ast.iter)) and \
                    any(isinstance(x, ast.Call) and isinstance(x.func, ast.Attribute) and x.func.attr in ('update', 'add') and norm(x.func.value) in guards
                        for b in n.ast.body for x in ast.walk(b)):
                marks.add(n.id)
        if not guards or not marks:
            raise AnalysisError('subn(): no guard set that receives the nodes of the template copy found (anchor vanished)')
        rep7 = [n for n in cfg.nodes if any(isinstance(x, ast.Call) and call_name(x) == 'replace' and x.args and norm(x.args[0]) == COPY
                                            for x in subnodes(cfg, n))]
        for r in rep7:
            unmarked = cfg.reachable(cp.id, lambda n, lab, s: lab != 'exc' and n.id not in marks)
            ctx.check('R18.7', r.id not in unmarked and r.id not in marks, 'match', 'subn', f'template nodes entered into {sorted(guards)} before replace',
                      f'`{norm(r.ast, 60)}` is reachable from the template copy on a path that does not enter the copy\'s nodes into the guard set '
                      f'{sorted(guards)}: with nested=True the walk descends into the new nodes and a template that contains a match is substituted again, '
                      f'without end', r.lineno, sample={'guard_sets': sorted(guards), 'marking_nodes': len(marks)})

    # ---- R18.3 -------------------------------------------------------------------------------------------------------
    ctx.rule('R18.3', 'exactly one `total_count += 1` per `matched.replace(repl_, ...)`: the increment is dominated by the replace '
                      'and post-dominates it on normal paths; both occur once', 3)
    ret = [n for n in walk_no_nested(sub.node) if isinstance(n, ast.Return)]
    COUNTER = norm(ret[0].value.elts[2]) if len(ret) == 1 and isinstance(ret[0].value, ast.Tuple) and len(ret[0].value.elts) == 3 and \
        isinstance(ret[0].value.elts[2], ast.Name) else 'total_count'
    incs = [n for n in cfg.nodes if n.kind == 'stmt' and isinstance(n.ast, ast.AugAssign) and norm(n.ast.target) == COUNTER]
    reps = [n for n in cfg.nodes if any(isinstance(x, ast.Call) and call_name(x) == 'replace' and x.args and norm(x.args[0]) == COPY
                                        for x in subnodes(cfg, n))]
    ctx.check('R18.3', len(incs) == 1 and len(reps) == 1 and norm(incs[0].ast) == COUNTER + ' += 1', 'match', 'subn',
              f'{len(reps)} matched.replace, {len(incs)} total_count increments',
              'the substitution driver must have exactly one replace site and one `total_count += 1`', sub.lineno)
    if len(incs) == 1 and len(reps) == 1:
        inc, rep = incs[0], reps[0]
        dom = inc.id not in cfg.reachable(cfg.entry, lambda n, lab, s: n.id != rep.id)
        # post-dominance on normal edges: from rep, without passing inc, no loop header / exit is reachable
        esc = cfg.reachable(rep.id, lambda n, lab, s: lab != 'exc' and n.id != inc.id)
        loop_or_exit = {n.id for n in cfg.nodes if n.info.get('loop')} | {cfg.exit}
        pdom = not (esc & loop_or_exit)
        ctx.check('R18.3', dom, 'match', 'subn', 'total_count += 1 dominated by matched.replace',
                  'the count can be incremented on a path that performed no substitution', inc.lineno)
        ctx.check('R18.3', pdom, 'match', 'subn', 'total_count += 1 post-dominates matched.replace',
                  'a substitution can be performed without being counted (a path from the replace reaches the next iteration '
                  'or the return without the increment)', rep.lineno)
    ret = [n for n in walk_no_nested(sub.node) if isinstance(n, ast.Return)]
    ctx.check('R18.3', len(ret) == 1 and isinstance(ret[0].value, ast.Tuple) and len(ret[0].value.elts) == 3 and norm(ret[0].value.elts[0]) == 'self' and norm(ret[0].value.elts[2]) == COUNTER,
              'match', 'subn', norm(ret[0].value) if ret else '<no return>', 'subn must return (self, unique count, total_count)', sub.lineno)


# ---- R18.4 -----------------------------------------------------------------------------------------------------------
    check_budget(ctx)
    check_slot_indices(ctx)
    check_text_slot_refresh(ctx)


def check_budget(ctx):
    """A per-location counter (`loop`) that is consumed while one location is being rewritten must be restored from its saved start
    value on every path that leaves that location (the `break` out of the per-location loop).  Which saved counters are per-location is
    read off the code: the ones it restores somewhere (`loop = loop_start`); `count` is saved for reporting only and never restored."""
    from ..cfg import CFG, subnodes
    from ..struct import parent_map
    ctx.rule('R18.4', 'a per-location budget consumed inside the per-location loop is restored on every path that leaves the location', 1)
    for fi in ctx.repo.funcs('match', 'subn'):
        fn = fi.node
        # saved budgets: `<v>_start = <v>`
        saved = {}
        for n in ast.walk(fn):
            if isinstance(n, ast.Assign) and len(n.targets) == 1 and isinstance(n.targets[0], ast.Name) and isinstance(n.value, ast.Name) and \
                    n.targets[0].id != n.value.id and n.value.id in fi.params():
                saved[n.value.id] = n.targets[0].id      # `<saved> = <budget parameter>` (today `loop_start = loop`, `count_start = count`)
        if not saved:
            raise AnalysisError('subn: no saved budget (`<saved> = <budget parameter>`) found')
        for v, vs in list(saved.items()):
            n_asg = sum(1 for n in ast.walk(fn) if isinstance(n, ast.Name) and isinstance(n.ctx, ast.Store) and n.id == vs)
            if n_asg != 1:
                del saved[v]      # the saved value itself changes: not a start value
        cfg = CFG(fn)
        par = parent_map(fn)
        n_inst = 0
        for v, vs in saved.items():
            decs, resets = [], set()
            for nd in cfg.nodes:
                for x in subnodes(cfg, nd):
                    tgt = val = None
                    if isinstance(x, ast.NamedExpr):
                        tgt, val = x.target, x.value
                    elif isinstance(x, ast.Assign) and len(x.targets) == 1:
                        tgt, val = x.targets[0], x.value
                    elif isinstance(x, ast.AugAssign) and isinstance(x.op, ast.Sub):
                        tgt, val = x.target, ast.BinOp(left=x.target, op=ast.Sub(), right=x.value)
                    if isinstance(tgt, ast.Name) and tgt.id == v:
                        if isinstance(val, ast.BinOp) and isinstance(val.op, ast.Sub) and isinstance(val.left, ast.Name) and val.left.id == v:
                            decs.append((nd, x))
                        elif isinstance(val, ast.Name) and val.id == vs:
                            resets.add(nd.id)
            if not resets:
                continue        # never restored anywhere: a budget for the whole call (`count`), not per location
            for nd, x in decs:
                # innermost loop around the decrement = the per-location loop
                cur = x if x in par else nd.ast
                loop_node = None
                while cur in par:
                    cur = par[cur]
                    if isinstance(cur, (ast.While, ast.For)):
                        loop_node = cur
                        break
                if loop_node is None:
                    continue
                n_inst += 1
                def feasible(n_, lab, s_, v=v, vs=vs):
                    # after `v := v - 1` v is an int: `v is not False` cannot be false (the "budget disabled" arm is dead on these paths)
                    if lab == 'exc':
                        return False
                    if n_.kind == 'test' and isinstance(n_.ast, ast.Compare) and len(n_.ast.ops) == 1 and norm(n_.ast.left) == v and \
                            isinstance(n_.ast.comparators[0], ast.Constant) and n_.ast.comparators[0].value is False:
                        if isinstance(n_.ast.ops[0], ast.IsNot) and lab == 'false':
                            return False
                        if isinstance(n_.ast.ops[0], ast.Is) and lab == 'true':
                            return False
                    # consumed and not yet restored: v < vs (vs is assigned once), so `v != vs` holds
                    if n_.kind == 'test' and isinstance(n_.ast, ast.Compare) and len(n_.ast.ops) == 1 and \
                            {norm(n_.ast.left), norm(n_.ast.comparators[0])} == {v, vs}:
                        if isinstance(n_.ast.ops[0], ast.NotEq) and lab == 'false':
                            return False
                        if isinstance(n_.ast.ops[0], ast.Eq) and lab == 'true':
                            return False
                    return True
                reach = cfg.reachable(nd.id, feasible, stop=resets)
                leaks = []
                for b in cfg.nodes:
                    if b.id in reach and isinstance(b.ast, ast.Break):
                        c2 = b.ast
                        while c2 in par:
                            c2 = par[c2]
                            if isinstance(c2, (ast.While, ast.For)):
                                break
                        if c2 is loop_node:
                            leaks.append(b)
                ctx.check('R18.4', not leaks, fi.module, fi.qualname, f'{v}: consumed at {norm(x, 40)}',
                          f'`{v}` is decremented while one location is rewritten and the location can be left (break at line '
                          f'{leaks[0].lineno if leaks else 0}) without `{v} = {vs}`: the next location starts with what is left of the budget', x.lineno,
                          sample={'function': fi.key, 'budget': v, 'saved': vs, 'resets': len(resets)})
        if n_inst < 1:
            raise AnalysisError('subn: no consumption of a saved budget found')


# ---- R18.5 -----------------------------------------------------------------------------------------------------------

def check_slot_indices(ctx):
    """A template slot inside a list field is recorded as ('<field>', idx); idx must be the element's index in that field: bound by
    `for idx, _ in enumerate(<node>.<field>)` over the *unfiltered* field, or taken from the node's own link (`field, idx = f.pfield`)."""
    from ..struct import parent_map
    from ..model import walk_no_nested
    ctx.rule('R18.5', 'the index recorded for a template slot in a list field enumerates that field itself', 3)
    n = 0
    S = ctx.ev.get('match', '_SUB_REPL_PATH_FUNCS')
    rows, seen_r = [], set()
    for v in S.values():          # the rows of the table (a function made by a factory is one row per constant it closed over)
        if isinstance(v, FuncTok) and v.key not in seen_r:
            seen_r.add(v.key)
            rows += [(fi_, v.closure) for fi_ in ctx.repo.mod(v.module).func(v.qualname)]
    for fi, closure in rows:
        if isinstance(fi.node, ast.Lambda):
            continue
        par = parent_map(fi.node)
        for t in ast.walk(fi.node):
            if not (isinstance(t, ast.Tuple) and len(t.elts) == 2 and isinstance(t.elts[1], ast.Name)):
                continue
            f0 = t.elts[0]
            if isinstance(f0, ast.Constant) and isinstance(f0.value, str):
                field = f0.value
            elif isinstance(f0, ast.Name) and isinstance(closure.get(f0.id), str):
                field = closure[f0.id]                      # `(field, idx)` with `field` bound by the factory call
            else:
                continue
            idx = t.elts[1].id
            n += 1
            ok, how = False, 'index variable has no recognised binding'
            cur = t
            while cur in par:
                cur = par[cur]
                if isinstance(cur, (ast.For, ast.comprehension)) or isinstance(cur, (ast.GeneratorExp, ast.ListComp)):
                    gens = cur.generators if isinstance(cur, (ast.GeneratorExp, ast.ListComp)) else [cur]
                    for g in gens:
                        tg, it = g.target, g.iter
                        if not (isinstance(tg, ast.Tuple) and tg.elts and isinstance(tg.elts[0], ast.Name) and tg.elts[0].id == idx):
                            continue
                        # `for idx, x in PAIRS` where PAIRS = [(i, x) for i, x in enumerate(<field>) if ...]: the pairs keep the index of the
                        # unfiltered enumeration (filtering after enumerate is fine, enumerating after filtering is not)
                        if isinstance(it, ast.Name):
                            pairs_name = it.id
                            for x in walk_no_nested(fi.node):
                                v = x.value if isinstance(x, (ast.Assign, ast.NamedExpr)) else None
                                t0 = (x.targets[0] if isinstance(x, ast.Assign) else x.target) if v is not None else None
                                if isinstance(t0, ast.Name) and t0.id == pairs_name and isinstance(v, (ast.ListComp, ast.GeneratorExp)) and \
                                        isinstance(v.elt, ast.Tuple) and v.elt.elts and isinstance(v.elt.elts[0], ast.Name) and len(v.generators) == 1:
                                    g2 = v.generators[0]
                                    if isinstance(g2.target, ast.Tuple) and g2.target.elts and isinstance(g2.target.elts[0], ast.Name) and \
                                            g2.target.elts[0].id == v.elt.elts[0].id:
                                        it = g2.iter
                        if isinstance(it, ast.Call) and call_name(it) == 'enumerate' and it.args:
                            src = it.args[0]
                            via_getattr = isinstance(src, ast.Call) and call_name(src) == 'getattr' and len(src.args) == 2 and \
                                ((isinstance(src.args[1], ast.Constant) and src.args[1].value == field) or
                                 (isinstance(src.args[1], ast.Name) and closure.get(src.args[1].id) == field))
                            if (isinstance(src, ast.Attribute) and src.attr == field) or via_getattr:
                                ok, how = True, f'enumerate({norm(src)})'
                            else:
                                how = f'`{idx}` counts the elements of `{norm(src, 50)}`, not of the field `{field}`'
                if cur is fi.node:
                    break
            if not ok:
                for x in walk_no_nested(fi.node):
                    if isinstance(x, ast.Assign) and isinstance(x.targets[0], ast.Tuple) and len(x.targets[0].elts) == 2 and \
                            isinstance(x.targets[0].elts[1], ast.Name) and x.targets[0].elts[1].id == idx and \
                            isinstance(x.value, ast.Attribute) and x.value.attr == 'pfield':
                        ok, how = True, 'index of the node link (.pfield)'
            ctx.check('R18.5', ok, fi.module, fi.qualname, f"('{field}', {idx})", f'{how}: the substituted value is put at a different element than the '
                      f'one that carries the placeholder (the placeholder stays in the output, a fixed element is overwritten)', t.lineno,
                      sample={'function': fi.key, 'slot': f"('{field}', {idx})", 'binding': how})
    if n < 3:
        raise AnalysisError(f'only {n} indexed template slots found')


# ---- R18.6 -----------------------------------------------------------------------------------------------------------

def check_text_slot_refresh(ctx):
    """The substitution driver fills most slots with node-level puts, which keep tree and text together.  A slot it fills with a raw
    text splice (`<tree>._put_src(...)`, positions of the other nodes are offset but no node is told that its own text changed) lies
    inside a value-bearing leaf (slots inside string literals): before the iteration ends the value of that node has to be re-derived
    from the new text (a store to `.value`, or a `_reparse*` call), otherwise the tree keeps the placeholder text as value."""
    from ..struct import parent_map
    ctx.rule('R18.6', 'in the substitution driver a raw text splice is followed, before the iteration ends, by a store to the `.value` of '
                      'the node whose text changed (or a reparse)', 1)
    n_inst = 0
    for fi in ctx.repo.all_funcs():
        if fi.module != 'match' or isinstance(fi.node, ast.Lambda) or not (fi.name == 'subn' or fi.name.startswith('_sub')):
            continue
        splices = [x for x in walk_no_nested(fi.node) if isinstance(x, ast.Call) and call_name(x) == '_put_src' and isinstance(x.func, ast.Attribute)]
        if not splices:
            continue
        cfg = CFG(fi.node)
        par = parent_map(fi.node)

        def refreshes(x):
            if isinstance(x, ast.Assign) and any(isinstance(t, ast.Attribute) and t.attr == 'value' for t in x.targets):
                return True
            if isinstance(x, ast.Call) and (call_name(x) or '').startswith('_reparse'):
                return True
            return False

        def node_of(call):
            for nd in cfg.nodes:
                if any(x is call for x in subnodes(cfg, nd)):
                    return nd
            raise AnalysisError(f'{fi.qualname}: no CFG node for {norm(call, 60)}')

        for call in splices:
            n_inst += 1
            nd = node_of(call)
            enclosing = set()
            cur = call
            while cur in par:
                cur = par[cur]
                if isinstance(cur, (ast.For, ast.AsyncFor, ast.While)):
                    enclosing.add(cur)
            stop = set()
            for m in cfg.nodes:
                if any(refreshes(x) for x in subnodes(cfg, m)):
                    stop.add(m.id)
                lp = m.ast if m.kind == 'iter' else m.info.get('owner') if m.info.get('loop') else None
                # a later loop (not around the splice) that stores values in its body is the refresh itself
                if lp is not None and lp not in enclosing and any(refreshes(x) for x in ast.walk(lp)):
                    stop.add(m.id)
            reach = cfg.reachable(nd.id, lambda n_, lab, s_: lab != 'exc', stop=stop)
            ends = {m.id for m in cfg.nodes if (m.ast if m.kind == 'iter' else m.info.get('owner') if m.info.get('loop') else None) in enclosing}
            ends.add(cfg.exit)
            leaks = sorted((reach - stop) & ends)
            ctx.check('R18.6', not leaks, fi.module, fi.qualname, f'text splice {norm(call.func)}(...) without value refresh',
                      f'`{norm(call, 70)}` changes the text inside a literal and the iteration can end (line '
                      f'{cfg.nodes[leaks[0]].lineno if leaks and cfg.nodes[leaks[0]].ast is not None else 0}) without storing the new '
                      f'`.value`: source and tree disagree about the string (verify() fails)', call.lineno,
                      sample={'function': fi.key, 'splice': norm(call, 80)})
    if n_inst < 1:
        raise AnalysisError('no raw text splice found in the substitution driver')
