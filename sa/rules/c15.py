"""C15 — walking stays sound while the tree is being modified: the liveness discipline.

R15.1 stale after yield: in every generator of fst_traverse.py / match.py a local that holds an AST node (or data read from
      one) read *before* a yield is STALE after it (the consumer may have replaced or removed the node); the only refresh is
      re-reading through the yielded FST (`ast := fst_.a`).  Any attribute access on, subscript of, or call argument use of
      a STALE value is a finding (identity comparisons and truth tests are harmless).
R15.2 liveness at pop: in walk() every value popped from the walk stack, and every `.f` / `.a` read from it, is proven
      non-None (truth-tested / isinstance-tested on that path) before any attribute access on it.
R15.3 detached means dead: _unmake_fst_tree clears both links (`f.a = a.f = None`) and descends into every child list that
      can hold nodes, including lists whose first element is None (grammar: `expr?*`).
R15.4 replace means unmake: _set_field / _set_ast overwrite the old value only after _unmake_fst_tree() when `unmake` is requested,
      on every path (also when a field is being cleared).
Not decided: termination, no duplicate entry, "new children are walked next" for all interleavings (needs state exploration).
"""
from __future__ import annotations

import ast

from ..model import AnalysisError, norm, walk_no_nested, call_name
from ..cfg import CFG, solve, subnodes
from ..constprop import ConstFlow, truth, is_none
from ..struct import parent_map
from .. import tables as T
from ..consteval import ClassTok, FuncTok

PROP = 'C15'


def is_generator(fn) -> bool:
    return any(isinstance(n, (ast.Yield, ast.YieldFrom)) for n in walk_no_nested(fn))


def ast_sources(fn):
    """Names of locals that hold an AST node / data read from the AST: assigned from `<x>.a`, from a parameter named `ast`,
    or from an attribute / subscript chain rooted at such a name."""
    tracked = set()
    a = fn.args
    for p in a.posonlyargs + a.args + a.kwonlyargs:
        if p.arg in ('ast',):
            tracked.add(p.arg)
    changed = True
    while changed:
        changed = False
        for n in walk_no_nested(fn):
            pairs = []
            if isinstance(n, ast.Assign):
                pairs = [(t, n.value) for t in n.targets]
            elif isinstance(n, ast.NamedExpr):
                pairs = [(n.target, n.value)]
            for t, v in pairs:
                if not isinstance(t, ast.Name):
                    continue
                root = v
                is_a = isinstance(v, ast.Attribute) and v.attr == 'a'
                while isinstance(root, (ast.Attribute, ast.Subscript)):
                    root = root.value
                derived = isinstance(root, ast.Name) and root.id in tracked and isinstance(v, (ast.Attribute, ast.Subscript)) and \
                    not (isinstance(v, ast.Attribute) and v.attr in ('f',))
                # data looked up *by* something read from the node (`TABLE.get(ast.__class__)`, `func(ast.x)`): describes the node as it was
                if not derived and not is_a and isinstance(v, (ast.Call, ast.IfExp)):
                    derived = any(isinstance(y, ast.Attribute) and isinstance(y.value, ast.Name) and y.value.id in tracked and y.attr != 'f'
                                  for y in ast.walk(v)) and not any(isinstance(y, ast.Call) and isinstance(y.func, ast.Attribute) and y.func.attr in ('walk',)
                                                                    for y in ast.walk(v))
                if (is_a or derived) and t.id not in tracked:
                    tracked.add(t.id)
                    changed = True
    return tracked


def check_stale(ctx, fi):
    fn = fi.node
    tracked = ast_sources(fn)
    if not tracked:
        return 0
    cfg = CFG(fn)
    par = parent_map(fn)

    def has_yield(node):
        return any(isinstance(x, (ast.Yield, ast.YieldFrom)) for x in subnodes(cfg, node))

    def assigned(node):
        out = set()
        for x in subnodes(cfg, node):
            if isinstance(x, ast.Name) and isinstance(x.ctx, ast.Store):
                out.add(x.id)
        if node.kind == 'iter':
            out |= {x.id for x in ast.walk(node.ast.target) if isinstance(x, ast.Name)}
        return out
    n_uses = [0]
    reported = set()

    def events(node):
        """(kind, name, ast node) in evaluation order: loads, walrus / assignment stores, yields."""
        evs = []
        st = node.ast if node.kind == 'stmt' else None
        xs = [x for x in subnodes(cfg, node) if isinstance(x, (ast.Name, ast.Yield, ast.YieldFrom))]
        xs.sort(key=lambda x: (getattr(x, 'end_lineno', 0), getattr(x, 'end_col_offset', 0)) if isinstance(x, (ast.Yield, ast.YieldFrom))
                else (x.lineno, x.col_offset))
        plain_targets = set()
        if isinstance(st, (ast.Assign, ast.AnnAssign, ast.AugAssign)):
            tgs = st.targets if isinstance(st, ast.Assign) else [st.target]
            for t in tgs:
                for y in ast.walk(t):
                    if isinstance(y, ast.Name) and isinstance(y.ctx, ast.Store):
                        plain_targets.add(id(y))
        late = []
        for x in xs:
            if isinstance(x, ast.Name):
                if isinstance(x.ctx, ast.Load):
                    evs.append(('load', x.id, x))
                elif id(x) in plain_targets:
                    late.append(('store', x.id, x))        # statement-level assignment binds after the value was evaluated
                else:
                    # walrus target: binds after its value; approximate by placing the store after the loads inside the value
                    p = par.get(x)
                    end = (p.end_lineno, p.end_col_offset) if isinstance(p, ast.NamedExpr) else (x.lineno, x.col_offset)
                    evs.append(('store@', x.id, x, end))
            else:
                evs.append(('yield', None, x))
        # move walrus stores to the end position of their NamedExpr
        out = []
        pending = [e for e in evs if e[0] == 'store@']
        for e in evs:
            if e[0] == 'store@':
                continue
            pos = (e[2].lineno, e[2].col_offset) if e[0] == 'load' else (e[2].end_lineno, e[2].end_col_offset)
            for pnd in list(pending):
                if pnd[3] <= pos:
                    out.append(('store', pnd[1], pnd[2]))
                    pending.remove(pnd)
            out.append(e)
        out += [('store', pnd[1], pnd[2]) for pnd in pending] + late
        if node.kind == 'iter':
            out += [('store', x.id, x) for x in ast.walk(node.ast.target) if isinstance(x, ast.Name)]
        return out

    def transfer(node, stale):
        stale = set(stale)
        for ev in events(node):
            kind, name, x = ev[0], ev[1], ev[2]
            if kind == 'store':
                stale.discard(name)
            elif kind == 'yield':
                stale |= tracked
            elif name in stale:
                p = par.get(x)
                harmless = False
                if isinstance(p, ast.Compare) and all(isinstance(o, (ast.Is, ast.IsNot)) for o in p.ops):
                    harmless = True          # identity comparison with a possibly detached node just does not match
                elif isinstance(p, (ast.UnaryOp, ast.BoolOp, ast.If, ast.While)):
                    harmless = True          # truth test
                elif isinstance(p, ast.IfExp) and p.test is x:
                    harmless = True
                n_uses[0] += 1
                if not harmless:
                    key = (x.id, norm(p, 70) if p is not None else x.id)
                    if key not in reported:
                        reported.add(key)
                        ctx.bad('R15.1', fi.module, fi.key.split('.', 1)[1], f'{x.id} in {norm(p, 70) if p is not None else x.id}',
                                f'`{x.id}` holds an AST node read before a yield; the consumer may have replaced or removed that node '
                                f'during the yield, so it must be re-read through the yielded FST (`{x.id} := fst_.a`) before this use', x.lineno)
        return frozenset(stale)
    solve(cfg, frozenset(), transfer, lambda a, b: a | b)
    return n_uses[0]


def run(ctx):
    ctx.not_decided += ['termination and absence of duplicate entries for all interleavings of iteration and mutation',
                        'that new children of a replaced node are walked next; send(False)/send(True) semantics (generator state exploration)']
    F = T.fields(ctx)
    # ---- R15.1 ----------------------------------------------------------------------------------------------------------
    ctx.rule('R15.1', 'stale-after-yield typestate over every generator in fst_traverse.py and match.py', 3)
    n_gen = 0
    for modname in ('fst_traverse', 'match', 'fst'):
        for q, fis in ctx.repo.mod(modname).funcs.items():
            for fi in fis:
                if isinstance(fi.node, ast.Lambda) or not is_generator(fi.node):
                    continue
                if any(norm(d).endswith('contextmanager') for d in getattr(fi.node, 'decorator_list', [])):
                    continue        # a context manager hands control to a `with` body of the package, not nodes to a consumer's loop
                before = len(ctx.findings)
                uses = check_stale(ctx, fi)
                n_gen += 1
                if len(ctx.findings) == before:
                    ctx.ok('R15.1', f'{fi.module}|{fi.key}', sample={'generator': fi.key, 'tracked_ast_locals': sorted(ast_sources(fi.node)),
                                                                     'uses_of_possibly_stale_values_examined': uses})
    if n_gen < 4:
        raise AnalysisError(f'only {n_gen} generators found')
    for anchor in (('fst_traverse', 'walk'), ('fst_traverse', '_ScopeContext.walk_Comp'), ('match', 'search')):
        ctx.repo.funcs(*anchor)

    # ---- R15.2 ----------------------------------------------------------------------------------------------------------
    ctx.rule('R15.2', 'walk(): values popped from the walk stack and the `.f` / `.a` links read from them are proven non-None on the '
                      'path before any attribute access', 10)
    for fi in ctx.repo.funcs('fst_traverse', 'walk'):
        fn = fi.node
        cfg = CFG(fn)
        par = parent_map(fn)
        maybe_none = set()
        for n in walk_no_nested(fn):
            tg, v = None, None
            if isinstance(n, ast.Assign) and isinstance(n.targets[0], ast.Name):
                tg, v = n.targets[0].id, n.value
            elif isinstance(n, ast.NamedExpr):
                tg, v = n.target.id, n.value
            if tg is None:
                continue
            if (isinstance(v, ast.Call) and call_name(v) == 'pop' and isinstance(v.func, ast.Attribute) and isinstance(v.func.value, ast.Name) and not v.args) or \
                    (isinstance(v, ast.Attribute) and v.attr in ('f', 'a') and isinstance(v.value, ast.Name)):
                maybe_none.add(tg)
        popped = {n.targets[0].id for n in walk_no_nested(fn) if isinstance(n, ast.Assign) and isinstance(n.targets[0], ast.Name) and
                  isinstance(n.value, ast.Call) and call_name(n.value) == 'pop'} | \
            {n.target.id for n in walk_no_nested(fn) if isinstance(n, ast.NamedExpr) and isinstance(n.value, ast.Call) and call_name(n.value) == 'pop'}
        if not (popped & maybe_none) or len(maybe_none) < 2:
            raise AnalysisError(f'walk(): expected a local popped off the walk stack and one bound from its .f / .a link (found {sorted(maybe_none)})')
        fl = ConstFlow(cfg, {}, None, keep_names=maybe_none)
        # facts: after `x = stack.pop()` x is unknown (no fact); attribute access requires a TRUTHY / NOTNONE fact on every disjunct.
        # `self` derived values (`ast = self.a` at entry) are checked the same way.
        for node in cfg.nodes:
            disj = fl.all_facts(node.id)
            if not disj:
                continue
            # facts established by a walrus / test inside this very node are applied by the flow to the out-edges; for uses inside
            # the same test after the walrus (`if not (fst_ := ast.f)`) only the *base* of the attribute matters
            for x in subnodes(cfg, node):
                if isinstance(x, ast.Attribute) and isinstance(x.value, ast.Name) and x.value.id in maybe_none and isinstance(x.ctx, ast.Load):
                    v = x.value.id
                    # skip the binding reads that define v itself in this node
                    ok = True
                    for d in disj:
                        av = d.get(v)
                        if not (av is not None and (truth(av) is True or is_none(av) is False)):
                            ok = False
                    # locally proven: `ast` in `if not (fst_ := ast.f)` is checked by an earlier statement; entry `ast = self.a` of the root is alive
                    ctx.check('R15.2', ok, fi.module, fi.qualname, f'{norm(x)} at line {x.lineno}',
                              f'`{v}` comes off the walk stack (or from a .f / .a link) and may be None / detached here: removed or replaced '
                              f'nodes must be skipped before they are dereferenced', x.lineno, sample=norm(x))

    # ---- R15.3 ----------------------------------------------------------------------------------------------------------
    ctx.rule('R15.3', '_unmake_fst_tree clears f.a and a.f for every node, descends through a._fields, and its list filter does not '
                      'require the first element to be a node (the grammar has `T?*` lists that may start with None)', 3)
    opt_lists = [(c.name, f) for c, fs in F.items() for f, t in fs if t.endswith('?*')]
    if not opt_lists:
        raise AnalysisError('grammar has no optional-element list any more; R15.3 premise changed')
    from ..struct import called_helpers
    for fi in ctx.repo.funcs('fst_core', '_unmake_fst_tree'):
        group = called_helpers(ctx.repo, fi, 2)          # the function and the private workers it calls (wrapper + worker split)
        # both links are stored None in the descent (any variable names): some `<x>.a = ... = None` and some `<y>.f = ... = None`
        none_attrs = set()
        for n in [x for g in group for x in ast.walk(g.node)]:
            if isinstance(n, ast.Assign) and isinstance(n.value, ast.Constant) and n.value.value is None:
                none_attrs |= {t.attr for t in n.targets if isinstance(t, ast.Attribute)}
        ctx.check('R15.3', {'a', 'f'} <= none_attrs, fi.module, fi.qualname, 'f.a = a.f = None',
                  'a detached node must have both links cleared, otherwise walk() cannot tell it is dead', fi.lineno)
        via_fields = any(isinstance(n, ast.For) and isinstance(n.iter, ast.Attribute) and n.iter.attr == '_fields' for g in group for n in ast.walk(g.node))
        ctx.check('R15.3', via_fields, fi.module, fi.qualname, 'for field in a._fields',
                  'children must be enumerated through the grammar (_fields)', fi.lineno)
        # the filter on a list-valued field: `isinstance(<list>[0], ...)` (whatever the list local is called)
        tests = [n for g in group for n in walk_no_nested(g.node) if isinstance(n, ast.Call) and call_name(n) == 'isinstance' and len(n.args) == 2
                 and isinstance(n.args[0], ast.Subscript) and isinstance(n.args[0].value, ast.Name) and
                 isinstance(n.args[0].slice, ast.Constant) and n.args[0].slice.value == 0]
        par = {}
        for g in group:
            par.update(parent_map(g.node))
        ok = bool(tests)
        for t in tests:
            neg = isinstance(par.get(t), ast.UnaryOp) and isinstance(par[t].op, ast.Not)
            ok = ok and neg and norm(t.args[1]) == 'str'
        ctx.check('R15.3', ok, fi.module, fi.qualname, f'list filter {[norm(t) for t in tests]}',
                  f'the child-list filter must only exclude string lists (`not isinstance(child[0], str)`): lists such as '
                  f'{opt_lists[:2]} may start with None and their nodes would stay marked alive after removal', fi.lineno)
    # every removal path unmakes: functions that delete from a child list of self must call _unmake_fst_tree / _set_field / _set_ast
    # (decided under C02 R2.2)



# ---- R15.4 -----------------------------------------------------------------------------------------------------------
    check_replace_unmakes(ctx)
    check_raw_child_drops(ctx, F)
    check_set_ast_shared_children(ctx)
    check_link_liveness_in_yielding_loops(ctx)


def check_replace_unmakes(ctx):
    """The link kernel (_set_field, _set_ast) overwrites what a node holds.  With `unmake` requested (the default) the replaced tree must be
    marked dead on *every* path that reaches the overwrite, also when the new value is None (deleting a field): a detached node that keeps
    its links passes walk()'s liveness tests and is yielded although it is no longer part of the tree."""
    from ..cfg import CFG, subnodes
    ctx.rule('R15.4', 'in _set_field / _set_ast every path that overwrites the old value under `unmake` passes _unmake_fst_tree()', 2)
    from ..struct import called_helpers
    # what "unmake" is called: the method, or the worker it is a thin wrapper of (`_unmake_fst_trees(stack)`) — a worker that clears links
    unmake_names = {'_unmake_fst_tree'}
    for u in ctx.repo.funcs('fst_core', '_unmake_fst_tree'):
        for g in called_helpers(ctx.repo, u, 2):
            if any(isinstance(n, ast.Assign) and isinstance(n.value, ast.Constant) and n.value.value is None and
                   any(isinstance(t, ast.Attribute) and t.attr in ('a', 'f') for t in n.targets) for n in ast.walk(g.node)):
                unmake_names.add(g.name)
    for q in ('_set_field', '_set_ast'):
        for fi in ctx.repo.funcs('fst_core', q):
            if 'unmake' not in fi.params():
                raise AnalysisError(f'{q}: parameter `unmake` vanished')
            cfg = CFG(fi.node)
            unmakes, writes = set(), []
            for nd in cfg.nodes:
                for x in subnodes(cfg, nd):
                    if isinstance(x, ast.Call) and call_name(x) in unmake_names:
                        unmakes.add(nd.id)
                    if isinstance(x, ast.Call) and call_name(x) == 'setattr' and len(x.args) == 3:
                        writes.append((nd, x))
                    if isinstance(x, ast.Assign) and any(isinstance(t, ast.Attribute) and t.attr == 'a' and norm(t.value) == 'self' for t in x.targets):
                        writes.append((nd, x))
            if not writes:
                raise AnalysisError(f'{q}: the overwrite of the old value was not found')

            def edge_ok(n_, lab, s_):
                if lab == 'exc':
                    return False
                t = n_.ast if n_.kind == 'test' and isinstance(n_.ast, ast.expr) else None
                if isinstance(t, ast.Name) and t.id == 'unmake' and lab == 'false':
                    return False            # specialised for unmake=True
                return True
            reach = cfg.reachable(cfg.entry, edge_ok, stop=unmakes)
            for nd, x in writes:
                ctx.check('R15.4', nd.id not in reach or nd.id in unmakes, fi.module, fi.qualname, norm(x, 60),
                          'the old value is overwritten on a path that skipped _unmake_fst_tree() although `unmake` was requested: the replaced '
                          'node keeps `a.f` / `f.a` and still looks alive to a walk that holds it', x.lineno,
                          sample={'function': fi.key, 'write': norm(x, 60)})


# ---- R15.5 -----------------------------------------------------------------------------------------------------------

def check_raw_child_drops(ctx, F):
    """A put handler knows the class of its `self` from the table row(s) that register it.  Storing `None` straight into a field of
    `self.a` that holds a *node* for that class drops the child without unmaking it: the detached subtree keeps its `.f` / `.a` links, passes
    walk()'s liveness tests and is yielded (or its pending entry on a walk stack is) although it is gone from the tree.  Such a field has to
    be emptied through the kernel (`_put_one(None, ...)`, `_set_field`) or after `_unmake_fst_tree()` of the old value.  Identifier /
    constant fields (`ExceptHandler.name`, `MatchAs.name`) are plain values and may be stored directly."""
    from ..cfg import CFG, subnodes
    ctx.rule('R15.5', 'a put handler does not empty a node-valued field of its own node by a raw `= None` store (the child would stay linked)', 2)
    tabs = [('fst_put_one', '_PUT_ONE_HANDLERS'), ('fst_put_slice', '_PUT_SLICE_HANDLERS')]
    by_func = {}
    for mod, tn in tabs:
        for k, row in ctx.ev.get(mod, tn).items():
            cls = k[0] if isinstance(k, tuple) else None
            toks = [t for t in (row if isinstance(row, (tuple, list)) else [row]) if isinstance(t, FuncTok)]
            if isinstance(cls, ClassTok):
                for t in toks:
                    by_func.setdefault(t.key, (t, set()))[1].add(cls)
    n = 0
    for key, (tok, classes) in by_func.items():
        fields = [dict(F.get(c, [])) for c in classes]
        for fi in ctx.repo.mod(tok.module).func(tok.qualname):
            if isinstance(fi.node, ast.Lambda):
                continue
            aliases = {'self.a'} | {norm(x.targets[0]) for x in walk_no_nested(fi.node) if isinstance(x, ast.Assign) and len(x.targets) == 1 and
                                    isinstance(x.targets[0], ast.Name) and norm(x.value) == 'self.a'} | \
                {x.target.id for x in walk_no_nested(fi.node) if isinstance(x, ast.NamedExpr) and norm(x.value) == 'self.a'}
            cfg = None
            for x in walk_no_nested(fi.node):
                if not (isinstance(x, ast.Assign) and isinstance(x.value, ast.Constant) and x.value.value is None):
                    continue
                for t in x.targets:
                    if not (isinstance(t, ast.Attribute) and norm(t.value) in aliases):
                        continue
                    types = [fd.get(t.attr) for fd in fields]
                    if not types or any(ty is None for ty in types):
                        continue                    # not a field of (all of) the registered classes
                    n += 1
                    node_valued = all(T.is_ast_type(ty.rstrip('?*')) and t.attr not in ('ctx',) for ty in types)
                    ok = not node_valued
                    if node_valued:
                        # allowed when every path to the store has unmade the old value
                        cfg = cfg or CFG(fi.node)
                        um = {nd.id for nd in cfg.nodes if any(isinstance(y, ast.Call) and call_name(y) in ('_unmake_fst_tree', '_set_field')
                                                              for y in subnodes(cfg, nd))}
                        st = [nd for nd in cfg.nodes if any(y is x for y in subnodes(cfg, nd))]
                        ok = bool(st) and all(nd.id not in cfg.reachable(cfg.entry, lambda n_, lab, s_: lab != 'exc', stop=um) for nd in st)
                    ctx.check('R15.5', ok, fi.module, fi.qualname, norm(x, 60),
                              f'`{norm(t)}` holds a node for {sorted(c.name for c in classes)}; storing None into it drops the child without unmaking it: the '
                              f'detached subtree still looks alive to a running walk() and is yielded', x.lineno,
                              sample={'handler': fi.key, 'store': norm(x, 60), 'classes': sorted(c.name for c in classes)})
    if n < 2:
        raise AnalysisError(f'only {n} raw None stores into own fields found in the put handlers')


# ---- R15.6 -----------------------------------------------------------------------------------------------------------

def check_set_ast_shared_children(ctx):
    """`X._set_ast(NewClass(f=old.f, ...))` with the default `valid_fst=False, unmake=True` unmakes the whole old tree of X first - the child lists
    shared with the new node included - and makes new FST nodes for all of them: every node under X that a running walk() holds (its pending
    stack entries, the node the consumer just put) is dead although it is still in the tree.  A structured edit that changes the *class* of a node
    and keeps its children hands them over as they are (`valid_fst=True`, or by re-pointing `.a` / `.f` itself).  The raw reparse is not bound by
    this (it re-makes the statement it reparsed, documented)."""
    ctx.rule('R15.6', 'a structured edit that gives a node a new AST built from the fields of the old one keeps the children\'s FST nodes '
                      '(`_set_ast(..., valid_fst=True, unmake=False)` or manual re-linking), it does not unmake and re-make them', 0)
    n = 0
    for fi in ctx.repo.all_funcs():
        if isinstance(fi.node, ast.Lambda) or fi.module in ('fst_raw',):
            continue
        binds = {}
        for x in walk_no_nested(fi.node):
            if isinstance(x, ast.Assign) and len(x.targets) == 1 and isinstance(x.targets[0], ast.Name):
                binds.setdefault(x.targets[0].id, []).append(x.value)
            elif isinstance(x, ast.NamedExpr):
                binds.setdefault(x.target.id, []).append(x.value)
        for c in walk_no_nested(fi.node):
            if not (isinstance(c, ast.Call) and call_name(c) == '_set_ast' and isinstance(c.func, ast.Attribute) and c.args):
                continue
            valid = c.args[1] if len(c.args) > 1 else next((k.value for k in c.keywords if k.arg == 'valid_fst'), None)
            recv = norm(c.func.value)
            new = c.args[0]
            if isinstance(new, ast.Name) and len(binds.get(new.id, [])) == 1:
                new = binds[new.id][0]
            if not (isinstance(new, ast.Call) and new.keywords and not new.args):
                continue
            # names for the receiver's current AST: `<recv>.a` or a local bound from it
            olds = {recv + '.a'} | {k for k, vs in binds.items() if any(norm(v) == recv + '.a' for v in vs)}
            shared = [k.arg for k in new.keywords if isinstance(k.value, ast.Attribute) and norm(k.value.value) in olds
                      and k.arg not in ('lineno', 'col_offset', 'end_lineno', 'end_col_offset', 'ctx')]
            if not shared:
                continue
            n += 1
            unmk = c.args[2] if len(c.args) > 2 else next((k.value for k in c.keywords if k.arg == 'unmake'), None)
            ok = isinstance(valid, ast.Constant) and valid.value is True and isinstance(unmk, ast.Constant) and unmk.value is False
            ctx.check('R15.6', ok, fi.module, fi.qualname, f'{recv}._set_ast({norm(new.func)}(<fields of the old node>))',
                      f'the new AST shares the children {shared} with the old one and is installed with valid_fst=False: _set_ast() unmakes the old tree '
                      f'(these children included) and makes new FST nodes for them - every FST node below `{recv}` held by a running walk() or by the caller is '
                      f'dead although its AST is still in the tree', c.lineno, sample={'function': fi.key, 'call': norm(c, 100)})
    ctx.extra['set_ast_with_shared_children'] = n


# ---- R15.7 -----------------------------------------------------------------------------------------------------------

def check_link_liveness_in_yielding_loops(ctx):
    """A generator of the traversal that loops over nodes it collected earlier and yields inside the loop gives the consumer the chance to
    remove or replace the *later* elements: their `.f` link is None then.  Inside such a loop the `.f` of the loop element is handed on or
    dereferenced only under a truth test of that link (`if d and (df := d.f): ... df`), the idiom of walk() itself."""
    from ..struct import enclosing_tests
    ctx.rule('R15.7', 'in a loop that yields, the `.f` link of the loop element is tested before it is handed on or dereferenced', 1)
    n = 0
    for fi in ctx.repo.all_funcs():
        if isinstance(fi.node, ast.Lambda) or fi.module != 'fst_traverse' or not is_generator(fi.node):
            continue
        par = None
        for loop in walk_no_nested(fi.node):
            if not (isinstance(loop, ast.For) and isinstance(loop.target, ast.Name)):
                continue
            if not any(isinstance(y, (ast.Yield, ast.YieldFrom)) for b in loop.body for y in ast.walk(b)):
                continue
            v = loop.target.id
            for x in (y for b in loop.body for y in ast.walk(b)):
                if not (isinstance(x, ast.Attribute) and x.attr == 'f' and isinstance(x.value, ast.Name) and x.value.id == v):
                    continue
                par = par or parent_map(fi.node)
                p = par.get(x)
                if isinstance(p, ast.NamedExpr) and p.value is x:
                    n += 1
                    ctx.ok('R15.7', f'{fi.qualname}|{norm(p, 60)} (link bound and tested)')
                    continue                  # `(df := d.f)`: the test itself (what is done with df is df's business)
                used = (isinstance(p, ast.Call) and x in p.args) or (isinstance(p, ast.Attribute) and p.value is x) or isinstance(p, ast.keyword)
                if not used:
                    continue
                n += 1
                tests = [t for t, pol in enclosing_tests(fi.node, x, par) if pol]
                ok = any(isinstance(y, ast.Attribute) and y.attr == 'f' and isinstance(y.value, ast.Name) and y.value.id == v
                         for t in tests for y in ast.walk(t))
                ctx.check('R15.7', ok, fi.module, fi.qualname, f'{norm(p, 60)} in `for {v} in ...` (yielding loop)',
                          f'`{v}.f` is handed on / dereferenced in a loop that yields without a truth test of the link: an element the consumer removed or '
                          f'replaced during an earlier yield of the loop has `.f` None (AttributeError in the middle of the walk)', x.lineno,
                          sample={'function': fi.key, 'use': norm(p, 60)})
    ctx.extra['yielding_loops_link_uses'] = n
