"""R3.5 — two coordinate systems in view.py: indices into the *base field* (B) and indices relative to the *view* (V).

A view `FSTView(base, field, start, stop)` shows base_field[start:stop].  User-facing indices are view relative (V: 0 is the first item
of the view, negative counts from the view's end); the kernel and the field lists speak base coordinates (B = start + V).  Lengths come
in two flavours as well: the view's (LV = stop - start, len(self)) and the field's (LB = len_field, _len_field()).

Kinds are inferred for every integer expression of every FSTView method:
  sources   _base_indices() -> (B, B, LB);  _fixup_item_indices() -> (B, B, LB, V, V);  self._start / self._stop -> B;  an `idx` /
            `start` / `stop` *parameter* of a public view method -> V;  fixup_one_index(L, V) -> V;  fixup_slice_indices(L, V, V) -> (V, V);
            len(self) -> LV;  self._len_field() -> LB;  integer literals -> polymorphic.
  algebra   B + V = B;  B +- L = B;  B - B = LV;  V +- L = V;  V - V = LV;  L +- L = L;  x +- literal = x;  B + B and V + V are mixes.
  sinks     index arguments of kernel calls on self.base (_put_slice, _put_one, get, get_slice, _get_one, _get_slice), of self._getitem(),
            of the view constructors, stores to self._start / self._stop, subscripts of base field lists: must be B (or polymorphic).
  clipping  max() / min() / ordering comparisons: a B is never clipped against / compared with a literal, a V or an LV (0 is the origin of the
            view, not of the field); a V never with a B or an LB.
An expression whose kind cannot be inferred is not decided (counted).  Decides the structural part of "indices, negative indices and
'end' behave like a Python list *relative to the view*"; the arithmetic itself (off-by-one, which bound) stays value level.
"""
from __future__ import annotations

import ast

from ..model import AnalysisError, norm, walk_no_nested, call_name

KERNEL_IDX = {'_put_slice': (1, 2), '_put_one': (1,), 'get': (0,), 'get_slice': (0, 1), '_get_one': (0,), '_get_slice': (0, 1),
              'put_slice': (1, 2), 'put': (1,)}
PUBLIC_V_PARAMS = {'idx', 'start', 'stop'}


class Kinds:
    """Kind evaluation under an environment {name: kind}; flow-sensitive environments come from a forward dataflow over the CFG
    (a name whose kinds disagree at a join is undecided, never a finding)."""

    def __init__(self, fi, view_classes):
        self.fi = fi
        self.fn = fi.node
        a = self.fn.args
        self.params = [p.arg for p in a.posonlyargs + a.args + a.kwonlyargs]
        self.env0 = {}
        public = not fi.name.startswith('_') or fi.name in ('__getitem__', '__setitem__', '__delitem__', '_fixup_item_indices')
        for p in self.params:
            if p in PUBLIC_V_PARAMS and public:
                self.env0[p] = 'V'
            elif p == 'idx' and fi.name == '_getitem':
                self.env0[p] = 'B'

    def tuple_kinds(self, v, n, env):
        if isinstance(v, ast.Call):
            cn = call_name(v)
            if cn == '_base_indices':
                return ['B', 'B', 'LB'][:n]
            if cn == '_fixup_item_indices':
                return ['B', 'B', 'LB', 'V', 'V'][:n]
            if cn == 'fixup_slice_indices':
                return ['V', 'V'][:n]
        if isinstance(v, ast.Subscript) and isinstance(v.value, ast.Call) and call_name(v.value) == '_base_indices' and isinstance(v.slice, ast.Slice):
            return ['B', 'B'][:n]
        if isinstance(v, ast.Tuple) and len(v.elts) == n:
            return [self.kind(e, env) for e in v.elts]
        return [None] * n

    def kind(self, e, env):
        if isinstance(e, ast.Constant):
            return 'P' if isinstance(e.value, int) and not isinstance(e.value, bool) else None
        if isinstance(e, ast.Name):
            return env.get(e.id)
        if isinstance(e, ast.NamedExpr):
            return self.kind(e.value, env)
        if isinstance(e, ast.Attribute):
            if norm(e.value) == 'self' and e.attr in ('_start', '_stop', 'start', 'stop'):
                return 'B'
            return None
        if isinstance(e, ast.Subscript):
            if isinstance(e.value, ast.Call) and call_name(e.value) == '_base_indices' and isinstance(e.slice, ast.Constant):
                return ['B', 'B', 'LB'][e.slice.value] if e.slice.value in (0, 1, 2) else None
            return None
        if isinstance(e, ast.Call):
            cn = call_name(e)
            if cn == 'fixup_one_index':
                return 'V'
            if cn == '_len_field':
                return 'LB'
            if cn == 'len' and e.args and norm(e.args[0]) == 'self':
                return 'LV'
            if cn in ('max', 'min') and e.args:
                ks = {self.kind(a, env) for a in e.args}
                if None in ks:
                    return None
                ks -= {'P'}
                return next(iter(ks)) if len(ks) == 1 else ('MIX' if len(ks) > 1 else 'P')
            return None
        if isinstance(e, ast.IfExp):
            ks = {self.kind(e.body, env), self.kind(e.orelse, env)}
            if None in ks:
                return None
            ks -= {'P'}
            return next(iter(ks)) if len(ks) == 1 else ('MIX' if len(ks) > 1 else 'P')
        if isinstance(e, ast.BinOp) and isinstance(e.op, (ast.Add, ast.Sub)):
            l, r = self.kind(e.left, env), self.kind(e.right, env)
            if l is None or r is None:
                return None
            if l == 'P':
                return r
            if r == 'P':
                return l
            add = isinstance(e.op, ast.Add)
            if 'MIX' in (l, r):
                return 'MIX'
            if l == 'B':
                if r == 'V':
                    return 'B' if add else 'MIX'
                if r in ('LV', 'LB'):
                    return 'B'
                if r == 'B':
                    return 'MIX' if add else 'LV'
            if l == 'V':
                if r == 'B':
                    return 'B' if add else 'MIX'
                if r in ('LV', 'LB'):
                    return 'V'
                if r == 'V':
                    return 'MIX' if add else 'LV'
            if l in ('LV', 'LB'):
                if r in ('LV', 'LB'):
                    return l if l == r else 'LV'
                if r in ('B', 'V'):
                    return r if add else 'MIX'
            return None
        if isinstance(e, ast.UnaryOp):
            return self.kind(e.operand, env)
        return None

    # -- dataflow -------------------------------------------------------------------------------------------------------
    def bind(self, target, value, env, out):
        """LB is a legitimate base index (one past the last element), LV a legitimate view index."""
        if isinstance(target, ast.Name):
            out[target.id] = self.kind(value, env)
        elif isinstance(target, ast.Tuple):
            ks = self.tuple_kinds(value, len(target.elts), env)
            for e_, k in zip(target.elts, ks):
                if isinstance(e_, ast.Name):
                    out[e_.id] = k
                elif isinstance(e_, ast.Starred) and isinstance(e_.value, ast.Name):
                    out[e_.value.id] = None

    def node_envs(self, cfg):
        """{cfg node id: environment in force while the node's expressions are evaluated (walrus bindings of the node applied)}"""
        from ..cfg import solve, subnodes

        def eval_env(node, st):
            env = dict(st)
            for x in subnodes(cfg, node):
                if isinstance(x, ast.NamedExpr):
                    self.bind(x.target, x.value, env, env)
            return env

        def transfer(node, st):
            env = eval_env(node, st)
            out = dict(env)
            a = node.ast
            if node.kind == 'stmt':
                if isinstance(a, ast.Assign):
                    for t in a.targets:
                        self.bind(t, a.value, env, out)
                elif isinstance(a, ast.AugAssign) and isinstance(a.target, ast.Name):
                    out[a.target.id] = self.kind(ast.BinOp(left=a.target, op=a.op, right=a.value), env)
                elif isinstance(a, ast.AnnAssign) and a.value is not None:
                    self.bind(a.target, a.value, env, out)
            elif node.kind == 'iter':
                for x in ast.walk(a.target):
                    if isinstance(x, ast.Name):
                        out[x.id] = None
            elif node.kind == 'with':
                for it in a.items:
                    if it.optional_vars is not None:
                        for x in ast.walk(it.optional_vars):
                            if isinstance(x, ast.Name):
                                out[x.id] = None
            return frozenset((k, v) for k, v in out.items() if v is not None)

        def join(a_, b_):
            da, db = dict(a_), dict(b_)
            out = {}
            for k in da.keys() & db.keys():
                x, y = da[k], db[k]
                if x == y:
                    out[k] = x
                elif {x, y} == {'B', 'LB'}:
                    out[k] = 'B'
                elif {x, y} == {'V', 'LV'}:
                    out[k] = 'V'
                elif 'P' in (x, y):
                    out[k] = x if y == 'P' else y
            return frozenset(out.items())

        ins = solve(cfg, frozenset(self.env0.items()), transfer, join)
        return {nid: eval_env(cfg.nodes[nid], st) for nid, st in ins.items() if st is not None}


def check(ctx):
    ctx.rule('R3.5', 'view.py keeps view-relative and base-field indices apart: kernel / field sinks get base indices, clipping and ordering '
                     'comparisons never mix the two systems', 40)
    m = ctx.repo.mod('view')
    view_classes = {n.name for n in m.tree.body if isinstance(n, ast.ClassDef) and (n.name == 'FSTView' or any(norm(b).startswith('FSTView') for b in n.bases))}
    if len(view_classes) < 4:
        raise AnalysisError('view classes not found')
    n_und = 0
    for fi in ctx.repo.all_funcs():
        if fi.module != 'view' or fi.cls not in view_classes or isinstance(fi.node, ast.Lambda):
            continue
        K = Kinds(fi, view_classes)
        from ..cfg import CFG, subnodes
        cfg = CFG(fi.node)
        envs = K.node_envs(cfg)

        def sink(e, where, what, env):
            nonlocal n_und
            k = K.kind(e, env)
            if k is None:
                n_und += 1
                return
            ctx.check('R3.5', k in ('B', 'P', 'LB'), fi.module, fi.qualname, f'{norm(e, 50)} in {norm(where, 60)}',
                      f'{what} needs an index into the base field but gets a {_name(k)}: the operation lands outside / at the wrong place of the '
                      f'view as soon as the view does not start at 0', getattr(e, 'lineno', fi.lineno),
                      sample={'method': fi.key, 'expr': norm(e, 50), 'kind': k})

        for nd in cfg.nodes:
            env = envs.get(nd.id)
            if env is None:
                continue
            for x in subnodes(cfg, nd):
                if isinstance(x, ast.Call):
                    cn = call_name(x)
                    recv = norm(x.func.value) if isinstance(x.func, ast.Attribute) else None
                    if cn in KERNEL_IDX and recv in ('self.base', 'base'):
                        for i in KERNEL_IDX[cn]:
                            if len(x.args) > i:
                                sink(x.args[i], x, f'kernel call {cn}()', env)
                    elif cn == '_getitem' and recv == 'self' and x.args:
                        sink(x.args[0], x, '_getitem()', env)
                    elif norm(x.func) == 'self.__class__' and len(x.args) >= 4 and norm(x.args[0]) == 'self.base':
                        sink(x.args[2], x, 'view constructor', env)
                        sink(x.args[3], x, 'view constructor', env)
                    elif cn in ('max', 'min') and len(x.args) >= 2:
                        _clip(ctx, fi, K, x, list(x.args), env)
                elif isinstance(x, ast.Assign) and len(x.targets) == 1 and isinstance(x.targets[0], ast.Attribute) and \
                        norm(x.targets[0].value) == 'self' and x.targets[0].attr in ('_start', '_stop'):
                    if not (isinstance(x.value, ast.Constant) and x.value.value is None) and fi.name != '__init__':
                        sink(x.value, x, f'self.{x.targets[0].attr}', env)
                elif isinstance(x, ast.Compare) and len(x.ops) == 1 and isinstance(x.ops[0], (ast.Lt, ast.Gt, ast.LtE, ast.GtE)):
                    _clip(ctx, fi, K, x, [x.left, x.comparators[0]], env)
                elif isinstance(x, ast.BinOp) and isinstance(x.op, (ast.Add, ast.Sub)) and K.kind(x, env) == 'MIX' and \
                        K.kind(x.left, env) != 'MIX' and K.kind(x.right, env) != 'MIX':
                    ctx.bad('R3.5', fi.module, fi.qualname, norm(x, 70),
                            f'arithmetic mixes {_name(K.kind(x.left, env))} and {_name(K.kind(x.right, env))}', x.lineno)
    ctx.extra['view_index_expressions_not_decided'] = n_und


def _name(k):
    return {'B': 'base-field index', 'V': 'view-relative index', 'LV': 'view length', 'LB': 'field length', 'P': 'literal', 'MIX': 'mixed value'}.get(k, str(k))


def _clip(ctx, fi, K, node, args, env):
    ks = [K.kind(a, env) for a in args]
    if any(k is None for k in ks):
        return
    s = set(ks)
    bad = None
    if 'B' in s and (s & {'V', 'LV'} or ('P' in s and any(isinstance(a, ast.Constant) and a.value == 0 for a in args))):
        bad = 'a base-field index is clipped against / compared with the origin or the length of the view'
    elif 'V' in s and s & {'B', 'LB'}:
        bad = 'a view-relative index is clipped against / compared with a base-field quantity'
    elif 'MIX' in s:
        bad = 'operand of mixed coordinate systems'
    ctx.check('R3.5', bad is None, fi.module, fi.qualname, norm(node, 70),
              f'{bad}: negative / out-of-range indices are resolved relative to the field instead of the view (or vice versa)', node.lineno,
              sample={'method': fi.key, 'expr': norm(node, 70), 'kinds': ks})


def check_stop_maintenance(ctx):
    """R3.6 — a bounded view (`_stop is not None`) must follow the length of its field: after every kernel call through which a view method
    can change the field (`self.base._put_one / _put_slice / put / put_slice`, `_get_one / _get_slice` with a cut), every normal path to
    the exit passes the `self._stop is not None` decision (whose true arm adjusts `_stop`) or stores `_stop` directly."""
    from ..cfg import CFG, subnodes
    ctx.rule('R3.6', 'every view method that edits the field through the kernel re-synchronises a bounded view\'s _stop afterwards', 10)
    MUT = {'_put_one', '_put_slice', 'put', 'put_slice'}
    GET = {'_get_one': 2, '_get_slice': 3}
    m = ctx.repo.mod('view')
    view_classes = {n.name for n in m.tree.body if isinstance(n, ast.ClassDef) and (n.name == 'FSTView' or any(norm(b).startswith('FSTView') for b in n.bases))}
    def sync_nodes(cfg, syncers=()):
        good = set()
        for nd in cfg.nodes:
            for x in subnodes(cfg, nd):
                if isinstance(x, ast.Compare) and norm(x.left) == 'self._stop' and len(x.ops) == 1 and isinstance(x.ops[0], (ast.Is, ast.IsNot)) and \
                        isinstance(x.comparators[0], ast.Constant) and x.comparators[0].value is None:
                    good.add(nd.id)
                elif isinstance(x, (ast.Assign, ast.AugAssign)):
                    t = x.targets[0] if isinstance(x, ast.Assign) else x.target
                    if norm(t) == 'self._stop':
                        good.add(nd.id)
                elif isinstance(x, ast.Call) and isinstance(x.func, ast.Attribute) and norm(x.func.value) == 'self' and x.func.attr in syncers:
                    good.add(nd.id)
        return good
    # a private method of the view whose every normal path makes the `_stop` decision is the re-synchronisation itself (extracted worker)
    syncers = set()
    for fi in ctx.repo.all_funcs():
        if fi.module == 'view' and fi.cls in view_classes and not isinstance(fi.node, ast.Lambda) and fi.name.startswith('_') and not fi.name.startswith('__'):
            c0 = CFG(fi.node)
            g0 = sync_nodes(c0)
            if g0 and c0.exit not in c0.reachable(c0.entry, lambda n_, lab, s: lab != 'exc', stop=g0):
                syncers.add(fi.name)
    ctx.extra['stop_sync_workers'] = sorted(syncers)
    for fi in ctx.repo.all_funcs():
        if fi.module != 'view' or fi.cls not in view_classes or isinstance(fi.node, ast.Lambda):
            continue
        cfg = CFG(fi.node)
        good, muts = sync_nodes(cfg, syncers), []
        for nd in cfg.nodes:
            for x in subnodes(cfg, nd):
                if isinstance(x, ast.Call) and isinstance(x.func, ast.Attribute) and norm(x.func.value) in ('self.base', 'base'):
                    cn = x.func.attr
                    if cn in MUT:
                        muts.append((nd, x))
                    elif cn in GET and len(x.args) > GET[cn] and not (isinstance(x.args[GET[cn]], ast.Constant) and x.args[GET[cn]].value is False):
                        muts.append((nd, x))
        for nd, x in muts:
            # a view that is used up by the operation (`return`ed result of a cut of everything) still has to clip: no exemption
            reach = cfg.reachable(nd.id, lambda n_, lab, s: lab != 'exc', stop=good)
            # the kernel call handed straight to the re-synchronising worker (`self._rebase(self.base._put_one(...), n)`): arguments first
            nested_in_sync = any(isinstance(y, ast.Call) and isinstance(y.func, ast.Attribute) and norm(y.func.value) == 'self' and y.func.attr in syncers and
                                 any(z is x for a_ in list(y.args) + [k.value for k in y.keywords] for z in ast.walk(a_)) for y in subnodes(cfg, nd))
            ctx.check('R3.6', nested_in_sync or cfg.exit not in reach, fi.module, fi.qualname, norm(x, 70),
                      'the field length may change here but some path leaves the method without looking at `self._stop`: a bounded view keeps its old '
                      'end and silently takes in (or loses) the neighbouring element; later operations through the view land one off', x.lineno,
                      sample={'method': fi.key, 'call': norm(x, 70)})


def check_async_twins(ctx, F):
    """R3.7 — With/AsyncWith, For/AsyncFor, FunctionDef/AsyncFunctionDef have identical fields (checked against FIELDS): whatever the code does for
    the sync class it has to do for the async one, the only difference between them being the `async` keyword in front.  A class test that
    names the sync class must name its async twin in the same test (a test for the async class alone is the keyword-prefix case)."""
    TW = {'With': 'AsyncWith', 'For': 'AsyncFor', 'FunctionDef': 'AsyncFunctionDef'}
    ctx.rule('R3.7', 'a node-class test that names With / For / FunctionDef names the async twin too (identical fields, identical handling)', 5)
    byname = {c.name: fs for c, fs in F.items()}
    for a_, b_ in TW.items():
        if byname.get(a_) != byname.get(b_):
            raise AnalysisError(f'FIELDS[{a_}] != FIELDS[{b_}]: the twin premise of R3.7 no longer holds')
    SETS = {}      # names of module-level class sets that contain both twins: ASTS_LEAF_WITH, ...
    n = 0
    n_sets = 0
    for fi in ctx.repo.all_funcs():
        if isinstance(fi.node, ast.Lambda) or fi.module in ('match', 'asttypes', 'fst_type_predicates', 'traverse_next', 'traverse_prev', 'astutil'):
            continue
        for c in walk_no_nested(fi.node):
            if not (isinstance(c, ast.Compare) and len(c.ops) == 1 and isinstance(c.ops[0], (ast.Is, ast.Eq, ast.IsNot, ast.NotEq, ast.In, ast.NotIn))):
                continue
            r = c.comparators[0]
            names = [r.id] if isinstance(r, ast.Name) else [e.id for e in r.elts if isinstance(e, ast.Name)] if isinstance(r, (ast.Tuple, ast.Set, ast.List)) else []
            if isinstance(r, ast.Name) and isinstance(c.ops[0], (ast.In, ast.NotIn)) and r.id not in TW:
                # membership in a named module-level class set: the set is evaluated and judged like the literal tuple it stands for
                try:
                    val = ctx.ev.get(fi.module, r.id)
                except Exception:
                    val = None
                if isinstance(val, (set, frozenset, tuple, list)) and val and all(hasattr(k, 'name') and hasattr(k, 'mro') for k in val):
                    names = sorted(k.name for k in val)
                    n_sets += 1
            for nm in names:
                if nm in TW:
                    n += 1
                    ctx.check('R3.7', TW[nm] in names, fi.module, fi.qualname, norm(c, 80),
                              f'the test singles out {nm} and leaves {TW[nm]} to another path although both have the same fields: the async form of the '
                              f'statement misses this handling', c.lineno, sample={'function': fi.key, 'test': norm(c, 80)})
    # the instance population are the tests naming the sync class (with its twin); at least the module-level families must exist
    fam = [n_ for n_ in ('ASTS_LEAF_WITH', 'ASTS_LEAF_FOR', 'ASTS_LEAF_FUNCDEF') if any(n_ in m.src for m in ctx.repo.modules.values() if hasattr(m, 'src'))]
    ctx.extra['async_twin_tests'] = n
    ctx.extra['async_twin_named_sets_evaluated'] = n_sets


def check_code_forms(ctx):
    """R3.8 — `Code` is `str | list[str] | AST | FST`: source text comes as one string or as a list of lines, and both are the same request.
    A decision that singles out `isinstance(code, str)` must handle `list` in the same decision (same boolean expression, or another arm of
    the same if / elif chain); `isinstance(code, (str, list))` is the combined form."""
    from ..struct import parent_map
    ctx.rule('R3.8', 'a type test that recognises source text given as `str` recognises it given as a list of lines too', 15)
    n = 0

    def is_test(x, types):
        if not (isinstance(x, ast.Call) and call_name(x) == 'isinstance' and len(x.args) == 2 and isinstance(x.args[0], ast.Name)):
            return None
        t = x.args[1]
        names = {t.id} if isinstance(t, ast.Name) else {e.id for e in t.elts if isinstance(e, ast.Name)} if isinstance(t, ast.Tuple) else set()
        return x.args[0].id if names == types else None

    for fi in ctx.repo.all_funcs():
        if isinstance(fi.node, ast.Lambda) or 'code' not in fi.params():
            continue
        par = None
        for x in walk_no_nested(fi.node):
            v = is_test(x, {'str'})
            if v != 'code':
                if is_test(x, {'str', 'list'}) == 'code':
                    n += 1
                    ctx.ok('R3.8', f'{fi.module}|{fi.qualname}|{norm(x)}@{n}')
                continue
            n += 1
            par = par or parent_map(fi.node)
            ok = False
            # same boolean expression
            cur = x
            while cur in par and isinstance(par[cur], (ast.BoolOp, ast.NamedExpr, ast.UnaryOp)):
                cur = par[cur]
            if any(is_test(y, {'list'}) == 'code' for y in ast.walk(cur)):
                ok = True
            # another arm of the same if / elif chain (walk up to the chain head, then down all arms)
            st = cur
            while st in par and not isinstance(st, ast.If):
                st = par[st]
            if isinstance(st, ast.If):
                head = st
                while head in par and isinstance(par[head], ast.If) and par[head].orelse == [head]:
                    head = par[head]
                arm = head
                while isinstance(arm, ast.If):
                    if any(is_test(y, {'list'}) == 'code' or is_test(y, {'str', 'list'}) == 'code' for y in ast.walk(arm.test)):
                        ok = True
                    arm = arm.orelse[0] if len(arm.orelse) == 1 and isinstance(arm.orelse[0], ast.If) else None
            # normalising arm: `if isinstance(code, str): code = code.split('\n')` -- the list form is what follows anyway
            if not ok and isinstance(st, ast.If) and any(y is x for y in ast.walk(st.test)) and len(st.body) == 1 and \
                    isinstance(st.body[0], ast.Assign) and norm(st.body[0].targets[0]) == 'code' and isinstance(st.body[0].value, ast.Call) and \
                    call_name(st.body[0].value) == 'split':
                ok = True
            # joining arm: `src = code if isinstance(code, str) else '\n'.join(code)` -- the other arm *is* the list form
            if not ok:
                holder = cur
                while holder in par and not isinstance(holder, (ast.IfExp, ast.If)):
                    holder = par[holder]
                if isinstance(holder, (ast.IfExp, ast.If)) and any(y is x for y in ast.walk(holder.test)):
                    other = ([holder.orelse] if isinstance(holder, ast.IfExp) else holder.orelse) + ([holder.body] if isinstance(holder, ast.IfExp) else holder.body)
                    if any(isinstance(y, ast.Call) and call_name(y) == 'join' and y.args and norm(y.args[0]) == 'code' for o in other for y in ast.walk(o)):
                        ok = True
            ctx.check('R3.8', ok, fi.module, fi.qualname, norm(cur, 80),
                      'source given as one string is recognised here, the same source given as a list of lines is not (and falls into the node / '
                      'other-type path): the two forms of one request are treated differently', x.lineno,
                      sample={'function': fi.key, 'test': norm(cur, 80)})
    if n < 15:
        raise AnalysisError(f'only {n} code-form tests found')


def check_view_snapshots(ctx):
    """R3.10 - a view is (base, field, _start, _stop) and nothing else.  The coordinates are re-clipped against the live field before every use
    (R2.4) and maintained across the view's own edits (R3.5 / R3.6); everything else a view needs (the docstring offset of a `_body` view, the
    length of the field) it asks the tree when it needs it.  An additional attribute stored on the view whose value is computed from the tree is a
    second coordinate that nothing refreshes: it is right when the view is made and stale after the next edit made by any other route."""
    ctx.rule('R3.10', 'a view stores nothing computed from the tree besides its declared coordinates (base, field, _start, _stop)', 4)
    m = ctx.repo.mod('view')
    base_cls = m.classes.get('FSTView')
    if base_cls is None:
        raise AnalysisError('class FSTView not found')
    init = m.func('FSTView.__init__')
    declared = set()
    for fi in init:
        for x in walk_no_nested(fi.node):
            # the coordinates are what the constructor is *given*: `self.X = <parameter>`
            if isinstance(x, ast.Assign) and isinstance(x.value, ast.Name) and x.value.id in fi.params():
                for t in x.targets:
                    if isinstance(t, ast.Attribute) and isinstance(t.value, ast.Name) and t.value.id == 'self':
                        declared.add(t.attr)
    if len(declared) < 3:
        raise AnalysisError(f'FSTView.__init__ declares only {sorted(declared)}')
    view_classes = {n for n, c in m.classes.items() if n == 'FSTView' or any(norm(b).startswith('FSTView') for b in c.bases)}
    n = 0
    for q, fis in m.funcs.items():
        if q.count('.') != 1 or q.split('.')[0] not in view_classes:
            continue
        for fi in fis:
            if isinstance(fi.node, ast.Lambda):
                continue
            ps = fi.params()
            if not ps or ps[0] != 'self':
                continue
            for x in walk_no_nested(fi.node):
                tgs, val = [], None
                if isinstance(x, ast.Assign):
                    tgs, val = x.targets, x.value
                elif isinstance(x, (ast.AnnAssign, ast.AugAssign)) and x.value is not None:
                    tgs, val = [x.target], x.value
                for t in tgs:
                    if not (isinstance(t, ast.Attribute) and isinstance(t.value, ast.Name) and t.value.id == 'self'):
                        continue
                    n += 1
                    if t.attr in declared:
                        ctx.ok('R3.10', f'{fi.qualname}|{norm(x, 70)}')
                        continue
                    from_tree = any((isinstance(y, ast.Name) and y.id == 'base') or
                                    (isinstance(y, ast.Attribute) and y.attr in ('base', 'a', 'f', 'parent', 'pfield')) or
                                    (isinstance(y, ast.Call) and call_name(y) in ('len', '_len_field', '_base_indices'))
                                    for y in ast.walk(val))
                    ctx.check('R3.10', not from_tree, 'view', fi.qualname, norm(x, 70),
                              f'`self.{t.attr}` is not one of the view\'s coordinates {sorted(declared)} and its value is computed from the tree: nothing '
                              f're-computes it when the tree is edited through another route (the docstring of a `_body` view\'s owner is removed, an '
                              f'element is inserted before the view), so every later length / index / slice of this view is off', x.lineno,
                              sample={'method': fi.key, 'store': norm(x, 70)})
    if n < 4:
        raise AnalysisError(f'only {n} attribute stores found in the view classes')
