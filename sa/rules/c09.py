"""C09 — replacing an operand never changes grouping: precedence tables vs. the grammar, and their use.

R9.1  exhaustive decision table: for every expression / pattern slot (parent class, field [, flag variant]) and every
      child kind, pfst's verdict `child_prec < slot_prec` (read statically from _Precedence, _PRECEDENCE_NODES,
      _PRECEDENCE_NODE_FIELDS and the special-case arms of precedence_require_parens_by_type) must be "parenthesize"
      whenever the grammar (frozen below from Grammar/python.gram 3.12) cannot derive that child unparenthesized in
      that slot.  Over-parenthesizing is allowed by the property; under-parenthesizing is the violation.
R9.2  every put handler of an expression / pattern slot reaches precedence_require_parens in the call graph.
R9.3  _make_exprlike_fst removes parentheses only under `not need_pars(...)`.
R9.4  a physical source line is taken for continued only by a comment-aware test (regexes of common.py, _re_line_end_cont,
      next_frag / prev_frag), never by a bare `line.endswith(backslash)`; the two reviewed uses are frozen with their reason.
Not decided: the other multi-line / enclosure clauses (_is_enclosed_or_line, _is_atom depend on layout).
"""
from __future__ import annotations

import ast

from ..model import AnalysisError, norm, walk_no_nested, call_name
from ..consteval import ClassTok, FuncTok, EnumVal, Record
from ..callgraph import Resolver
from ..struct import Reach, parent_map, enclosing_tests
from .. import tables as T

PROP = 'C09'

# ----------------------------------------------------------------------------------------------------------------------
# Oracle, frozen from Grammar/python.gram (3.12).  Grammar levels, loosest first.
CHAIN = ['TEST', 'OR', 'AND', 'NOT', 'CMP', 'BOR', 'BXOR', 'BAND', 'SHIFT', 'ARITH', 'TERM', 'FACTOR', 'POWER', 'AWAIT', 'ATOM']

# child kind -> grammar level at which it is introduced (operators stand for BinOp/UnaryOp/BoolOp with that op)
KIND_LEVEL = {
    'NamedExpr': 'NAMED_EXPR', 'Tuple': 'TUPLE', 'Yield': 'YIELD', 'YieldFrom': 'YIELD', 'Lambda': 'TEST', 'IfExp': 'TEST',
    'Or': 'OR', 'And': 'AND', 'Not': 'NOT', 'Compare': 'CMP', 'BitOr': 'BOR', 'BitXor': 'BXOR', 'BitAnd': 'BAND',
    'LShift': 'SHIFT', 'RShift': 'SHIFT', 'Add': 'ARITH', 'Sub': 'ARITH', 'Mult': 'TERM', 'MatMult': 'TERM', 'Div': 'TERM',
    'Mod': 'TERM', 'FloorDiv': 'TERM', 'Invert': 'FACTOR', 'UAdd': 'FACTOR', 'USub': 'FACTOR', 'Pow': 'POWER',
    'Await': 'AWAIT', 'Name': 'ATOM', 'Call': 'ATOM', 'Constant': 'ATOM',
}


def accepts(nt: str) -> set[str]:
    """Grammar levels derivable *unparenthesized* from nonterminal `nt`."""
    if nt == 'star_expressions':          # tuple without parens, expression (no walrus, no yield)
        return {'TUPLE'} | set(CHAIN)
    if nt == 'star_expressions|yield':    # annotated_rhs / expression statement / assignment rhs
        return {'TUPLE', 'YIELD'} | set(CHAIN)
    if nt == 'named_expression':
        return {'NAMED_EXPR'} | set(CHAIN)
    if nt == 'named_expression|tuple':    # match subject, subscript slices
        return {'NAMED_EXPR', 'TUPLE'} | set(CHAIN)
    if nt == 'expression':
        return set(CHAIN)
    return set(CHAIN[CHAIN.index(nt):])


# (parent, field[, variant]) -> nonterminal.  Parent operator classes stand for BinOp / UnaryOp / BoolOp with that op.
SLOTS = {
    ('Expr', 'value'): 'star_expressions|yield', ('Assign', 'value'): 'star_expressions|yield',
    ('AugAssign', 'value'): 'star_expressions|yield', ('AnnAssign', 'value'): 'star_expressions|yield',
    ('AnnAssign', 'annotation'): 'expression', ('Return', 'value'): 'star_expressions',
    ('For', 'iter'): 'star_expressions', ('AsyncFor', 'iter'): 'star_expressions',
    ('While', 'test'): 'named_expression', ('If', 'test'): 'named_expression',
    ('Assert', 'test'): 'expression', ('Assert', 'msg'): 'expression', ('Raise', 'exc'): 'expression', ('Raise', 'cause'): 'expression',
    ('Match', 'subject'): 'named_expression|tuple', ('withitem', 'context_expr'): 'expression', ('keyword', 'value'): 'expression',
    ('NamedExpr', 'value'): 'expression', ('Lambda', 'body'): 'expression',
    ('IfExp', 'body'): 'OR', ('IfExp', 'test'): 'OR', ('IfExp', 'orelse'): 'expression',
    ('Await', 'value'): 'ATOM', ('Yield', 'value'): 'star_expressions', ('YieldFrom', 'value'): 'expression',
    ('Compare', 'left'): 'BOR', ('Compare', 'comparators'): 'BOR', ('Call', 'func'): 'ATOM', ('Subscript', 'value'): 'ATOM',
    ('Attribute', 'value'): 'ATOM',
    ('FormattedValue', 'value'): 'star_expressions|yield', ('Interpolation', 'value'): 'star_expressions|yield',
    ('comprehension', 'iter'): 'OR', ('comprehension', 'ifs'): 'OR', ('_comprehension_ifs', 'ifs'): 'OR',
    ('ListComp', 'elt'): 'named_expression', ('SetComp', 'elt'): 'named_expression', ('GeneratorExp', 'elt'): 'named_expression',
    ('DictComp', 'key'): 'expression', ('DictComp', 'value'): 'expression',
    ('Dict', 'keys'): 'expression', ('Dict', 'values', 'key'): 'expression', ('Dict', 'values', 'dict_key_None'): 'BOR',
    ('List', 'elts'): 'named_expression', ('Set', 'elts'): 'named_expression', ('Tuple', 'elts'): 'named_expression',
    ('Call', 'args'): 'named_expression', ('ClassDef', 'bases'): 'named_expression',
    ('Slice', 'lower'): 'expression', ('Slice', 'upper'): 'expression', ('Slice', 'step'): 'expression',
    ('Subscript', 'slice'): 'named_expression|tuple',
    ('Starred', 'value', 'arglike'): 'expression', ('Starred', 'value', 'plain'): 'BOR',
    ('Not', 'operand'): 'NOT', ('Invert', 'operand'): 'FACTOR', ('UAdd', 'operand'): 'FACTOR', ('USub', 'operand'): 'FACTOR',
    ('Pow', 'left'): 'AWAIT', ('Pow', 'right'): 'FACTOR',
    ('And', 'values'): 'NOT', ('Or', 'values'): 'AND',
    ('arguments', 'defaults'): 'expression', ('arguments', 'kw_defaults'): 'expression', ('arg', 'annotation'): 'expression',
    ('FunctionDef', 'returns'): 'expression', ('AsyncFunctionDef', 'returns'): 'expression',
    ('FunctionDef', 'decorator_list'): 'named_expression', ('AsyncFunctionDef', 'decorator_list'): 'named_expression',
    ('ClassDef', 'decorator_list'): 'named_expression', ('_decorator_list', 'decorator_list'): 'named_expression',
    ('match_case', 'guard'): 'named_expression', ('ExceptHandler', 'type'): 'expression',
    ('TypeAlias', 'value'): 'expression', ('TypeVar', 'bound'): 'expression', ('TypeVar', 'default_value'): 'expression',
    ('ParamSpec', 'default_value'): 'expression', ('TypeVarTuple', 'default_value'): 'expression',
    ('Expression', 'body'): 'star_expressions', ('_arglikes', 'arglikes'): 'named_expression',
}
for _op, _lvl in [('Add', 'ARITH'), ('Sub', 'ARITH'), ('Mult', 'TERM'), ('MatMult', 'TERM'), ('Div', 'TERM'), ('Mod', 'TERM'),
                  ('FloorDiv', 'TERM'), ('LShift', 'SHIFT'), ('RShift', 'SHIFT'), ('BitOr', 'BOR'), ('BitXor', 'BXOR'),
                  ('BitAnd', 'BAND')]:
    SLOTS[(_op, 'left')] = _lvl                               # left associative: same level on the left
    SLOTS[(_op, 'right')] = CHAIN[CHAIN.index(_lvl) + 1]      # next tighter level on the right

# expression-typed fields that are not expression *positions* with a free choice of child kind (targets, restricted
# literals, operator tokens) -- listed so that the completeness check of SLOTS is exact; each with its reason
NON_SLOTS = {
    ('Delete', 'targets'): 'del_targets: names / attributes / subscripts / parenthesized lists only',
    ('Assign', 'targets'): 'star_targets (store context)', ('_Assign_targets', 'targets'): 'star_targets',
    ('AugAssign', 'target'): 'single_target', ('AnnAssign', 'target'): 'single_target',
    ('For', 'target'): 'star_targets', ('AsyncFor', 'target'): 'star_targets', ('comprehension', 'target'): 'star_targets',
    ('withitem', 'optional_vars'): 'star_target', ('NamedExpr', 'target'): 'NAME', ('TypeAlias', 'name'): 'NAME',
    ('JoinedStr', 'values'): 'f-string parts', ('TemplateStr', 'values'): 't-string parts',
    ('FormattedValue', 'format_spec'): 'f-string format spec', ('Interpolation', 'format_spec'): 't-string format spec',
    ('MatchValue', 'value'): 'literal / dotted name only', ('MatchMapping', 'keys'): 'literal / dotted name only',
    ('MatchClass', 'cls'): 'dotted name only', ('FunctionType', 'argtypes'): 'not editable', ('FunctionType', 'returns'): 'not editable',
    ('BoolOp', 'values'): 'checked through the op classes And / Or', ('BinOp', 'left'): 'checked through the operator class',
    ('BinOp', 'right'): 'checked through the operator class', ('UnaryOp', 'operand'): 'checked through the operator class',
    ('Dict', 'values'): 'checked through the two key / ** variants', ('Starred', 'value'): 'checked through the arglike / plain variants',
    ('ClassDef', 'keywords'): 'keyword nodes', ('Call', 'keywords'): 'keyword nodes',
}

# pattern slots: child kinds MatchAs (with pattern: `p as n`), MatchOr, MatchSequence (open, unbracketed), others closed
PAT_KINDS = {'MatchAs_as': {'needs_parens_in': {'as', 'or'}}, 'MatchOr': {'needs_parens_in': {'or'}},
             'MatchSequence': {'needs_parens_in': {'as', 'or', 'elem'}}, 'MatchValue': {'needs_parens_in': set()},
             'MatchAs_capture': {'needs_parens_in': set()}}
PAT_SLOTS = {('MatchAs', 'pattern'): 'as', ('MatchOr', 'patterns'): 'or', ('MatchSequence', 'patterns'): 'elem',
             ('MatchClass', 'patterns'): 'elem', ('MatchClass', 'kwd_patterns'): 'elem', ('MatchMapping', 'patterns'): 'elem',
             ('match_case', 'pattern'): 'top', ('_pattern_attrlikes', 'patterns'): 'elem', ('_pattern_attrlikes', 'kwd_patterns'): 'elem'}


def precedence_tables(ctx):
    P = ctx.ev.get('astutil', '_Precedence')
    if not isinstance(P, ClassTok) or not getattr(P, 'enum_members', None) or len(P.enum_members) < 15:
        raise AnalysisError('astutil._Precedence did not evaluate to an IntEnum with >= 15 members')
    N = ctx.ev.get('astutil', '_PRECEDENCE_NODES')
    FT = ctx.ev.get('astutil', '_PRECEDENCE_NODE_FIELDS')
    if len(N) < 25 or len(FT) < 55:
        raise AnalysisError('precedence tables lost rows')
    return P.enum_members, {k.name: v for k, v in N.items()}, {(k[0].name, k[1]): v for k, v in FT.items()}


def special_arms(ctx, enum):
    """Read the special parents of precedence_require_parens_by_type (those whose table precedence is false):
    {parent class name: {'variants': {flag or '': prec}, 'child_override': {child: prec}, 'always': {child,...}}}
    Two encodings are read: an if / elif chain `<parent> is C:` whose arms assign the parent precedence, and a dispatch table
    {C: resolver} whose resolvers return it (or True for "always parenthesize")."""
    fis = ctx.repo.funcs('astutil', 'precedence_require_parens_by_type')
    fn = fis[0].node
    env = dict(ctx.ev.env('astutil'))
    out = {}
    ps = [a.arg for a in fn.args.posonlyargs + fn.args.args]
    if len(ps) < 3:
        raise AnalysisError('precedence_require_parens_by_type: (child, parent, field) parameters not found')
    p_child, p_parent = ps[0], ps[1]
    p_flags = fn.args.kwarg.arg if fn.args.kwarg else (ps[3] if len(ps) > 3 else 'flags')

    def prec(e):
        v = ctx.ev.eval(e, dict(env), 'astutil')
        return v if isinstance(v, EnumVal) else None

    def flag_of(test, flags_name):
        if isinstance(test, ast.Call) and isinstance(test.func, ast.Attribute) and test.func.attr == 'get' and norm(test.func.value) == flags_name and \
                test.args and isinstance(test.args[0], ast.Constant):
            return test.args[0].value
        return None

    # the two looked-up precedences and the final comparison
    cp = pp = None
    for n in walk_no_nested(fn):
        if isinstance(n, ast.Assign) and len(n.targets) == 1 and isinstance(n.targets[0], ast.Name) and isinstance(n.value, ast.Call) and \
                isinstance(n.value.func, ast.Attribute) and n.value.func.attr == 'get':
            tab = norm(n.value.func.value)
            if tab == '_PRECEDENCE_NODES':
                cp = n.targets[0].id
            elif tab == '_PRECEDENCE_NODE_FIELDS':
                pp = n.targets[0].id
    if cp is None or pp is None:
        raise AnalysisError('precedence_require_parens_by_type: table lookups of child / parent precedence not found')
    last = fn.body[-1]
    if not (isinstance(last, ast.Return) and isinstance(last.value, ast.Compare) and len(last.value.ops) == 1 and isinstance(last.value.ops[0], ast.Lt) and
            norm(last.value.left) == cp and norm(last.value.comparators[0]) == pp):
        raise AnalysisError('precedence_require_parens_by_type no longer ends in `return <child precedence> < <parent precedence>`')
    block = None
    for n in walk_no_nested(fn):
        if isinstance(n, ast.If) and isinstance(n.test, ast.UnaryOp) and isinstance(n.test.op, ast.Not) and norm(n.test.operand) == pp:
            block = n
    if block is None:
        raise AnalysisError('precedence_require_parens_by_type: the block for parents without a table precedence was not found')

    def read_arm(stmts, child_name, flags_name, result_name):
        """result_name None: the arm is a resolver function body that *returns* the precedence."""
        info = {'variants': {}, 'child_override': {}, 'always': set()}

        def take(v):
            if isinstance(v, ast.IfExp):
                fl = flag_of(v.test, flags_name)
                if fl:
                    info['variants'][fl] = prec(v.body)
                    info['variants'][''] = prec(v.orelse)
                elif isinstance(v.test, ast.Compare) and norm(v.test.left) == child_name and isinstance(v.test.ops[0], ast.Is):
                    info['child_override'][norm(v.test.comparators[0])] = prec(v.body)
                    info['variants'][''] = prec(v.orelse)
                else:
                    raise AnalysisError(f'unexpected precedence expression {norm(v)}')
            else:
                info['variants'][''] = prec(v)
        for st in stmts:
            if isinstance(st, ast.Expr) and isinstance(st.value, ast.Constant):
                continue
            if result_name is not None and isinstance(st, ast.Assign) and norm(st.targets[0]) == result_name:
                take(st.value)
            elif result_name is None and isinstance(st, ast.Return) and st.value is not None and \
                    not (isinstance(st.value, ast.Constant) and st.value.value is True):
                take(st.value)
            elif isinstance(st, ast.If):
                # `if <child> is X: return True` (always) ; `if flags.get('attr_val_int'): return True` (decided by the caller's flag)
                if isinstance(st.test, ast.Compare) and norm(st.test.left) == child_name and isinstance(st.test.ops[0], ast.Is) and \
                        isinstance(st.body[0], ast.Return) and norm(st.body[0].value) == 'True':
                    info['always'].add(norm(st.test.comparators[0]))
        return info

    def finish(pname, info):
        if any(v is None for v in info['variants'].values()) or not info['variants']:
            raise AnalysisError(f'could not read precedence of special arm {pname}')
        out[pname] = info

    # encoding (b): dispatch table of resolver functions
    table = None
    for n in ast.walk(block):
        if isinstance(n, ast.Call) and isinstance(n.func, ast.Attribute) and n.func.attr == 'get' and n.args and norm(n.args[0]) == p_parent and \
                isinstance(n.func.value, ast.Name):
            table = n.func.value.id
        elif isinstance(n, ast.Subscript) and norm(n.slice) == p_parent and isinstance(n.value, ast.Name):
            table = n.value.id
    if table is not None:
        tab = ctx.ev.get('astutil', table)
        if not isinstance(tab, dict) or not tab:
            raise AnalysisError(f'astutil.{table} did not evaluate to a dispatch table')
        # the result of the resolver call becomes the parent precedence, `True` means "always"
        for k, v in tab.items():
            g = ctx.repo.find_funcs(v.module, v.qualname) if isinstance(v, FuncTok) else []
            if not isinstance(k, ClassTok) or not g:
                raise AnalysisError(f'astutil.{table}: row {k!r} is not (class -> function)')
            gps = [a.arg for a in g[0].node.args.posonlyargs + g[0].node.args.args]
            if len(gps) < 2:
                raise AnalysisError(f'{g[0].qualname}: resolver parameters (child, flags) not found')
            finish(k.name, read_arm(g[0].node.body, gps[0], gps[1], None))
        return out, last
    # encoding (a): if / elif chain on the parent class
    arm = block.body[0]
    while isinstance(arm, ast.If):
        t = arm.test
        if not (isinstance(t, ast.Compare) and norm(t.left) == p_parent and isinstance(t.ops[0], ast.Is)):
            raise AnalysisError(f'unexpected arm test {norm(t)}')
        finish(norm(t.comparators[0]), read_arm(arm.body, p_child, p_flags, pp))
        arm = arm.orelse[0] if arm.orelse and isinstance(arm.orelse[0], ast.If) else None
    return out, last


def run(ctx):
    enum, nodes, ftab = precedence_tables(ctx)
    F = T.fields(ctx)
    ATOM, TEST = enum['ATOM'], enum['TEST']
    ctx.not_decided += ['line-structure clauses: _is_enclosed_or_line / _is_atom / _is_enclosed_in_parents depend on layout',
                        'that the spliced text re-parses to the intended parent (value level)']
    ctx.assumptions = ['oracle table SLOTS/KIND_LEVEL frozen from Grammar/python.gram of CPython 3.12']
    arms, final_ret = special_arms(ctx, enum)

    # ---- R9.1 -------------------------------------------------------------------------------------------------------
    ctx.rule('R9.1', 'for every (slot, child kind): grammar needs parentheses => pfst verdict child_prec < slot_prec', 2000)
    # completeness of the oracle vs FIELDS: every expr-typed field is a SLOT or a reasoned NON_SLOT
    for c, fs in F.items():
        for f, t in fs:
            if t.rstrip('?*') == 'expr':
                known = (c.name, f) in SLOTS or (c.name, f) in NON_SLOTS or any(k[:2] == (c.name, f) for k in SLOTS)
                if not known:
                    raise AnalysisError(f'expression field {c.name}.{f} is neither in the grammar oracle SLOTS nor in NON_SLOTS')

    def child_prec(kind):
        v = nodes.get(kind, ATOM)
        return v

    decided = undecided = 0
    for slot, nt in SLOTS.items():
        pname, field = slot[0], slot[1]
        variant = slot[2] if len(slot) > 2 else None
        acc = accepts(nt)
        sp = ftab.get((pname, field), TEST)
        arm = None
        if sp is False or not isinstance(sp, EnumVal):
            arm = arms.get(pname)
            if arm is None:
                ctx.bad('R9.1', 'astutil', 'precedence_require_parens_by_type', f'({pname}, {field!r})',
                        'slot marked special (False) in _PRECEDENCE_NODE_FIELDS but no arm handles the parent type')
                continue
        for kind, lvl in KIND_LEVEL.items():
            need = lvl not in acc
            cp = child_prec(kind)
            if not isinstance(cp, EnumVal):
                undecided += 1
                continue
            if arm is not None:
                if kind in arm['always']:
                    verdict = True
                else:
                    if variant in ('dict_key_None', 'arglike'):
                        pp = arm['variants'].get(variant, arm['variants'].get(''))
                    else:
                        pp = arm['child_override'].get(kind, arm['variants'].get(''))
                    verdict = cp < pp
                    sp_txt = pp
            else:
                verdict = cp < sp
            decided += 1
            key = f'slot ({pname}, {field}{", " + variant if variant else ""}) <- {kind}'
            ctx.check('R9.1', (not need) or verdict, 'astutil',
                      '_PRECEDENCE_NODE_FIELDS' if arm is None else 'precedence_require_parens_by_type', key,
                      f'grammar slot `{nt}` cannot hold an unparenthesized {kind} (level {lvl}), but the tables give '
                      f'child {cp!r} vs slot {(sp if arm is None else sp_txt)!r} => no parentheses: the edit would regroup',
                      sample={'slot': list(slot), 'nonterminal': nt, 'child': kind, 'needs': need, 'pfst_parenthesizes': bool(verdict)})
    # patterns
    for slot, where in PAT_SLOTS.items():
        sp = ftab.get(slot, TEST)
        for kind, info in PAT_KINDS.items():
            base = kind.split('_')[0]
            cp = nodes.get(base, ATOM)
            if cp is True:   # MatchAs special: TEST with pattern, ATOM without (read from the function)
                cp = ATOM if kind == 'MatchAs_capture' else TEST
            need = where in info['needs_parens_in']
            verdict = cp < sp
            decided += 1
            ctx.check('R9.1', (not need) or verdict, 'astutil', '_PRECEDENCE_NODE_FIELDS', f'pattern slot {slot} <- {kind}',
                      f'pattern slot {slot} ({where}) cannot hold an unparenthesized {kind} but tables give {cp!r} vs {sp!r}')
    ctx.extra['decisions'] = decided
    ctx.extra['undecided_child_kinds'] = undecided
    # MatchAs special-case arm must still exist
    fn = ctx.repo.funcs('astutil', 'precedence_require_parens_by_type')[0].node
    arm = any(isinstance(x, ast.IfExp) and any(isinstance(y, ast.Constant) and y.value == 'matchas_pat_None' for y in ast.walk(x.test)) and
              isinstance(x.body, ast.Attribute) and x.body.attr == 'ATOM' and isinstance(x.orelse, ast.Attribute) and x.orelse.attr == 'TEST'
              for x in ast.walk(fn))
    ctx.check('R9.1', arm, 'astutil',
              'precedence_require_parens_by_type', 'MatchAs precedence arm',
              'MatchAs (child precedence True) must resolve to ATOM for a bare capture and TEST for `p as n`')

    # ---- R9.1b the wrapper passes op classes and the right flags ---------------------------------------------------------
    ctx.rule('R9.1b', 'precedence_require_parens maps BoolOp/BinOp/UnaryOp to their op class on both sides and derives the '
                      'dict_key_None / matchas_pat_None / attr_val_int flags', 4)
    w = ctx.repo.funcs('astutil', 'precedence_require_parens')[0]
    wps = [a.arg for a in w.node.args.posonlyargs + w.node.args.args]
    if len(wps) < 2:
        raise AnalysisError('precedence_require_parens: child / parent parameters not found')
    p_child, p_parent = wps[0], wps[1]

    def op_class_selected(pname):
        """`<p>.op.__class__` is chosen exactly when `<p>.__class__` is one of BoolOp / BinOp / UnaryOp (conditional expression or if)."""
        for x in ast.walk(w.node):
            test = body = None
            if isinstance(x, ast.IfExp):
                test, body = x.test, [x.body]
            elif isinstance(x, ast.If):
                test, body = x.test, x.body
            if test is None:
                continue
            picks_op = any(isinstance(y, ast.Attribute) and y.attr == '__class__' and isinstance(y.value, ast.Attribute) and y.value.attr == 'op' and
                           norm(y.value.value) == pname for b_ in body for y in ast.walk(b_))
            cls_alias = set()
            for z in ast.walk(w.node):
                if isinstance(z, ast.Assign) and isinstance(z.value, ast.Attribute) and z.value.attr == '__class__' and norm(z.value.value) == pname:
                    cls_alias |= {t.id for t in z.targets if isinstance(t, ast.Name)}
                elif isinstance(z, ast.NamedExpr) and isinstance(z.value, ast.Attribute) and z.value.attr == '__class__' and norm(z.value.value) == pname:
                    cls_alias.add(z.target.id)
            asks_cls = any((isinstance(y, ast.Attribute) and y.attr == '__class__' and norm(y.value) == pname) or
                           (isinstance(y, ast.Name) and y.id in cls_alias) for y in ast.walk(test))
            if picks_op and asks_cls and T.classes_mentioned(ctx, 'astutil', test) == {'BoolOp', 'BinOp', 'UnaryOp'}:
                return True
        return False

    def is_none_test(pred):
        return any(isinstance(x, ast.Compare) and len(x.ops) == 1 and isinstance(x.ops[0], (ast.Is, ast.IsNot)) and
                   isinstance(x.comparators[0], ast.Constant) and x.comparators[0].value is None and pred(x.left) for x in ast.walk(w.node))
    for ok, why in [(op_class_selected(p_child), 'child operator class'), (op_class_selected(p_parent), 'parent operator class'),
                    (is_none_test(lambda l: isinstance(l, ast.Subscript) and isinstance(l.value, ast.Attribute) and l.value.attr == 'keys' and
                                  norm(l.value.value) == p_parent), 'dict ** flag'),
                    (is_none_test(lambda l: isinstance(l, ast.Attribute) and l.attr == 'pattern' and norm(l.value) == p_child), 'MatchAs capture flag')]:
        ctx.check('R9.1b', ok, 'astutil', 'precedence_require_parens', why,
                  f'the wrapper no longer derives the {why}: operator precedence / special flags are lost', w.lineno)

    check_use(ctx, F)


# ----------------------------------------------------------------------------------------------------------------------
    check_continuation_tests(ctx)
    check_singleton_wrappers(ctx)
    check_star_paren_owner(ctx)


def check_use(ctx, F):
    res = Resolver(ctx.repo, ctx.ev)
    reach = Reach(res)
    P1 = ctx.ev.get('fst_put_one', '_PUT_ONE_HANDLERS')
    ctx.rule('R9.2', 'every single-element put handler of an expr / pattern typed slot reaches precedence_require_parens '
                     '(through _make_exprlike_fst / _par_if_needed) in the call graph', 60)
    allf = {(c, f): t for c, fs in F.items() for f, t in fs}
    ATOM_ONLY_HANDLERS = {'_put_one_NOT_IMPLEMENTED_YET_12', '_put_one_NOT_IMPLEMENTED_YET_14'}
    seen = set()
    for (c, f), row in P1.items():
        t = allf.get((c, f))
        if t is None or t.rstrip('?*') not in ('expr', 'pattern'):
            continue
        h = row[1] if isinstance(row, tuple) else None
        if not isinstance(h, FuncTok) or h.name in ATOM_ONLY_HANDLERS:
            continue
        if h.key in seen:
            ctx.ok('R9.2', f'({c.name}, {f}) -> {h.name}')
            continue
        fi = ctx.repo.mod(h.module).func(h.qualname)[0]
        hit = reach.reaches_name(fi, {'precedence_require_parens', 'precedence_require_parens_by_type'})
        if hit:
            seen.add(h.key)
        ctx.check('R9.2', bool(hit), h.module, h.qualname, f'({c.name}, {f}) -> {h.name}',
                  f'put handler for {t}-typed slot {c.name}.{f} never consults the precedence tables: replacement is spliced '
                  f'without a parenthesization decision', fi.lineno, sample={'slot': [c.name, f], 'handler': h.name})
    # slice code_to_slice / coerce helpers that place expression elements
    code = ctx.repo.mod('code')
    for q, fis in code.funcs.items():
        if q == '_par_if_needed':
            hit = reach.reaches_name(fis[0], {'precedence_require_parens'})
            ctx.check('R9.2', bool(hit), 'code', q, '_par_if_needed -> precedence_require_parens',
                      '_par_if_needed no longer consults precedence_require_parens', fis[0].lineno)

    # ---- R9.3 -------------------------------------------------------------------------------------------------------
    ctx.rule('R9.3', 'in _make_exprlike_fst: parentheses of the new code are removed only under `not <need-pars predicate>(adding=False)`; '
                     'the target\'s parentheses are scheduled for deletion only where the new code brings its own / will be delimited / '
                     '`not <predicate>(adding=True)`; grouping is added only under `<predicate>(adding=True)`', 4)
    fi = ctx.repo.funcs('fst_put_one', '_make_exprlike_fst')[0]
    fn = fi.node
    par = parent_map(fn)
    # the need-pars predicate: a closure of the function or a private module-level function that consults precedence_require_parens and
    # is called with a literal boolean mode ("adding")
    preds = {}
    for n in ast.walk(fn):
        if isinstance(n, ast.FunctionDef) and n is not fn and any(isinstance(x, ast.Call) and call_name(x) == 'precedence_require_parens' for x in ast.walk(n)):
            preds[n.name] = n
    for c in walk_no_nested(fn):
        if isinstance(c, ast.Call) and isinstance(c.func, ast.Name) and c.func.id not in preds:
            for g in ctx.repo.find_funcs(fi.module, c.func.id):
                if any(isinstance(x, ast.Call) and call_name(x) == 'precedence_require_parens' for x in ast.walk(g.node)):
                    preds[c.func.id] = g.node
    if not preds:
        raise AnalysisError('_make_exprlike_fst: need-pars predicate (consulting precedence_require_parens) not found')

    def pred_mode(e):
        """True / False when `e` is a call of the predicate with that literal mode, else None."""
        if isinstance(e, ast.Call) and isinstance(e.func, ast.Name) and e.func.id in preds:
            lits = [a for a in list(e.args) + [k.value for k in e.keywords] if isinstance(a, ast.Constant) and isinstance(a.value, bool)]
            if len(lits) == 1:
                return lits[0].value
        return None

    def under(node, mode, positive):
        """`node` is control dependent on `<pred>(mode)` being `positive`."""
        for t, pol in enclosing_tests(fn, node, par):
            neg = False
            while isinstance(t, ast.UnaryOp) and isinstance(t.op, ast.Not):
                t, neg = t.operand, not neg
            if pred_mode(t) is mode and (pol != neg) == positive:
                return True
        return False
    unpars = [n for n in walk_no_nested(fn) if isinstance(n, ast.Call) and call_name(n) == '_unparenthesize_grouping' and isinstance(n.func, ast.Attribute)]
    if not unpars:
        raise AnalysisError('_make_exprlike_fst: no _unparenthesize_grouping call found (anchor vanished)')
    put_names = {norm(n.func.value) for n in unpars}
    for n in unpars:
        ctx.check('R9.3', under(n, False, False), fi.module, fi.qualname, n,
                  'grouping parentheses of the code being put are removed without the `not <need-pars>(adding=False)` guard: needed '
                  'parentheses can be stripped', n.lineno, sample=[norm(t) for t, _ in enclosing_tests(fn, n, par)])
    # the flag that schedules the target's parentheses for deletion: `<target>.pars(...) if FLAG else <target>.loc`
    flags_del = {x.test.id for x in ast.walk(fn) if isinstance(x, ast.IfExp) and isinstance(x.test, ast.Name) and isinstance(x.body, ast.Call) and
                 call_name(x.body) == 'pars' and isinstance(x.orelse, ast.Attribute) and x.orelse.attr == 'loc'}
    for n in walk_no_nested(fn):
        if isinstance(n, ast.Assign) and isinstance(n.targets[0], ast.Name) and n.targets[0].id in flags_del and \
                isinstance(n.value, ast.Constant) and n.value.value is True:
            tests = enclosing_tests(fn, n, par)

            def brings_pars(t):
                return any(isinstance(x, ast.Call) and call_name(x) in ('pars', 'is_parenthesized_tuple') for x in ast.walk(t))
            ok = under(n, True, False) or any(pol and brings_pars(t) for t, pol in tests)
            ctx.check('R9.3', ok, fi.module, fi.qualname, f'{n.targets[0].id} = True under {[norm(t, 60) for t, _ in tests][:3]}',
                      'target parentheses are scheduled for deletion on a branch where nothing guarantees the new code keeps '
                      'its grouping', n.lineno)
        if isinstance(n, ast.Call) and call_name(n) in ('_parenthesize_grouping', '_delimit_node') and isinstance(n.func, ast.Attribute) and \
                norm(n.func.value) in put_names:
            ctx.check('R9.3', under(n, True, True), fi.module, fi.qualname, n, 'parenthesization of the new code is not driven by <need-pars>(adding=True)', n.lineno)
    # the predicate itself must consult the tables for non-atoms: precedence_require_parens(<put ast>, <target>.a, field, idx) under `not X._is_atom(...)`
    ok = False
    for pname, pnode in preds.items():
        for c in [n for n in ast.walk(pnode) if isinstance(n, ast.Call) and call_name(n) == 'precedence_require_parens']:
            if len(c.args) >= 4 and isinstance(c.args[1], ast.Attribute) and c.args[1].attr == 'a':          # (child, parent = the target node, field, idx)
                tests = enclosing_tests(pnode, c)
                ok = ok or any(pol and isinstance(t, ast.UnaryOp) and isinstance(t.op, ast.Not) and isinstance(t.operand, ast.Call) and
                               call_name(t.operand) == '_is_atom' for t, pol in tests)
    ctx.check('R9.3', ok, 'fst_put_one', '_make_exprlike_fst need-pars predicate', 'precedence_require_parens(put_ast, self.a, field, idx)',
              'the need-pars predicate must ask precedence_require_parens(<put ast>, <target>.a, field, idx) for every non-atom put',
              fi.lineno)


# ---- R9.4 ------------------------------------------------------------------------------------------------------------
# `line.endswith('\\')` is not a line-continuation test: a comment may end with a backslash.  The comment-aware tests of the
# repository are the regexes of common.py (`re_line_end_cont_or_comment`, ...), fst_core._re_line_end_cont and next_frag / prev_frag.
R94_REVIEWED = {
    ('slice_stmtlike', 'SrcEdit.get_slice_stmt'):
        'used as a cheap pre-filter only; the same condition then asks prev_frag(..., comment=True) and backs off on a comment (R4.3b keeps '
        'that guard alive)',
}


def tokenizer_aware(ctx, fi, endswith_call) -> bool:
    """The bare `line.endswith(backslash)` test is made comment-aware by what it guards: under it, the line is taken for continued only if
    its index is not in a set of *lines that hold a COMMENT token* (a helper of the package that asks the tokenizer; a `#` inside a string is
    not a comment, which a regular expression over the line cannot know)."""
    from ..struct import parent_map
    comment_funcs = getattr(ctx, '_comment_funcs', None)
    if comment_funcs is None:
        comment_funcs = ctx._comment_funcs = {g.name for g in ctx.repo.all_funcs() if not isinstance(g.node, ast.Lambda) and
                                              any(isinstance(y, ast.Name) and y.id == 'COMMENT' for y in ast.walk(g.node)) and
                                              any(isinstance(y, ast.Call) and call_name(y) in ('tokenize', 'tokenize_tokenize', 'generate_tokens')
                                                  for y in ast.walk(g.node))}
    if not comment_funcs:
        return False
    par = parent_map(fi.node)
    cur = endswith_call
    while cur in par and not isinstance(par[cur], ast.If):
        cur = par[cur]
    iff = par.get(cur)
    if not isinstance(iff, ast.If) or not any(y is endswith_call for y in ast.walk(iff.test)):
        return False
    sets = {t.id for a in ast.walk(fi.node) if isinstance(a, ast.Assign) and isinstance(a.value, (ast.Call, ast.IfExp)) and
            any(isinstance(y, ast.Call) and call_name(y) in comment_funcs for y in ast.walk(a.value)) for t in a.targets if isinstance(t, ast.Name)}
    return any(isinstance(y, ast.Compare) and len(y.ops) == 1 and isinstance(y.ops[0], (ast.In, ast.NotIn)) and
               isinstance(y.comparators[0], ast.Name) and y.comparators[0].id in sets for b in iff.body for y in ast.walk(b))


def check_continuation_tests(ctx):
    from ..model import walk_no_nested
    ctx.rule('R9.4', 'a physical source line is taken for continued only by a comment-aware test, never by a bare endswith(backslash)', 1)
    counts = {}
    for fi in ctx.repo.all_funcs():
        if isinstance(fi.node, ast.Lambda):
            continue
        for c in walk_no_nested(fi.node):
            if isinstance(c, ast.Call) and isinstance(c.func, ast.Attribute) and c.func.attr == 'endswith' and c.args and \
                    isinstance(c.args[0], ast.Constant) and c.args[0].value == '\\':
                recv = c.func.value
                # a line of source: subscript of a lines list (`lines[i]`, `self._lines[i]`) or a local bound to one
                def line_list(e):
                    # `X._lines`, a local bound to it, or a parameter declared as a list of strings (the scanners of common.py)
                    if isinstance(e, ast.Attribute) and e.attr in ('_lines', 'lines'):
                        return True
                    if isinstance(e, ast.Name):
                        if e.id in lines_locals:
                            return True
                        for a_ in fi.node.args.posonlyargs + fi.node.args.args + fi.node.args.kwonlyargs:
                            if a_.arg == e.id and (a_.annotation is not None and norm(a_.annotation).replace(' ', '') in ('list[str]', 'list[bistr]', 'list[str|bistr]')
                                                   or 'lines' in e.id):
                                return True
                    return False
                lines_locals = {n.targets[0].id for n in walk_no_nested(fi.node) if isinstance(n, ast.Assign) and len(n.targets) == 1 and
                                isinstance(n.targets[0], ast.Name) and isinstance(n.value, ast.Attribute) and n.value.attr in ('_lines', 'lines')} | \
                    {n.target.id for n in walk_no_nested(fi.node) if isinstance(n, ast.NamedExpr) and isinstance(n.value, ast.Attribute) and n.value.attr in ('_lines', 'lines')}
                is_line = isinstance(recv, ast.Subscript) and line_list(recv.value)
                if isinstance(recv, ast.Name):
                    for n in walk_no_nested(fi.node):
                        if isinstance(n, (ast.Assign, ast.NamedExpr)):
                            t = n.targets[0] if isinstance(n, ast.Assign) else n.target
                            if isinstance(t, ast.Name) and t.id == recv.id and isinstance(n.value, ast.Subscript) and line_list(n.value.value):
                                is_line = True
                if not is_line:
                    continue
                k = (fi.module, fi.qualname.split('[')[0])
                counts[k] = counts.get(k, 0) + 1
                rv = R94_REVIEWED.get(k)
                ok = bool(rv) and counts[k] <= 1     # one reviewed site per function: a second one is new
                if not ok and tokenizer_aware(ctx, fi, c):
                    counts[k] -= 1
                    ctx.ok('R9.4', f'{fi.module}|{fi.qualname}|{norm(c, 60)} (lines with a comment excluded through the tokenizer)')
                    continue
                ctx.check('R9.4', ok, fi.module, fi.qualname, f'{norm(c, 60)} #{counts[k]}',
                          'a source line ending in a backslash is taken for a line continuation, but a comment may end in a backslash too: the '
                          'node is then believed to be one logical line and is left without the parentheses it needs (unparsable result)',
                          c.lineno, sample={'function': fi.key, 'test': norm(c, 60), 'reviewed': rv})


# ---- R9.5 ------------------------------------------------------------------------------------------------------------
# one=True / coerced single element put as a slice: the element is wrapped into a singleton container of the slice kind by the
# `_code_to_slice_*` functions, which decide about parentheses with *hand-written* kind lists instead of the precedence table.

def check_singleton_wrappers(ctx):
    from ..model import walk_no_nested
    from ..struct import parent_map
    ctx.rule('R9.5', 'hand-written "needs parentheses" kind lists of the singleton slice wrappers cover every child kind the grammar cannot '
                     'derive unparenthesized in that slot', 3)
    WRAP_SLOT = {'BoolOp': [('Or', 'values'), ('And', 'values')], 'Compare': [('Compare', 'comparators')],
                 'Tuple': [('Tuple', 'elts')], 'List': [('List', 'elts')], 'Set': [('Set', 'elts')]}
    KIND_CLASS = {'Or': 'BoolOp', 'And': 'BoolOp', 'Not': 'Not'}
    n = 0
    for fi in ctx.repo.all_funcs():
        if isinstance(fi.node, ast.Lambda) or fi.module not in ('fst_put_slice', 'code') or not fi.name.startswith('_code_to_slice'):
            continue
        fn = fi.node
        par = parent_map(fn)
        # wrapper constructions W(..., [ast_] / ast_, ...) whose result is returned as the slice
        wraps = [c for c in walk_no_nested(fn) if isinstance(c, ast.Call) and isinstance(c.func, ast.Name) and c.func.id in WRAP_SLOT and
                 any(isinstance(k.value, (ast.List, ast.Name)) and 'ast_' in norm(k.value) for k in c.keywords)]
        # hand-written decisions: `if <test naming AST classes>: if not fst_.pars().n: fst_._parenthesize_grouping()`
        decided = set()
        has_decision = False
        for c in walk_no_nested(fn):
            if isinstance(c, ast.Call) and call_name(c) == '_parenthesize_grouping':
                cur = c
                while cur in par and par[cur] is not fn:
                    cur = par[cur]
                    if isinstance(cur, ast.If):
                        names = {x.id for x in ast.walk(cur.test) if isinstance(x, ast.Name)}
                        if names & {'NamedExpr', 'Yield', 'YieldFrom', 'IfExp', 'Lambda', 'BoolOp', 'Compare', 'UnaryOp', 'Not'} or 'is_slice_type' in names:
                            has_decision = True
                            decided |= names
        delegates = any(isinstance(c, ast.Call) and call_name(c) in ('_par_if_needed', 'precedence_require_parens') for c in walk_no_nested(fn))
        for w in wraps:
            if delegates or not has_decision:
                continue
            wcls = w.func.id
            mentioned = set(decided)
            if 'is_slice_type' in mentioned:
                mentioned.add(wcls)           # `is_slice_type` stands for "the element is itself of the wrapper's class"
            tuple_handled = any(isinstance(c, ast.Call) and call_name(c) == 'is_parenthesized_tuple' for c in walk_no_nested(fn))
            for slot in WRAP_SLOT[wcls]:
                ok_levels = accepts(SLOTS[slot])
                need = set()
                for kind, lvl in KIND_LEVEL.items():
                    if lvl in ok_levels:
                        continue
                    if kind == 'Tuple':
                        if not tuple_handled:
                            need.add('Tuple')
                        continue
                    need.add(KIND_CLASS.get(kind, kind))
                missing = sorted(k for k in need if k not in mentioned)
                n += 1
                ctx.check('R9.5', not missing, fi.module, fi.qualname, f'{wcls} wrapper for slot {slot[0]}.{slot[1]}',
                          f'a single {", ".join(missing)} put as one element (one=True / coerce) into a {slot[0]} is wrapped without parentheses: the '
                          f'grammar cannot derive it unparenthesized there, so the operand is regrouped (e.g. `lambda: x or b`) or the source does not parse',
                          w.lineno, sample={'function': fi.key, 'decided_for': sorted(mentioned & set(KIND_LEVEL) | mentioned & {'BoolOp', 'UnaryOp'})})
    if n < 3:
        raise AnalysisError(f'only {n} singleton slice wrappers with hand-written parenthesization found')


# ---- R9.6 ------------------------------------------------------------------------------------------------------------

def check_star_paren_owner(ctx):
    """A `Starred` cannot carry grouping parentheses: `_unparenthesize_grouping` on a Starred strips those of its `value` (parameter
    `star_child`, default true).  A function that may strip a node N which it knows can be a Starred (it computes a flag
    `<N's ast>.__class__ is Starred`) and decides the strip by asking N `_is_enclosed_or_line(check_pars=<not literally True>)` ("would
    you survive without your own parentheses?") asks the wrong node in the Starred case: N has no own parentheses and the value's count
    as an enclosure whatever `check_pars` says.  The same question has to be put to the value child under the flag — unless
    `_is_enclosed_or_line` itself treats Starred."""
    from ..struct import parent_map, enclosing_tests
    ctx.rule('R9.6', 'where the parentheses of a possibly-Starred node are stripped on the strength of `_is_enclosed_or_line(check_pars=...)`, '
                     'the Starred case asks its value child (the owner of the parentheses) without them', 1)
    ieol = ctx.repo.funcs('fst_core', '_is_enclosed_or_line')
    if not ieol:
        raise AnalysisError('_is_enclosed_or_line not found')
    if any(isinstance(x, ast.Name) and x.id == 'Starred' for x in ast.walk(ieol[0].node)):
        ctx.check('R9.6', True, 'fst_core', '_is_enclosed_or_line', 'Starred handled inside _is_enclosed_or_line', '', ieol[0].lineno)
        return
    n_inst = 0
    for fi in ctx.repo.all_funcs():
        fn = fi.node
        if isinstance(fn, ast.Lambda) or '<locals>' in fi.qualname:
            continue
        flags = {}                    # flag name -> name of the ast variable tested
        for x in ast.walk(fn):
            if isinstance(x, ast.Assign) and len(x.targets) == 1 and isinstance(x.targets[0], ast.Name) and isinstance(x.value, ast.Compare) and \
                    len(x.value.ops) == 1 and isinstance(x.value.ops[0], ast.Is) and norm(x.value.comparators[0]) == 'Starred' and \
                    isinstance(x.value.left, ast.Attribute) and x.value.left.attr == '__class__' and isinstance(x.value.left.value, ast.Name):
                flags[x.targets[0].id] = x.value.left.value.id
        if not flags:
            continue
        # node variables whose `.a` is the tested ast variable:  put_ast = put_fst.a
        owners = {}
        for x in ast.walk(fn):
            if isinstance(x, ast.Assign) and len(x.targets) == 1 and isinstance(x.targets[0], ast.Name) and x.targets[0].id in flags.values() and \
                    isinstance(x.value, ast.Attribute) and x.value.attr == 'a' and isinstance(x.value.value, ast.Name):
                owners[x.value.value.id] = x.targets[0].id
        par = parent_map(fn)
        for node_var, ast_var in owners.items():
            flag = [f for f, a in flags.items() if a == ast_var][0]
            strips = [x for x in ast.walk(fn) if isinstance(x, ast.Call) and call_name(x) == '_unparenthesize_grouping' and
                      isinstance(x.func, ast.Attribute) and norm(x.func.value) == node_var and
                      not any(k.arg == 'star_child' and isinstance(k.value, ast.Constant) and k.value.value is False for k in x.keywords)]
            if not strips:
                continue
            n_inst += 1
            ctx.check('R9.6', True, fi.module, fi.qualname, f'{node_var} (possibly Starred) is stripped at {len(strips)} site(s)', '', strips[0].lineno)

            def queries(recv_ok):
                out = []
                for x in ast.walk(fn):
                    if isinstance(x, ast.Call) and call_name(x) == '_is_enclosed_or_line' and isinstance(x.func, ast.Attribute) and recv_ok(x.func.value):
                        cp = [k.value for k in x.keywords if k.arg == 'check_pars']
                        if cp and not (isinstance(cp[0], ast.Constant) and cp[0].value is True):
                            out.append((x, cp[0]))
                return out
            child_aliases = {f'{ast_var}.value.f'}
            for x in ast.walk(fn):
                if isinstance(x, ast.Assign) and len(x.targets) == 1 and isinstance(x.targets[0], ast.Name) and norm(x.value) == f'{ast_var}.value':
                    child_aliases.add(x.targets[0].id + '.f')
                if isinstance(x, ast.Assign) and len(x.targets) == 1 and isinstance(x.targets[0], ast.Name) and norm(x.value) == f'{ast_var}.value.f':
                    child_aliases.add(x.targets[0].id)
            on_node = queries(lambda r: norm(r) == node_var)
            on_child = []
            for c, cp in queries(lambda r: norm(r) in child_aliases):
                tests = enclosing_tests(fn, c, par)
                if any(pol and any(isinstance(y, ast.Name) and y.id == flag for y in ast.walk(t)) and
                       not (isinstance(t, ast.UnaryOp) and isinstance(t.op, ast.Not)) for t, pol in tests):
                    on_child.append(c)
            for c, cp in on_node:
                ctx.check('R9.6', bool(on_child), fi.module, fi.qualname, f'{norm(c, 70)} decides a strip of a possibly-Starred node',
                          f'`{node_var}` may be a Starred (`{flag}`) and `{node_var}._unparenthesize_grouping()` then strips the parentheses of its '
                          f'value, but only `{node_var}` is asked whether it stays one logical line without its parentheses: for a Starred the '
                          f'value\'s parentheses count as an enclosure whatever check_pars says, so `*(a⏎+ b)` is stripped to `*a⏎+ b`', c.lineno,
                          sample={'function': fi.key, 'flag': flag, 'node': node_var, 'child_queries': len(on_child)})
    if n_inst < 1:
        raise AnalysisError('no possibly-Starred strip decision found (anchor vanished)')
