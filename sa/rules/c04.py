"""C04 — formatting and comments outside the edited element are preserved: the structural necessary conditions only.

R4.1 never re-render the target.  Every call of the unparse family (parsex.unparse, parsex._fixing_unparse, ast.unparse) takes an
     argument that is NOT derived from the tree being edited (`self` of an FST-namespace function); the one sanctioned exception is
     the public `FST.ast_src`, whose value is never used inside the package.  (The many calls in code.py render the *new* element
     when it has to be coerced to another node type — inside the extent the property allows to change — and keep the rule from
     passing vacuously.)
R4.2 indentation is confined to indentable lines.  (a) _indent_lns / _dedent_lns / _redent_lns rewrite `lines[...]` only at indices
     drawn from `lns`, and `lns` is, when not supplied, the result of _get_indentable_lns(); (b) no caller supplies a line set that
     is not derived from _get_indentable_lns(); (c) _get_indentable_lns() only ever narrows its result and has a subtracting arm for
     every literal kind whose token text can contain a raw newline (Constant, JoinedStr, TemplateStr); (d) in the continuation-line
     scanner the recorded start of an open f / t-string cannot be overwritten before the range for it has been emitted (nested
     literals).
R4.3 comment / code classification at fragment scans (contradiction rule).  A result of next_frag / prev_frag that cannot be a comment
     (`comment` false / default on every scan reaching the test) is not tested for '#': such a test is dead, so either the flag or the
     test is wrong — and a scan that silently runs past a comment makes the edit region swallow it.  Same for line continuations
     (`lcont` vs. a backslash test).  Reaching definitions decide which scans feed which test.  (The converse — "a result that may be
     a comment must be classified" — was built and dropped: several sites ask for comments precisely to use them as a boundary.)
Not decided: which bytes an edit changes (trivia selection, separator and blank-line handling) — value level.
"""
from __future__ import annotations

import ast

from ..model import AnalysisError, norm, walk_no_nested, call_name
from ..callgraph import Resolver
from ..effects import Effects
from ..cfg import CFG, subnodes
from ..struct import parent_map
from .. import tables as T

PROP = 'C04'

UNPARSERS = {'unparse', '_fixing_unparse', 'ast_unparse'}
REWRITERS = ('_indent_lns', '_dedent_lns', '_redent_lns')


def check_unparse(ctx, ef):
    ctx.rule('R4.1', 'no unparse-family call renders (part of) the tree being edited', 40)
    ns = ctx.repo.fst_namespace()
    fstfuncs = {id(fi.node) for l in ns.values() for fi in l}
    n_attr = 0
    for fi in ctx.repo.all_funcs():
        if isinstance(fi.node, ast.Lambda):
            continue
        for c in walk_no_nested(fi.node):
            if isinstance(c, ast.Attribute) and c.attr == 'ast_src' and isinstance(c.ctx, ast.Load):
                n_attr += 1
                ctx.bad('R4.1', fi.module, fi.qualname, norm(c), 'the re-rendered (formatting-free) source of a live node is used inside the '
                        'package: whatever is built from it loses the original formatting and comments', c.lineno)
            if not (isinstance(c, ast.Call) and call_name(c) in UNPARSERS and c.args):
                continue
            if fi.module == 'parsex' and fi.name in ('unparse', '_fixing_unparse'):
                continue    # the family itself
            arg = c.args[0]
            roots = ef.expr_roots(fi, arg)
            params = fi.params()
            is_method = id(fi.node) in fstfuncs or (params[:1] == ['self'] and fi.cls in (None, 'FST'))
            on_target = is_method and 'self' in roots
            sanctioned = fi.qualname == 'FST.ast_src'
            ctx.check('R4.1', (not on_target) or sanctioned, fi.module, fi.qualname, norm(c, 70),
                      'source text is produced by un-parsing nodes of the tree being edited instead of splicing the existing text: '
                      'formatting and comments of that part are discarded', c.lineno,
                      sample={'function': fi.key, 'call': norm(c, 60), 'argument_roots': sorted(roots), 'sanctioned': sanctioned})
    if not ctx.repo.funcs('fst', 'FST.ast_src'):
        raise AnalysisError('FST.ast_src vanished')


def _lines_aliases(fn) -> set[str]:
    out = set()
    for n in walk_no_nested(fn):
        if isinstance(n, ast.Assign) and len(n.targets) == 1 and isinstance(n.targets[0], ast.Name):
            v = n.value
            if isinstance(v, ast.Attribute) and v.attr == '_lines':
                out.add(n.targets[0].id)
    return out


def check_indent(ctx, res):
    ctx.rule('R4.2a', 'the indent rewriters store into lines only at indices drawn from `lns`, which defaults to _get_indentable_lns()', 6)
    ctx.rule('R4.2b', 'no caller hands the indent rewriters a line set that does not come from _get_indentable_lns()', 8)
    ctx.rule('R4.2c', '_get_indentable_lns only narrows its result and subtracts the continuation lines of every multi-line literal kind', 4)
    ctx.rule('R4.2d', 'the start of an open f / t-string is not overwritten before its line range has been emitted', 1)
    core = ctx.repo.mod('fst_core')
    # ---- (a)
    for q in REWRITERS:
        for fi in ctx.repo.funcs('fst_core', q):
            fn = fi.node
            if 'lns' not in fi.params():
                raise AnalysisError(f'{q}: parameter `lns` vanished')
            lines_names = _lines_aliases(fn)
            par = parent_map(fn)
            # default
            cfg = CFG(fn)
            defaults = [nd for nd in cfg.nodes if nd.kind == 'stmt' and isinstance(nd.ast, ast.Assign) and norm(nd.ast.targets[0]) == 'lns']
            okd = bool(defaults) and all(isinstance(nd.ast.value, ast.Call) and call_name(nd.ast.value) == '_get_indentable_lns' for nd in defaults)
            ctx.check('R4.2a', okd, fi.module, fi.qualname, 'lns default', '`lns` is (re)bound to something other than _get_indentable_lns(): lines '
                      'inside multi-line strings would be re-indented, changing string values', fi.lineno, sample={'function': fi.key, 'rebinds': len(defaults)})
            n_st = 0
            for n in ast.walk(fn):      # nested helper closures (dedented / redented / indented) included
                tg = []
                if isinstance(n, ast.Assign):
                    tg = n.targets
                elif isinstance(n, ast.AugAssign):
                    tg = [n.target]
                for t in tg:
                    if isinstance(t, ast.Subscript) and isinstance(t.value, ast.Name) and t.value.id in lines_names | {'lines'}:
                        n_st += 1
                        idx = t.slice
                        ok = False
                        if isinstance(idx, ast.Name):
                            # index variable bound by `for <idx> in lns` (possibly in the enclosing function: closures take ln as a parameter)
                            cur = n
                            while cur in par:
                                cur = par[cur]
                                if isinstance(cur, ast.For) and isinstance(cur.target, ast.Name) and cur.target.id == idx.id and norm(cur.iter) == 'lns':
                                    ok = True
                                if isinstance(cur, (ast.FunctionDef, ast.Lambda)) and cur is not fn:
                                    # closure: every call of it in the rewriter passes the loop variable of `for ln in lns`
                                    pnames = [a.arg for a in cur.args.args]
                                    if idx.id in pnames:
                                        pos = pnames.index(idx.id)
                                        calls = [c for c in ast.walk(fn) if isinstance(c, ast.Call) and isinstance(c.func, ast.Name) and c.func.id == cur.name]
                                        ok = bool(calls) and all(len(c.args) > pos and _bound_by_lns_loop(c.args[pos], c, par) for c in calls)
                                    break
                        ctx.check('R4.2a', ok, fi.module, fi.qualname, norm(n, 60), 'a source line is re-indented at an index that is not drawn from the '
                                  'indentable-line set', n.lineno, sample={'function': fi.key, 'store': norm(n, 60)})
            if n_st < 1:
                raise AnalysisError(f'{q}: no line store found')
    # ---- (b)
    n_calls = 0
    for fi in ctx.repo.all_funcs():
        if isinstance(fi.node, ast.Lambda):
            continue
        for c in walk_no_nested(fi.node):
            if isinstance(c, ast.Call) and call_name(c) in REWRITERS and isinstance(c.func, ast.Attribute):
                n_calls += 1
                defs = ctx.repo.funcs('fst_core', call_name(c))
                pos = defs[0].params().index('lns') - 1          # bound call: self is the receiver
                lns = c.args[pos] if len(c.args) > pos else next((k.value for k in c.keywords if k.arg == 'lns'), None)
                ok = lns is None or (isinstance(lns, ast.Constant) and lns.value is None) or _from_indentable(fi.node, lns)
                ctx.check('R4.2b', ok, fi.module, fi.qualname, norm(c, 70), 'explicit line set that is not derived from _get_indentable_lns(): '
                          'multi-line string bodies are not excluded', c.lineno, sample={'function': fi.key, 'call': norm(c, 70)})
    # ---- (c)
    for fi in ctx.repo.funcs('fst_core', '_get_indentable_lns'):
        fn = fi.node
        widen = [n for n in walk_no_nested(fn) if isinstance(n, ast.Call) and isinstance(n.func, ast.Attribute) and norm(n.func.value) == 'lns'
                 and n.func.attr in ('add', 'update', 'union', '__ior__')]
        rebinds = [n for n in walk_no_nested(fn) if isinstance(n, (ast.Assign, ast.AugAssign)) and any(
            norm(t) == 'lns' for t in (n.targets if isinstance(n, ast.Assign) else [n.target]))]
        ctx.check('R4.2c', not widen and len(rebinds) == 1, fi.module, fi.qualname, 'lns only narrowed',
                  'the indentable set is widened / rebuilt after multi-line literal lines were removed from it', fi.lineno,
                  sample={'widen': [norm(w, 50) for w in widen], 'binds': len(rebinds)})
        subs = [n for n in walk_no_nested(fn) if isinstance(n, ast.Call) and isinstance(n.func, ast.Attribute) and norm(n.func.value) == 'lns'
                and n.func.attr == 'difference_update']
        par = parent_map(fn)
        covered = set()
        for s in subs:
            src = s.args[0] if s.args else None
            okc = isinstance(src, ast.Call) and call_name(src) in ('_multiline_str_continuation_lns', '_multiline_ftstr_continuation_lns')
            ctx.check('R4.2c', okc, fi.module, fi.qualname, norm(s, 70), 'lines subtracted do not come from the continuation-line scanner', s.lineno)
            cur = s
            while cur in par:
                cur = par[cur]
                if isinstance(cur, ast.If):
                    covered |= T.classes_mentioned(ctx, fi.module, cur.test) & {'Constant', 'JoinedStr', 'TemplateStr'}
        for kind in ('Constant', 'JoinedStr', 'TemplateStr'):
            ctx.check('R4.2c', kind in covered, fi.module, fi.qualname, f'arm for {kind}',
                      f'multi-line {kind} literals are not excluded from the indentable lines: re-indenting a block changes their value', fi.lineno)
        # aliases of the scanner are the same function
    # ---- (d)
    scanners = {fi.key: fi for q in ('_multiline_str_continuation_lns', '_multiline_ftstr_continuation_lns') for fi in ctx.repo.find_funcs('fst_core', q)}
    if not scanners:
        raise AnalysisError('continuation-line scanner (_multiline_str_continuation_lns) not found')
    scanners = list(scanners.values())
    for fi in scanners:
        cfg = CFG(fi.node)
        par = parent_map(fi.node)
        # emissions: lns.extend(range(<S> + ln, ...)) located under a test that mentions the END token set
        n_em = 0
        for nd in cfg.nodes:
            for x in subnodes(cfg, nd):
                if isinstance(x, ast.Call) and call_name(x) == 'extend' and x.args and isinstance(x.args[0], ast.Call) and call_name(x.args[0]) == 'range':
                    start = x.args[0].args[0]
                    names = [y.id for y in ast.walk(start) if isinstance(y, ast.Name) and y.id != 'ln']
                    under_end = False
                    cur = x
                    while cur in par:
                        cur = par[cur]
                        if isinstance(cur, ast.If) and 'FTSTRING_END_TOKENS' in norm(cur.test, 400):
                            under_end = True
                    if not under_end:
                        continue
                    n_em += 1
                    for s in names:
                        asg = [a for a in cfg.nodes if a.kind == 'stmt' and isinstance(a.ast, ast.Assign) and norm(a.ast.targets[0]) == s]
                        for a in asg:
                            if isinstance(a.ast.value, ast.Call) and call_name(a.ast.value) == 'pop':
                                continue    # stack idiom: the start is popped for the END it matches
                            # can the assignment be reached again from itself without passing the emission?
                            reach = cfg.reachable(a.id, lambda n_, lab, s_: lab != 'exc', stop={nd.id})
                            ctx.check('R4.2d', a.id not in reach, fi.module, fi.qualname, f'{norm(a.ast, 50)} before {norm(x, 40)}',
                                      'a nested f / t-string start overwrites the recorded start of the enclosing literal before its range is '
                                      'emitted: the continuation lines between the two starts are treated as indentable', a.lineno,
                                      sample={'function': fi.key, 'record': norm(a.ast, 50)})
        if n_em < 1 and fi.pyver is None or (n_em < 1 and fi.pyver and (fi.pyver[0] or (3, 12)) >= (3, 12)):
            # on interpreters without tokenised f-strings the arm is empty by construction (token sets are ())
            raise AnalysisError(f'{fi.key}: no f / t-string range emission found')
    if n_calls < 8:
        raise AnalysisError(f'only {n_calls} calls of the indent rewriters found')


def _bound_by_lns_loop(arg, call, par) -> bool:
    if not isinstance(arg, ast.Name):
        return False
    cur = call
    while cur in par:
        cur = par[cur]
        if isinstance(cur, ast.For) and isinstance(cur.target, ast.Name) and cur.target.id == arg.id and norm(cur.iter) == 'lns':
            return True
    return False


def _from_indentable(fn, e) -> bool:
    """`e` is `X._get_indentable_lns(...)`, a set expression over such values, or a local only bound to such."""
    if isinstance(e, ast.Call):
        if call_name(e) == '_get_indentable_lns':
            return True
        if call_name(e) in ('set', 'frozenset', 'tuple', 'sorted') and e.args:
            return _from_indentable(fn, e.args[0])
        if isinstance(e.func, ast.Attribute) and e.func.attr in ('difference', 'intersection', 'copy'):
            return _from_indentable(fn, e.func.value)
        return False
    if isinstance(e, ast.BinOp) and isinstance(e.op, (ast.Sub, ast.BitAnd)):
        return _from_indentable(fn, e.left)
    if isinstance(e, ast.IfExp):
        return _from_indentable(fn, e.body) and _from_indentable(fn, e.orelse)
    if isinstance(e, ast.Name):
        vals = [n.value for n in walk_no_nested(fn) if isinstance(n, ast.Assign) and any(norm(t) == e.id for t in n.targets)]
        return bool(vals) and all(_from_indentable(fn, v) for v in vals)
    return False


# ----------------------------------------------------------------------------------------------------------------------
# R4.3

def _flag(c: ast.Call, pos: int, name: str):
    if len(c.args) > pos:
        return c.args[pos]
    return next((k.value for k in c.keywords if k.arg == name), None)


def _truthy_const(e):
    """True / False / None(unknown) for a flag expression."""
    if e is None:
        return False
    if isinstance(e, ast.Constant):
        return bool(e.value) if e.value is not None else None   # lcont=None has its own meaning (stop at line end), treat as unknown
    return None


def _char_tests(fn, names: set[str], ch: str):
    """Tests that classify the text of one of `names` (frag objects) or of their `.src` by the character `ch`."""
    out = []
    srcs = set()
    for n in walk_no_nested(fn):
        pairs = []
        if isinstance(n, ast.Assign):
            pairs = [(t, n.value) for t in n.targets]
        elif isinstance(n, ast.NamedExpr):
            pairs = [(n.target, n.value)]
        for t, v in pairs:
            if isinstance(t, ast.Name) and isinstance(v, ast.Attribute) and v.attr == 'src' and norm(v.value) in names:
                srcs.add(t.id)
            if isinstance(t, ast.Tuple) and isinstance(v, ast.Name) and v.id in names and len(t.elts) == 3 and isinstance(t.elts[2], ast.Name):
                srcs.add(t.elts[2].id)          # `ln, col, src = frag`

    def is_text(e):
        if isinstance(e, ast.Attribute) and e.attr == 'src' and norm(e.value) in names:
            return True
        if isinstance(e, ast.NamedExpr):
            return is_text(e.value)
        if isinstance(e, ast.Name) and e.id in srcs:
            return True
        if isinstance(e, ast.Subscript):
            return is_text(e.value)
        return False

    for n in walk_no_nested(fn):
        if isinstance(n, ast.Call) and isinstance(n.func, ast.Attribute) and n.func.attr in ('startswith', 'endswith') and is_text(n.func.value) and n.args:
            a = n.args[0]
            lits = [a.value] if isinstance(a, ast.Constant) else [e.value for e in a.elts if isinstance(e, ast.Constant)] if isinstance(a, ast.Tuple) else []
            if any(isinstance(l, str) and ch in l for l in lits):
                out.append(n)
        elif isinstance(n, ast.Compare) and len(n.ops) == 1 and is_text(n.left):
            c = n.comparators[0]
            if isinstance(c, ast.Constant) and isinstance(c.value, str) and ch in c.value:
                out.append(n)
    return out


def _pos(x):
    return (x.lineno, x.col_offset)


def check_frag_classification(ctx):
    ctx.rule('R4.3b', 'a fragment that cannot be a comment / line continuation is not tested for being one (dead test = wrong flag or wrong test)', 25)
    from ..cfg import solve
    for fi in ctx.repo.all_funcs():
        if isinstance(fi.node, ast.Lambda) or fi.module == 'common':
            continue
        fn = fi.node
        fcalls = [c for c in walk_no_nested(fn) if isinstance(c, ast.Call) and call_name(c) in ('next_frag', 'prev_frag')]
        if not fcalls:
            continue
        par = parent_map(fn)
        by_name: dict[str, list] = {}
        for c in fcalls:
            p = par.get(c)
            name = None
            if isinstance(p, ast.NamedExpr) and isinstance(p.target, ast.Name):
                name = p.target.id
            elif isinstance(p, ast.Assign) and len(p.targets) == 1 and isinstance(p.targets[0], ast.Name):
                name = p.targets[0].id
            by_name.setdefault(name, []).append((c, p))
        cfg = CFG(fn)
        for name, calls in by_name.items():
            if name is None:
                continue        # result only truth-tested / unpacked in place: no named test to contradict
            # reaching definitions of `name`
            call_ids = {id(c): c for c, _ in calls}
            binds = {}      # cfg node id -> list of (position, def) ; def = call node or 'other'
            for nd in cfg.nodes:
                for x in subnodes(cfg, nd):
                    if isinstance(x, ast.NamedExpr) and isinstance(x.target, ast.Name) and x.target.id == name:
                        binds.setdefault(nd.id, []).append((_pos(x.target), x.value if id(x.value) in call_ids else 'other'))
                    elif isinstance(x, ast.Assign) and any(isinstance(y, ast.Name) and y.id == name for t in x.targets for y in ast.walk(t)):
                        binds.setdefault(nd.id, []).append((_pos(x), x.value if id(x.value) in call_ids else 'other'))
                if nd.kind == 'iter' and any(isinstance(y, ast.Name) and y.id == name for y in ast.walk(nd.ast.target)):
                    binds.setdefault(nd.id, []).append(((nd.ast.lineno, 0), 'other'))

            def transfer(node, st):
                b = binds.get(node.id)
                if b:
                    d = max(b, key=lambda t: t[0])[1]
                    return frozenset([id(d) if d != 'other' else 0])
                return st

            ins = solve(cfg, frozenset([0]), transfer, lambda a_, b_: a_ | b_)

            def reaching(cfg_node, at):
                """defs of `name` visible at source position `at` inside cfg_node."""
                b = [t for t in binds.get(cfg_node.id, []) if t[0] < at]
                if b:
                    d = max(b, key=lambda t: t[0])[1]
                    return {id(d) if d != 'other' else 0}
                return set(ins.get(cfg_node.id) or ())

            node_of = {}
            for nd in cfg.nodes:
                for x in subnodes(cfg, nd):
                    node_of[id(x)] = nd
            for what, pos, kw, ch in (('comment', 5, 'comment', '#'), ('line continuation', 6, 'lcont', '\\')):
                flag_of = {id(c): _truthy_const(_flag(c, pos, kw)) for c, _ in calls}
                tests = _char_tests(fn, {name}, ch)
                classified = set()     # call ids that reach some classification test
                for t in tests:
                    nd = node_of.get(id(t))
                    if nd is None:
                        continue
                    rd = reaching(nd, _pos(t))
                    classified |= rd
                    if 0 in rd or not rd:
                        continue
                    fl = [flag_of.get(d) for d in rd]
                    ctx.check('R4.3b', not all(f is False for f in fl), fi.module, fi.qualname,
                              f'{name}: {norm(t, 50)} after {norm(call_ids[next(iter(rd))], 40)}',
                              f'`{name}` comes from a scan that skips {what}s, yet it is tested for being one; the test can never be true: either the '
                              f'scan was meant to return {what}s (and now runs past them, treating what follows as adjacent) or the guard is dead',
                              t.lineno, sample={'function': fi.key, 'name': name, 'what': what})
                for c, _ in calls:
                    if flag_of[id(c)] is False and id(c) not in classified:
                        ctx.ok('R4.3b', f'{fi.module}|{fi.qualname}|{name}@{c.lineno}|{what}', sample={'function': fi.key, 'scan': norm(c, 60), 'what': what})


def run(ctx):
    ctx.not_decided += ['which bytes an edit changes: trivia selection, separator repair, blank-line handling, comment ownership (value level)',
                        'correctness of the token-level continuation-line computation beyond the nesting discipline (R4.2d)']
    res = Resolver(ctx.repo, ctx.ev)
    ef = Effects(ctx.repo, res)
    check_unparse(ctx, ef)
    check_indent(ctx, res)
    check_frag_classification(ctx)
    from .. import litdomain
    ctx.rule('R4.4', "the docstring mode handed to the indentation family stays inside `bool | Literal['strict']`: 'strict' is singled out by equality, "
                     "so another truthy literal silently re-indents every string in docstring position", 15)
    litdomain.check(ctx, 'R4.4', lambda fi, p, ann: p == 'docstr' and "Literal['strict']" in ann, 15)
