"""C07 — copying never disturbs the tree; extraction is faithful: effect clauses.

R7.1 copy-mode effect freedom: every get handler (single + slice) and the helpers it reaches, specialised under cut=False
     by constant propagation / branch pruning, contains no permanent mutation of the tree it reads from.
R7.2 normalise / restore pairing: a temporary normalisation taken on the source tree is released on every normal path
     and cannot be left in force by a request-rejecting raise.
R7.3 entry points: FST.copy / FSTView.copy / get() call the kernel with the literal cut=False; the root-copy branch
     re-creates `self` in a finally; as_(copy=True) coerces the copy, never self.
R7.4 cut = copy + delete by construction (non-statement single gets), shared handler parametrised by `cut` for slices.
R7.5 cut leaves what delete leaves (slices): per (class, field) the repair helpers the put-slice handler applies to the remainder
     on its delete path are also applied by the get-slice handler on its cut path.
Not decided: structural equality of the extracted piece; token conservation.
"""
from __future__ import annotations

import ast

from ..model import AnalysisError, norm, walk_no_nested, call_name
from ..consteval import FuncTok
from ..callgraph import Resolver
from ..effects import Effects
from ..cfg import subnodes
from .atomic import Flow, PAIRS, RELEASE_OF
from .c12 import raise_sources, early_raisers

PROP = 'C07'

# reviewed copy-mode instance (DESIGN §2 C07): construct prefix -> reason
REVIEWED = {}
REVIEWED_CALLEES = {
    '_maybe_del_trailing_newline':
        'get_slice_stmtlike calls it in copy mode too; for an _ExceptHandlers / _match_cases root it re-stores end_lineno / '
        'end_col_offset = end of source and touches the root; in copy mode source and positions are unchanged, so the stores '
        're-assert the existing values (probed on two layouts at design time)',
}


def get_handlers(ctx):
    GS = ctx.ev.get('fst_get_slice', '_GET_SLICE_HANDLERS')
    G1 = ctx.ev.get('fst_get_one', '_GET_ONE_HANDLERS')
    out, seen = [], set()
    for tab in (GS, G1):
        for v in tab.values():
            if isinstance(v, FuncTok) and v.key not in seen:
                seen.add(v.key)
                out.extend(ctx.repo.mod(v.module).func(v.qualname))
    out += ctx.repo.funcs('fst_get_one', '_get_one') + ctx.repo.funcs('fst_get_slice', '_get_slice')
    return out


def run(ctx):
    ctx.not_decided += ['that the extracted piece is structurally equal to the original sub-tree and parses on its own',
                        'token / comment conservation between remainder and extracted piece']
    res = Resolver(ctx.repo, ctx.ev)
    ef = Effects(ctx.repo, res)
    ef.compute_mutations()
    # effects the rule accounts for separately: the normalise / restore pairs (R7.2) and the one reviewed helper
    ef.ignore_callees = set(PAIRS) | set(RELEASE_OF) | set(REVIEWED_CALLEES)
    ctx.extra['reviewed_copy_mode_callees'] = REVIEWED_CALLEES
    handlers = get_handlers(ctx)
    if len(handlers) < 45:
        raise AnalysisError(f'only {len(handlers)} get handlers found')

    ctx.rule('R7.1', 'under cut=False every get handler is free of permanent mutations of the tree of `self` (constant-specialised, '
                     'path sensitive, callees specialised by the constants they receive)', 45)
    ctx.rule('R7.2', 'every temporary normalisation (acquire) taken on `self` is released on every normal path and is not left in force '
                     'by a request-rejecting raise (no handler restoring it)', 5)
    early_raisers(ctx, ef)

    def work(fi):
        consts = {'cut': False} if 'cut' in fi.params() else {}
        flow = Flow(ef, fi, 'self', consts)
        cfg = flow.cfg
        muts, pairs_bad, n_pairs = [], [], 0
        for node in cfg.nodes:
            states = flow.states(node.id)
            if not states or node.kind not in ('stmt', 'test', 'iter', 'with', 'case'):
                continue
            # R7.1: first permanent mutation sites
            clean = [{k: v for k, v in d.items() if k[:1] != '$'} for d in states if '$mut' not in d]
            if clean:
                hits = ef.node_mutates(fi, cfg, node, 'self', clean, ignore=set(PAIRS) | set(RELEASE_OF), consts=consts)
                for h in hits[:1]:
                    muts.append((norm(h, 90), getattr(h, 'lineno', node.lineno)))
            # R7.2: raise while a normalisation is in force
            tmp = [d for d in states if flow.tmp_held(d)]
            n_pairs += len(flow.pair_calls.get(node.id, ()))
            if tmp:
                for construct, how in raise_sources(ctx, ef, fi, flow, node, tmp, consts):
                    held = set()
                    for d in tmp:
                        held |= set(flow.tmp_held(d))
                    if flow.exception_leaves(node, held):
                        pairs_bad.append((norm(construct, 80) + ' @unrestored:' + ','.join(sorted(held)), getattr(construct, 'lineno', 0),
                                          f'{how} while the temporary normalisation {sorted(held)} of the source tree is in force and no handler '
                                          f'restores it: a refused copy leaves its source damaged'))
        for lab, pn in flow.exit_preds():
            for d in flow.states(pn.id):
                held = dict(flow.tmp_held(d))
                for kind, acq, call in flow.pair_calls.get(pn.id, ()):
                    if kind == 'rel':
                        held.pop(acq, None)
                    else:
                        held[acq] = (call.lineno, None)
                if held:
                    pairs_bad.append((f'return at line {pn.lineno} @unreleased:' + ','.join(sorted(held)), pn.lineno,
                                      f'a normal return is reachable with the temporary normalisation {sorted(held)} still in force: the copy '
                                      f'left the tree it read from restructured'))
                    break
        return muts, pairs_bad, n_pairs

    from ..engine import parallel_map
    results = parallel_map(work, handlers)
    for fi, (muts, pairs_bad, n_pairs) in zip(handlers, results):
        seen = set()
        real = []
        for k, line in muts:
            if k in seen:
                continue
            seen.add(k)
            rv = [r for (q, pre), r in REVIEWED.items() if q == fi.qualname and k.startswith(pre)]
            if rv:
                ctx.ok('R7.1', f'{fi.module}|{fi.qualname}|reviewed: {k}', sample={'reviewed': k, 'reason': rv[0][:100]})
            else:
                real.append((k, line))
        if not real:
            ctx.ok('R7.1', f'{fi.module}|{fi.qualname}', sample={'handler': fi.key, 'specialised': 'cut=False'})
        for k, line in real:
            ctx.bad('R7.1', fi.module, fi.key.split('.', 1)[1], k,
                    'reachable with cut=False and modifies the tree being copied from: copy() / get() / get_slice() must leave their source '
                    'byte-identical in text and identical in structure and positions', line)
        if n_pairs:
            if not pairs_bad:
                ctx.ok('R7.2', f'{fi.module}|{fi.qualname}|{n_pairs} acquire/release calls', sample={'handler': fi.key, 'pair_calls': n_pairs})
            seen = set()
            for k, line, why in pairs_bad:
                if k in seen:
                    continue
                seen.add(k)
                ctx.bad('R7.2', fi.module, fi.key.split('.', 1)[1], k, why, line)

    check_entry_points(ctx)
    check_cut_vs_delete(ctx)


def check_entry_points(ctx):
    ctx.rule('R7.3', 'copy entry points pass the literal cut=False to the kernel; the root branch of FST.copy restores `self` in a '
                     'finally; as_() coerces a copy unless it is the root and copy=False', 5)
    ns = ctx.repo.fst_namespace()
    cp = ns['copy'][0]
    calls = [n for n in walk_no_nested(cp.node) if isinstance(n, ast.Call) and call_name(n) == '_get_one']
    def cut_arg(c):        # third positional of `<node>._get_one(idx, field, cut, options)`, or the keyword
        return c.args[2] if len(c.args) >= 3 and not any(isinstance(a, ast.Starred) for a in c.args[:3]) else \
            next((k.value for k in c.keywords if k.arg == 'cut'), None)
    ok = bool(calls) and all(isinstance(cut_arg(c), ast.Constant) and cut_arg(c).value is False for c in calls)
    ctx.check('R7.3', ok, cp.module, cp.qualname, f'{len(calls)} _get_one(..., False, ...) calls',
              'FST.copy must call _get_one with the literal cut=False', cp.lineno)
    def restores_in_finally(fn_node):
        trys_ = [n for n in walk_no_nested(fn_node) if isinstance(n, ast.Try)]
        return len(trys_) == 1 and bool(trys_[0].finalbody) and any(
            isinstance(x, ast.Call) and call_name(x) == 'FST' and any(kw.arg == 'tmake' for kw in x.keywords)
            for s_ in trys_[0].finalbody for x in ast.walk(s_))
    ok = restores_in_finally(cp.node)
    if not ok:
        # the temporary re-parenting as a context manager: `with <cm>(self) as tmpf:` where <cm> is a @contextmanager generator of the
        # package that yields inside a try whose finally re-creates the root
        for w in [n for n in walk_no_nested(cp.node) if isinstance(n, ast.With)]:
            for it in w.items:
                c = it.context_expr
                if isinstance(c, ast.Call) and isinstance(c.func, ast.Name):
                    for g in ctx.repo.find_funcs(cp.module, c.func.id):
                        decos = [norm(d) for d in getattr(g.node, 'decorator_list', [])]
                        if any(d.endswith('contextmanager') for d in decos) and restores_in_finally(g.node) and \
                                any(isinstance(y, ast.Yield) for t_ in walk_no_nested(g.node) if isinstance(t_, ast.Try) for b_ in t_.body for y in ast.walk(b_)):
                            ok = True
    ctx.check('R7.3', ok, cp.module, cp.qualname, 'root copy: try ... finally: FST(ast, lines, None, from_=tmpf, ..., tmake=False)',
              'the temporary re-parenting of a root statement must be undone in a finally clause, or a failed copy leaves the root detached', cp.lineno)
    g = ns['get'][0]
    gs = ns['get_slice'][0]
    for fi, kern in ((g, ('_get_one', '_get_slice')), (gs, ('_get_slice',))):
        calls = [n for n in walk_no_nested(fi.node) if isinstance(n, ast.Call) and call_name(n) in kern]
        # cut argument must be the method's own `cut` parameter (default False), never a literal True
        ok = bool(calls)
        for c in calls:
            pos = 3 if call_name(c) == '_get_slice' else 2
            a = c.args[pos] if len(c.args) > pos else None
            ok = ok and isinstance(a, ast.Name) and a.id == 'cut'
        d = dict(zip([a.arg for a in fi.node.args.kwonlyargs], fi.node.args.kw_defaults))
        pd = fi.node.args.args
        dd = dict(zip([a.arg for a in pd[len(pd) - len(fi.node.args.defaults):]], fi.node.args.defaults))
        dflt = d.get('cut', dd.get('cut'))
        ok = ok and isinstance(dflt, ast.Constant) and dflt.value is False
        ctx.check('R7.3', ok, fi.module, fi.qualname, f'{fi.name}(..., cut=False) forwards its own cut', 'get()/get_slice() must default to copy mode and forward only their own cut flag', fi.lineno)
    vm = ctx.repo.class_methods('view', 'FSTView')
    vc = vm['copy'][0]
    calls = [n for n in walk_no_nested(vc.node) if isinstance(n, ast.Call) and call_name(n) in ('_get_slice', '_get_one', 'get', 'get_slice')]
    ok = bool(calls) and all(any(isinstance(a, ast.Constant) and a.value is False for a in c.args[2:4]) or
                             any(kw.arg == 'cut' and isinstance(kw.value, ast.Constant) and kw.value.value is False for kw in c.keywords)
                             for c in calls)
    ctx.check('R7.3', ok, 'view', 'FSTView.copy', f'{len(calls)} kernel calls with cut=False', 'FSTView.copy must pass the literal cut=False', vc.lineno)
    vcut = vm['cut'][0]
    calls = [n for n in walk_no_nested(vcut.node) if isinstance(n, ast.Call) and call_name(n) in ('_get_slice', '_get_one', 'get', 'get_slice')]
    ok = bool(calls) and all(any(isinstance(a, ast.Constant) and a.value is True for a in c.args[2:4]) or
                             any(kw.arg == 'cut' and isinstance(kw.value, ast.Constant) and kw.value.value is True for kw in c.keywords)
                             for c in calls)
    ctx.check('R7.3', ok, 'view', 'FSTView.cut', f'{len(calls)} kernel calls with cut=True', 'FSTView.cut must pass cut=True', vcut.lineno)
    # as_(): coercion operates on self only when self is root and copy is false
    as_ = ns['as_'][0]
    ok = any(isinstance(x, ast.Call) and isinstance(x.func, ast.Attribute) and x.func.attr == 'copy' and norm(x.func.value) == 'self'
             for x in ast.walk(as_.node))
    ctx.check('R7.3', ok, as_.module, as_.qualname, 'as_ coerces self.copy(...) for non-root / copy=True',
              'as_() must work on a copy unless it is asked to consume a root node', as_.lineno)

    ctx.rule('R7.4', '_get_one: the only mutation is `self._put_one(None, ...)` (the delete) control dependent on `cut`, performed after '
                     'the copy handler returned', 2)
    g1 = ctx.repo.funcs('fst_get_one', '_get_one')[0]
    from ..struct import enclosing_tests, parent_map
    par = parent_map(g1.node)
    puts = [n for n in walk_no_nested(g1.node) if isinstance(n, ast.Call) and call_name(n) in ('_put_one', '_put_slice')]
    ok = bool(puts)
    for c in puts:
        tests = enclosing_tests(g1.node, c, par)
        ok = ok and any('cut' in {x.id for x in ast.walk(t) if isinstance(x, ast.Name)} and pol for t, pol in tests) and \
            isinstance(c.args[0], ast.Constant) and c.args[0].value is None
    ctx.check('R7.4', ok, g1.module, g1.qualname, f'{len(puts)} delete call(s) under `if cut`', 'the delete half of a cut must be guarded by `cut` and delete (code=None)', g1.lineno)
    hcalls = [n for n in walk_no_nested(g1.node) if isinstance(n, ast.Call) and isinstance(n.func, ast.Name) and n.func.id in ('handler', 'func')]
    ok = bool(hcalls) and all(any(isinstance(a, ast.Constant) and a.value is False for a in c.args) or any(isinstance(a, ast.Name) and a.id == 'cut' for a in c.args) for c in hcalls)
    ctx.check('R7.4', ok, g1.module, g1.qualname, 'handler(self, idx, field, <cut|False>, options)', 'single get dispatches the copy handler', g1.lineno)


# ---- R7.5 ------------------------------------------------------------------------------------------------------------

def _pruned_self_repairs(fi, truth, through=None):
    """Names of the repair helpers (`_fix_*`, the repository's naming for "make the remainder valid again") applied to `self` on the
    paths of `fi` that are feasible when the local names in `truth` have the given truth value."""
    from ..cfg import CFG
    cfg = CFG(fi.node)

    def lit(e):
        neg = False
        while isinstance(e, ast.UnaryOp) and isinstance(e.op, ast.Not):
            e, neg = e.operand, not neg
        if isinstance(e, ast.Name) and e.id in truth:
            return truth[e.id] != neg
        return None

    def ok(n, lab, s):
        if lab == 'exc':
            return False
        if n.kind == 'test' and lab in ('true', 'false'):
            v = lit(n.ast)
            if v is not None:
                return lab == ('true' if v else 'false')
            if isinstance(n.ast, ast.BoolOp):
                vals = [lit(c) for c in n.ast.values]
                if isinstance(n.ast.op, ast.And) and False in vals and lab == 'true':
                    return False
                if isinstance(n.ast.op, ast.Or) and True in vals and lab == 'false':
                    return False
        return True
    reach = cfg.reachable(cfg.entry, ok) | {cfg.entry}
    out = {}
    for i in reach:
        for x in subnodes(cfg, cfg.nodes[i]):
            if isinstance(x, ast.Call) and call_name(x):
                recv = x.func.value if isinstance(x.func, ast.Attribute) else (x.args[0] if x.args else None)
                if isinstance(recv, ast.Name) and recv.id == 'self':
                    if call_name(x).startswith('_fix_'):
                        out.setdefault(call_name(x), x.lineno)
                    elif through is not None:
                        through(call_name(x), x, out)
    return out


def _helper_repairs(ctx, name, depth=0, seen=None):
    """`_fix_*` helpers a same-package helper applies to its own first parameter (any path), followed through at most three levels:
    a repair moved into a shared helper is still a repair."""
    seen = seen if seen is not None else set()
    if name in seen or depth > 3:
        return set()
    seen.add(name)
    out = set()
    for fi in ctx.repo.all_funcs():
        if fi.name != name or isinstance(fi.node, ast.Lambda) or not fi.node.args.args:
            continue
        p0 = fi.node.args.args[0].arg
        for x in walk_no_nested(fi.node):
            if isinstance(x, ast.Call) and call_name(x):
                recv = x.func.value if isinstance(x.func, ast.Attribute) else (x.args[0] if x.args else None)
                if isinstance(recv, ast.Name) and recv.id == p0:
                    if call_name(x).startswith('_fix_'):
                        out.add(call_name(x))
                    else:
                        out |= _helper_repairs(ctx, call_name(x), depth + 1, seen)
    return out


def check_cut_vs_delete(ctx):
    GS = ctx.ev.get('fst_get_slice', '_GET_SLICE_HANDLERS')
    PS = ctx.ev.get('fst_put_slice', '_PUT_SLICE_HANDLERS')
    ctx.rule('R7.5', 'per (class, field): every repair helper (`_fix_*`) the put-slice handler applies to `self` on its delete path '
                     '(code is None) is applied by the get-slice handler on its cut path', 25)
    seen = set()
    for k, g in GS.items():
        p = PS.get(k)
        if not isinstance(g, FuncTok) or not isinstance(p, FuncTok) or (g.key, p.key) in seen:
            continue
        seen.add((g.key, p.key))
        gfs, pfs = ctx.repo.mod(g.module).func(g.qualname), ctx.repo.mod(p.module).func(p.qualname)
        if not gfs or not pfs:
            continue
        gf, pf = gfs[0], pfs[0]
        if 'cut' not in [a.arg for a in gf.node.args.args] or 'code' not in [a.arg for a in pf.node.args.args]:
            continue
        none = {'code': False}
        for x in walk_no_nested(pf.node):
            if isinstance(x, ast.Assign) and len(x.targets) == 1 and isinstance(x.targets[0], ast.Name) and isinstance(x.value, ast.Call) and \
                    (call_name(x.value) or '').startswith('_code_to_slice') and any(isinstance(a, ast.Name) and a.id == 'code' for a in x.value.args):
                none[x.targets[0].id] = False        # the converted code: falsy exactly when code is None (delete)
        delegates = []

        def through(name, call, out, pf=pf):
            # the cut path hands the delete to the put side itself, or applies the repairs through a shared helper
            if name in ('_put_slice', 'put_slice', pf.name) and any(isinstance(a, ast.Constant) and a.value is None for a in call.args[:2]):
                delegates.append(name)
            for r in _helper_repairs(ctx, name):
                out.setdefault(r, call.lineno)
        G = _pruned_self_repairs(gf, {'cut': True}, through)
        P = _pruned_self_repairs(pf, none)
        missing = [] if delegates else sorted(set(P) - set(G))
        ctx.check('R7.5', not missing, gf.module, gf.qualname, f'cut applies the delete repairs of {pf.qualname}',
                  f'deleting through {pf.qualname} repairs the remainder with {missing} (line {P[missing[0]] if missing else 0}) but the cut '
                  f'path of {gf.qualname} does not: a cut can leave source that the delete would have repaired (e.g. a lone tuple item '
                  f'read back as several items)', gf.lineno,
                  sample={'get': gf.key, 'put': pf.key, 'delete_repairs': sorted(P), 'cut_repairs': sorted(G)})
