"""C02 — an edited tree is observationally identical to a fresh parse: the "no stale cached answer / no stale link" discipline.

R2.1 position write => cache flush.  Every store to lineno / col_offset / end_lineno / end_col_offset of a node E (outside
     parsex / asttypes / pattern classes, where nodes have no FST) must happen while the per-node memo of E is known empty
     (a flush covering E ran earlier on every path and E's owner has not been queried / handed to a non-flush callee since), or be
     followed on every normal path to the function exit by a flush covering E, or E must be a freshly constructed AST.
R2.2 child-list surgery => re-index.  (a) every `X.f.pfield = astfield(F, i)` / `FST(L[i], P, astfield(F, i))` names the field the
     list really is and the index the element really has; (b) every length-changing operation on a child list of a live node
     (del / insert / pop(i) / slice store / extend) is followed on every normal path by a re-index loop over that list (or by
     clearing it).
R2.3 single memo.  The attributes ever stored on an FST receiver are {a, parent, pfield, _cache, _lines, indent, _parse_params};
     `_cache` is only subscripted / .get() / cleared wholesale; no memoising decorator in the package; the flush kernel
     (_touch, _touchall, FST.__new__) clears unconditionally.
R2.4 self-healing views.  In every FSTView method a value read of self._start / self._stop is dominated by _base_indices()
     (directly or through a method / property that always calls it).
R2.5 _offset flushes what it visits: the per-node `f._cache.clear()` dominates both "ends before the offset point" breaks, and
     the zero-delta early return is preceded by a full _touchall().
R2.6 a text splice that does not offset (`_put_src` with `tail` left at its default), or that rewrites to the end of a line (trailing
     trivia, which no position-driven flush reaches), on the live tree is followed on every normal
     path by a flush of the receiver's ancestors (`_touchall(True, ...)` or a helper that clears every ancestor unconditionally).
R2.7 a direct store into the live line list of the tree of `self` (outside _put_src and the indent rewriters, which flush through
     _offset_lns) happens with the memo of `self` known empty or is followed by a flush on every normal path: pars() / bloc are
     computed from the text around a node, so changing text without touching leaves them stale.
R2.8 a computed memo key is built from the same argument values as the memoised result (no rebinding in between).
Not decided: equality of loc / pars / own_src / navigation answers with a fresh parse (value level); whether a range flush
(_offset from the root) actually reaches a given node (depends on positions) — R2.1 accepts a range flush as covering.
"""
from __future__ import annotations

import ast

from ..model import AnalysisError, norm, walk_no_nested, call_name
from ..cfg import CFG, solve, subnodes
from ..struct import parent_map
from .. import tables as T

PROP = 'C02'

POS = {'lineno', 'col_offset', 'end_lineno', 'end_col_offset'}
SKIP_MODULES = {'parsex', 'asttypes'}

# flushes addressed to one node: receiver must be the owner of E
OWNER_FLUSH = {'_touch', '_touchall', '_set_ast', '_set_start_pos', '_set_end_pos', '_update_loc_up_parents', '_set_loc_whole',
               '_offset_lns', '_set_field'}
# flushes that take the AST itself as an argument ((re)creation of its FST)
ARG_FLUSH = {'FST', '_set_ast', '_make_fst_and_dedent', '_make_fst_tree'}
# position-driven flush of everything at / after a point, walking from the root
RANGE_FLUSH = {'_offset', '_put_src'}
# cached answers
READ_ATTRS = {'loc', 'bloc', 'ln', 'col', 'end_ln', 'end_col', 'bln', 'bcol', 'bend_ln', 'bend_col', 'whole_loc', 'pars', 'own_src',
              'own_lines', 'src', 'lines'}

# key: (module, function, position attributes stored on the element) — not the local name of the element, which a rename changes
R21_REVIEWED = {
    ('fst_core', '_Modifying.success', 'end_col_offset+end_lineno'):
        'c is the debug-string Constant of `{expr=}`; its span contains the expression just edited, so the offset walk of that edit '
        'visited (and flushed) it; success() runs directly after that edit with no query in between',
    ('fst_raw', '_reparse_raw_base', 'col_offset+end_col_offset'):
        'with set_ast=False the detached copy is returned to _reparse_raw_stmtlike, which installs it with stmtlike._set_ast(copya): '
        'the FST objects are re-issued with empty memos (FST.__new__, R2.3d)',
}

FST_ATTRS = {'a', 'parent', 'pfield', '_cache', '_lines', 'indent', '_parse_params'}


def _targets(n):
    tg = []
    if isinstance(n, ast.Assign):
        for t in n.targets:
            tg += list(t.elts) if isinstance(t, (ast.Tuple, ast.List)) else [t]
    elif isinstance(n, (ast.AugAssign, ast.AnnAssign)):
        tg = [n.target]
    elif isinstance(n, ast.NamedExpr):
        tg = [n.target]
    return tg


def _assign_pairs(fn):
    for n in walk_no_nested(fn):
        if isinstance(n, ast.Assign):
            for t in n.targets:
                if isinstance(t, (ast.Tuple, ast.List)) and isinstance(n.value, (ast.Tuple, ast.List)) and len(t.elts) == len(n.value.elts):
                    yield from zip(t.elts, n.value.elts)
                else:
                    yield t, n.value
        elif isinstance(n, ast.NamedExpr):
            yield n.target, n.value
        elif isinstance(n, ast.AnnAssign) and n.value is not None:
            yield n.target, n.value


# ----------------------------------------------------------------------------------------------------------------------
# R2.1

NOQUERY = {'getattr', 'isinstance', 'hasattr', 'len', 'type', 'id', 'syntax_ordered_children', 'iter_child_nodes', 'walk', 'copy_ast',
           'astfield', 'print', 'min', 'max', 'c2b', 'b2c'}      # plain-AST / builtin helpers: cannot query an FST memo
WALKERS = {'walk', 'iter_child_nodes', 'syntax_ordered_children'}


def owners_of(fn, etext: str) -> set[str]:
    """Texts of expressions denoting the FST node of AST expression `etext`."""
    own = {etext + '.f'}
    if etext.endswith('.a'):
        own.add(etext[:-2])
    for t, v in _assign_pairs(fn):
        if isinstance(t, ast.Name):
            if t.id == etext and isinstance(v, ast.Attribute) and v.attr == 'a':
                own.add(norm(v.value))
            if isinstance(v, ast.Attribute) and v.attr == 'f' and norm(v.value) == etext:
                own.add(t.id)
    return own


def containers_of(fn, etext: str) -> set[str]:
    """Texts of collections E is drawn from: `E = C[i]`, `for E in C`, `for E in walk(X)` (then X, the subtree root)."""
    out = set()
    for t, v in _assign_pairs(fn):
        if isinstance(t, ast.Name) and t.id == etext and isinstance(v, ast.Subscript) and isinstance(v.value, ast.Name):
            out.add(v.value.id)
    for n in walk_no_nested(fn):
        if isinstance(n, ast.For) and isinstance(n.target, ast.Name) and n.target.id == etext:
            it = n.iter
            if isinstance(it, ast.Call) and call_name(it) in WALKERS and it.args:
                out.add(norm(it.args[0]))
            elif isinstance(it, ast.Name):
                out.add(it.id)
    return out


def is_new(fn, etext: str) -> bool:
    """E is a local that only ever holds a freshly constructed AST (class call / copy_ast): it has no FST, hence no memo."""
    vals = [v for t, v in _assign_pairs(fn) if isinstance(t, ast.Name) and t.id == etext]
    if not vals:
        return False
    for v in vals:
        if not (isinstance(v, ast.Call) and (cn := call_name(v)) and (cn[:1].isupper() or cn in ('copy_ast', 'ast_cls'))):
            return False
    return True


def coercer_result(fi, etext) -> bool:
    """code.py `_coerce_to_expr_ast_*`: E is the plain AST under construction (results of sibling coercers, `ret = ret[0]`); FST nodes for
    it are created by the caller afterwards (the functions return the bare AST, documented `FST nodes will be recreated`)."""
    if not (fi.module == 'code' and fi.name.startswith('_coerce_to_expr_ast')):
        return False
    rets = [n for n in walk_no_nested(fi.node) if isinstance(n, ast.Return) and n.value is not None]
    return any(isinstance(r.value, ast.Tuple) and r.value.elts and norm(r.value.elts[0]) == etext for r in rets)


def _mentions(x, texts: set[str]) -> bool:
    for y in ast.walk(x):
        if isinstance(y, (ast.Name, ast.Attribute)) and norm(y) in texts:
            return True
    return False


def pos_args(c: ast.Call):
    """Positional arguments with `*loc` expanded to its four coordinates (None placeholders)."""
    out = []
    for a in c.args:
        if isinstance(a, ast.Starred):
            out += [None] * (5 if call_name(c) == '_offset' and isinstance(a.value, ast.Call) else 4)   # *_put_src(...) = _ParamsOffset(4)
        else:
            out.append(a)
    return out


def put_src_offsets(c: ast.Call) -> bool:
    return len(pos_args(c)) >= 6 or any(k.arg == 'tail' for k in c.keywords)


def node_events(cfg, node, etext, own, conts):
    """Events at a CFG node for the memo of E: set of 'eflush', 'cflush', 'read', 'cread', 'rebind_c' (E rebound from its container),
    'rebind' (E / owner rebound otherwise)."""
    ev = set()
    both = own | {etext}
    cown = set()
    for c in conts:
        cown |= {c + '.f'}
        if c.endswith('.a'):
            cown.add(c[:-2])
    for x in subnodes(cfg, node):
        if isinstance(x, ast.Call):
            cn = call_name(x)
            recv = norm(x.func.value) if isinstance(x.func, ast.Attribute) else None
            fl = None
            if cn == 'clear' and recv and recv.endswith('._cache') and recv[:-7] in own:
                fl = 'eflush'
            elif cn in OWNER_FLUSH and recv in own:
                fl = 'eflush'
            elif cn == '_touchall' and recv in cown:
                ch = x.args[2] if len(x.args) > 2 else next((k.value for k in x.keywords if k.arg == 'children'), None)
                if ch is None or (isinstance(ch, ast.Constant) and ch.value is True):
                    fl = 'cflush'
            elif cn in ARG_FLUSH and any(a is not None and norm(a) == etext for a in pos_args(x)):
                fl = 'eflush'
            elif cn in ARG_FLUSH and any(a is not None and norm(a) in conts for a in pos_args(x)):
                fl = 'cflush'
            elif cn in RANGE_FLUSH:
                if cn == '_put_src' and not put_src_offsets(x):
                    fl = None                   # no offset => no flush
                else:
                    fl = 'cflush'               # position driven: may reach any node of the tree (accepted as covering, see module doc)
                    kw = {k.arg: k.value for k in x.keywords}
                    pa = pos_args(x)
                    excl = kw.get('exclude')
                    if excl is None and cn == '_put_src' and len(pa) >= 8:
                        excl = pa[7]
                    oe = kw.get('offset_excluded')
                    if excl is not None and norm(excl) in own and isinstance(oe, ast.Constant) and oe.value is False:
                        fl = None               # the excluded node itself is skipped without being cleared
                    se = kw.get('self_')
                    if cn == '_offset' and recv in own and isinstance(se, ast.Constant) and se.value is False:
                        fl = None               # walks the children only
            if fl:
                ev.add(fl)
            elif cn not in OWNER_FLUSH | RANGE_FLUSH | NOQUERY | {'clear'}:
                args = list(x.args) + [k.value for k in x.keywords]
                if any(_mentions(a, both) for a in args) or (recv is not None and recv in both):
                    ev.add('read')
                if conts and (any(_mentions(a, conts | cown) for a in args) or (recv is not None and recv in conts | cown)):
                    ev.add('cread')
        elif isinstance(x, ast.Attribute) and x.attr in READ_ATTRS and norm(x.value) in own:
            ev.add('read')
        elif isinstance(x, ast.Name) and isinstance(x.ctx, ast.Store) and (x.id == etext or x.id in own):
            ev.add('rebind')
    if node.kind == 'iter':
        tnames = {x.id for x in ast.walk(node.ast.target) if isinstance(x, ast.Name)}
        if etext in tnames or tnames & own:
            ev.add('rebind')
        # `for x in C: x.f._touch()` as the first statement of the body: every element of C is flushed when the loop is left
        it = node.ast.iter
        if isinstance(it, ast.Name) and it.id in conts and isinstance(node.ast.target, ast.Name) and node.ast.body:
            b0 = node.ast.body[0]
            v = node.ast.target.id
            if isinstance(b0, ast.Expr) and isinstance(b0.value, ast.Call) and call_name(b0.value) == '_touch' and \
                    norm(b0.value.func.value) in (v + '.f', v):
                ev.add('cflush')
    if 'rebind' in ev:
        # is E rebound from its own container?
        for x in subnodes(cfg, node):
            if isinstance(x, (ast.NamedExpr, ast.Assign)):
                tg = x.target if isinstance(x, ast.NamedExpr) else x.targets[0]
                if isinstance(tg, ast.Name) and tg.id == etext and isinstance(x.value, ast.Subscript) and norm(x.value.value) in conts:
                    ev.discard('rebind')
                    ev.add('rebind_c')
        if node.kind == 'iter' and isinstance(node.ast.target, ast.Name) and node.ast.target.id == etext:
            it = node.ast.iter
            if (isinstance(it, ast.Name) and it.id in conts) or (isinstance(it, ast.Call) and call_name(it) in WALKERS and it.args and norm(it.args[0]) in conts):
                ev.discard('rebind')
                ev.add('rebind_c')
    return ev


def owner_test_edge(node, own):
    """('false' | 'true') edge label on which an owner of E is known to be None (no node, nothing to flush), else None."""
    if node.kind != 'test' or node.ast is None:
        return None
    t = node.ast if isinstance(node.ast, ast.expr) else getattr(node.ast, 'test', None)
    if t is None:
        return None
    if isinstance(t, ast.Name) and t.id in own:
        return 'false'
    if isinstance(t, ast.UnaryOp) and isinstance(t.op, ast.Not) and isinstance(t.operand, ast.Name) and t.operand.id in own:
        return 'true'
    return None


def store_flow(cfg, events, store_node_id, own):
    """Forward dataflow for ONE store.  State (EC, CC, pendE, pendC, lost):
    EC / CC: memo of E / of every element of E's container known empty;  pendE / pendC: the stored-to node (addressable through E /
    only through the container) still may hold a stale memo;  lost: it can no longer be addressed by any later flush in this function."""
    def transfer(node, st):
        ec, cc, pe, pc, lost = st
        ev = events[node.id]
        if 'read' in ev:
            ec = False
        if 'cread' in ev:
            cc = False
        if 'eflush' in ev:
            ec, pe = True, False
        if 'cflush' in ev:
            ec = cc = True
            pe = pc = False
        if node.id == store_node_id and not ec:
            pe = True
        if 'rebind_c' in ev:
            if pe:
                pc, pe = True, False
            ec = cc
        elif 'rebind' in ev:
            if pe:
                lost, pe = True, False
            ec = False
        out = (ec, cc, pe, pc, lost)
        lab = owner_test_edge(node, own)
        if lab and 'rebind' not in ev and 'rebind_c' not in ev:
            return {lab: (ec, cc, False, pc, lost), '*': out}
        return out

    def join(a, b):
        return (a[0] and b[0], a[1] and b[1], a[2] or b[2], a[3] or b[3], a[4] or b[4])

    return solve(cfg, (False, False, False, False, False), transfer, join)


def check_position_stores(ctx):
    ctx.rule('R2.1', 'every store to a position attribute happens with the node\'s memo known empty, is followed by a covering flush on '
                     'every normal path, or writes a freshly constructed AST', 60)
    n_funcs = 0
    # (1) the parser modules work on trees that have no FST yet; a helper that only they call is in the same position wherever it lives
    calls_by_name = {}
    for cfi in ctx.repo.all_funcs():
        for c in ast.walk(cfi.node):
            if isinstance(c, ast.Call) and call_name(c):
                calls_by_name.setdefault(call_name(c), []).append((cfi, c))
    skipped_helpers = set()
    for fi in ctx.repo.all_funcs():
        if isinstance(fi.node, ast.Lambda) or fi.module in SKIP_MODULES or '.' in fi.qualname:
            continue
        sites = [cfi for cfi, c in calls_by_name.get(fi.name, []) if cfi.key != fi.key]
        if sites and all(cfi.module in SKIP_MODULES for cfi in sites):
            skipped_helpers.add(fi.key)
    # (2) a plain helper (no node of its own) that stores positions on the nodes of a tree it is *handed* moves the obligation to its
    # callers: there the call is a position store on the argument
    def param_of(fn, etext):
        ps = [a.arg for a in fn.args.posonlyargs + fn.args.args]
        if etext in ps:
            return etext
        for c in containers_of(fn, etext):
            root = c.split('.')[0].split('[')[0]
            if root in ps:
                return root
        return None
    param_stores = {}          # function name -> {param index: {attrs}}
    for fi in ctx.repo.all_funcs():
        if isinstance(fi.node, ast.Lambda) or fi.module in SKIP_MODULES or fi.key in skipped_helpers or '.' in fi.qualname:
            continue
        ps = [a.arg for a in fi.node.args.posonlyargs + fi.node.args.args]
        if not ps or ps[0] == 'self' or not calls_by_name.get(fi.name):
            continue
        for n in walk_no_nested(fi.node):
            for t in _targets(n):
                if isinstance(t, ast.Attribute) and t.attr in POS:
                    pn = param_of(fi.node, norm(t.value))
                    if pn is not None:
                        param_stores.setdefault(fi.name, {}).setdefault(ps.index(pn), set()).add(t.attr)
    ctx.extra['position_store_helpers'] = {k: {str(i): sorted(v) for i, v in d.items()} for k, d in param_stores.items()}
    for fi in ctx.repo.all_funcs():
        if isinstance(fi.node, ast.Lambda) or fi.module in SKIP_MODULES or fi.key in skipped_helpers:
            continue
        stores = []
        for n in walk_no_nested(fi.node):
            for t in _targets(n):
                if isinstance(t, ast.Attribute) and t.attr in POS:
                    if fi.name in param_stores and '.' not in fi.qualname and param_of(fi.node, norm(t.value)) is not None:
                        continue          # checked at the call sites
                    stores.append((n, t))
            if isinstance(n, ast.Expr) and isinstance(n.value, ast.Call) and isinstance(n.value.func, ast.Name) and n.value.func.id in param_stores:
                for i, attrs in param_stores[n.value.func.id].items():
                    if i < len(n.value.args) and not any(isinstance(a, ast.Starred) for a in n.value.args[:i + 1]):
                        for at in sorted(attrs):
                            stores.append((n, ast.copy_location(ast.Attribute(value=n.value.args[i], attr=at, ctx=ast.Store()), n)))
        if not stores:
            continue
        if fi.module == 'match' and fi.cls and all(norm(t.value) == 'self' for _, t in stores):
            continue    # pattern classes (MTypeIgnore...): plain objects that are never part of a tree
        n_funcs += 1
        cfg = CFG(fi.node)
        by_e: dict[str, list] = {}
        for n, t in stores:
            by_e.setdefault(norm(t.value), []).append((n, t))
        for etext, sts in by_e.items():
            fkey = fi.key.split('.', 1)[1].split('[')[0]
            if is_new(fi.node, etext) or coercer_result(fi, etext):
                for n, t in sts:
                    ctx.ok('R2.1', f'{fi.module}|{fi.qualname}|{norm(t)}@{n.lineno}', sample={'function': fi.key, 'store': norm(t), 'how': 'fresh AST'})
                continue
            own = owners_of(fi.node, etext)
            conts = containers_of(fi.node, etext)
            events = {nd.id: node_events(cfg, nd, etext, own, conts) for nd in cfg.nodes}
            store_stmt_ids = {id(n) for n, _ in sts}
            done = set()
            for node in cfg.nodes:
                hit = [x for x in subnodes(cfg, node) if id(x) in store_stmt_ids]
                if not hit or node.id in done:
                    continue
                done.add(node.id)
                ins = store_flow(cfg, events, node.id, own)
                if ins.get(node.id) is None:
                    continue
                pre_ec = ins[node.id][0]
                ex = ins.get(cfg.exit)
                ok = ex is None or not (ex[2] or ex[3] or ex[4])
                how = 'memo known empty at the store' if pre_ec else 'covering flush on every normal path to the exit'
                if not ok:
                    how = 'stale memo may reach the exit' + (' (node no longer addressable after rebinding)' if ex[4] else '')
                rv = R21_REVIEWED.get((fi.module, fkey, '+'.join(sorted({t.attr for _, t in sts}))))
                if not ok and rv:
                    ok, how = True, 'reviewed: ' + rv
                for x in hit:
                    tt = [t for n_, t in sts if n_ is x]
                    ctx.check('R2.1', ok, fi.module, fi.qualname, f'{norm(tt[0])} = ...',
                              f'position of `{etext}` is changed while its memo (loc / bloc / pars) may be populated, and some path to the '
                              f'function exit has no flush covering it: a later query returns the stale location', x.lineno,
                              sample={'function': fi.key, 'store': norm(tt[0]), 'how': how, 'owners': sorted(own), 'containers': sorted(conts)})
    if n_funcs < 20:
        raise AnalysisError(f'only {n_funcs} functions with position stores found')


# ----------------------------------------------------------------------------------------------------------------------
# R2.2

SHIFT_OPS = {'insert', 'extend'}
R22_REVIEWED = {
    ('fst_get_slice', '_remove_arguments_allargs_markers', 'posonlyargs'):
        'the `/` marker is always the last element of posonlyargs (inserted there by _make_arguments_allargs_w_markers via append)',
    ('fst_get_slice', '_remove_MatchMapping_rest_real_node', 'patterns'): 'removes the temporary last element (tail)',
}
STR_LIST_FUNCS = ('_get_slice_Global_Nonlocal_names', '_put_slice_Global_Nonlocal_names')   # `names` of Global / Nonlocal are identifier strings


def list_fields(F):
    node_lists, str_lists = set(), set()
    for cls, fl in F.items():
        for f, t in fl:
            if t.endswith('*'):
                (str_lists if t.rstrip('*') in ('identifier', 'string', 'int') else node_lists).add(f)
    return node_lists, str_lists


def list_aliases(fi, node_lists):
    """name -> field expression text ('ops', or the *variable* holding the field name prefixed with '$')."""
    al = {}
    for t, v in _assign_pairs(fi.node):
        if isinstance(t, ast.Name):
            if isinstance(v, ast.Attribute) and v.attr in node_lists:
                al[t.id] = v.attr
            elif isinstance(v, ast.Call) and call_name(v) == 'getattr' and len(v.args) == 2:
                a1 = v.args[1]
                if isinstance(a1, ast.Name):
                    al[t.id] = '$' + a1.id
                elif isinstance(a1, ast.Constant) and a1.value in node_lists:
                    al[t.id] = a1.value
    params = fi.params()
    for p in params:
        if p in ('body', 'body2') and p not in al:
            al[p] = '$field' + p[4:]
        elif p in node_lists and p not in al:
            al[p] = p
    return al


def reindex_params(fn) -> set[str]:
    """Parameters of a helper whose elements it re-indexes: a `for` loop that stores `<elem>.f.pfield = astfield(...)` with the element
    taken from the parameter (`P[i]`, or the loop runs over `P` / `enumerate(P)` / `range(.., len(P))`)."""
    if isinstance(fn, ast.Lambda):
        return set()
    ps = {a.arg for a in fn.args.posonlyargs + fn.args.args + fn.args.kwonlyargs}
    out = set()
    for n in walk_no_nested(fn):
        if not isinstance(n, ast.For):
            continue
        stores = [s_ for s_ in ast.walk(n) if isinstance(s_, ast.Assign) and any(isinstance(t, ast.Attribute) and t.attr == 'pfield' for t in s_.targets)
                  and isinstance(s_.value, ast.Call) and call_name(s_.value) == 'astfield']
        if not stores:
            continue
        used = {x.id for x in ast.walk(n.iter) if isinstance(x, ast.Name)}
        for s_ in stores:
            for t in s_.targets:
                used |= {x.value.id for x in ast.walk(t) if isinstance(x, ast.Subscript) and isinstance(x.value, ast.Name)}
        out |= used & ps
    return out


def _is_tail_slice(sl) -> bool:
    return isinstance(sl, ast.Slice) and sl.upper is None and sl.step is None and sl.lower is not None


def _is_last_index(sl) -> bool:
    return isinstance(sl, ast.UnaryOp) and isinstance(sl.op, ast.USub) and isinstance(sl.operand, ast.Constant) and sl.operand.value == 1


def reindex_loops(fi, al):
    """{list name: [For nodes]} for loops that re-index that list."""
    out = {}
    for n in walk_no_nested(fi.node):
        if not isinstance(n, ast.For):
            continue
        for s in ast.walk(n):
            if isinstance(s, ast.Assign) and any(isinstance(t, ast.Attribute) and t.attr == 'pfield' for t in s.targets):
                for name in al:
                    named = any(isinstance(c, ast.Call) and call_name(c) == 'astfield' and c.args and isinstance(c.args[0], ast.Constant)
                                and c.args[0].value == al[name] for c in ast.walk(s.value))
                    if _mentions(s, {name}) or _mentions(n.iter, {name}) or named:
                        out.setdefault(name, []).append(n)
    return out


def check_links(ctx, F):
    _REINDEX_CACHE = {}       # per run: in-memory variants of the repository share function keys
    node_lists, str_lists = list_fields(F)
    ctx.rule('R2.2a', 'every pfield (re)index names the field its list really is and the index its element really has', 30)
    ctx.rule('R2.2b', 'every length-changing operation on a child list of a live node is followed by a re-index loop over that list', 25)
    for fi in ctx.repo.all_funcs():
        if isinstance(fi.node, ast.Lambda) or fi.module in SKIP_MODULES | {'match', 'common', 'astutil', 'reconcile'}:
            continue
        al = list_aliases(fi, node_lists)
        par = None
        # ---- (a) agreement
        for n in walk_no_nested(fi.node):
            cands = []   # (element expr, astfield call, where)
            if isinstance(n, ast.Assign) and len(n.targets) == 1 and isinstance(t := n.targets[0], ast.Attribute) and t.attr == 'pfield' and \
                    isinstance(t.value, ast.Attribute) and t.value.attr == 'f' and isinstance(n.value, ast.Call) and call_name(n.value) == 'astfield':
                cands.append((t.value.value, n.value, n))
            elif isinstance(n, ast.Call) and call_name(n) == 'FST' and len(n.args) >= 3 and isinstance(n.args[2], ast.Call) and \
                    call_name(n.args[2]) == 'astfield' and isinstance(n.args[0], ast.Subscript):
                cands.append((n.args[0], n.args[2], n))
            for elem, afc, where in cands:
                if len(afc.args) < 2:
                    continue     # single child: astfield('left')
                fx, ix = afc.args[0], afc.args[1]
                par = par or parent_map(fi.node)
                lname = idx = None
                if isinstance(elem, ast.Subscript) and isinstance(elem.value, ast.Name):
                    lname, idx = elem.value.id, elem.slice
                elif isinstance(elem, ast.Name):
                    lname, idx = _loop_binding(fi.node, par, where, elem.id)
                if lname is None:
                    continue
                key = f'{fi.module}|{fi.qualname}|{norm(where, 70)}'
                okk = True
                why = ''
                if idx is not None and norm(idx) != norm(ix):
                    if not (isinstance(ix, ast.Call) and call_name(ix) == 'len'):
                        okk, why = False, f'element index `{norm(idx)}` but recorded index `{norm(ix)}`'
                src = al.get(lname, lname if lname in node_lists else None)
                if okk and src is not None:
                    if isinstance(fx, ast.Constant):
                        if not src.startswith('$') and src != fx.value:
                            okk, why = False, f'list `{lname}` is field `{src}` but recorded field is {fx.value!r}'
                    elif isinstance(fx, ast.Name):
                        if src.startswith('$') and src[1:] != fx.id:
                            okk, why = False, f'list `{lname}` is field variable `{src[1:]}` but recorded field variable is `{fx.id}`'
                ctx.check('R2.2a', okk, fi.module, fi.qualname, where,
                          f'parent link records the wrong place ({why}): `.pfield`, next() / prev() and every put through this node address '
                          f'a different element than the one that holds it', where.lineno, sample={'function': fi.key, 'link': norm(where, 80)})
                _ = key
        # ---- (b) surgery => re-index
        if fi.name in STR_LIST_FUNCS or fi.module == 'code':
            continue    # code.py coerces detached trees whose FST tree is (re)built from scratch afterwards (FST(ast, ...) / _set_ast)
        ops = []
        for n in walk_no_nested(fi.node):
            if isinstance(n, ast.Delete):
                for t in n.targets:
                    if isinstance(t, ast.Subscript) and isinstance(t.value, ast.Name) and t.value.id in al and \
                            not _is_tail_slice(t.slice) and not _is_last_index(t.slice):
                        ops.append((n, t.value.id))
            elif isinstance(n, ast.Assign):
                for t in n.targets:
                    if isinstance(t, ast.Subscript) and isinstance(t.value, ast.Name) and t.value.id in al and isinstance(t.slice, ast.Slice) \
                            and not _is_tail_slice(t.slice):
                        ops.append((n, t.value.id))
            elif isinstance(n, ast.Call) and isinstance(n.func, ast.Attribute) and isinstance(n.func.value, ast.Name) and n.func.value.id in al:
                if n.func.attr in SHIFT_OPS or (n.func.attr == 'pop' and n.args):
                    ops.append((n, n.func.value.id))
        # attribute-form lists: `del X.<field>[i]`, `del getattr(X, v)[i]` with v constrained by an enclosing `v in (<consts>)` / `v == <const>`
        # test or bound by `for v in (<consts>)`; they are discharged by a table-driven re-index loop
        #   for F in (<consts>): for i, a in enumerate(getattr(X, F)): a.f.pfield = astfield(F, i)
        par2 = None
        field_ops = []          # (node, X text, {fields})
        for n in walk_no_nested(fi.node):
            tgts = n.targets if isinstance(n, ast.Delete) else []
            for t in tgts:
                if not (isinstance(t, ast.Subscript) and not _is_tail_slice(t.slice) and not _is_last_index(t.slice)):
                    continue
                v = t.value
                if isinstance(v, ast.Attribute) and v.attr in node_lists and isinstance(v.value, ast.Name):
                    field_ops.append((n, v.value.id, {v.attr}))
                elif isinstance(v, ast.Call) and call_name(v) == 'getattr' and len(v.args) == 2 and isinstance(v.args[0], ast.Name) and \
                        isinstance(v.args[1], ast.Name):
                    par2 = par2 or parent_map(fi.node)
                    fs = _const_domain(fi.node, par2, n, v.args[1].id)
                    if fs:
                        field_ops.append((n, v.args[0].id, fs & node_lists))
        if field_ops and _derives_from_param(fi, {x for _, x, _ in field_ops}):
            cfg_f = CFG(fi.node)
            cover = {}          # cfg node id of an outer `for F in (<consts>)` -> (X, fields)
            for nd in cfg_f.nodes:
                if nd.kind != 'iter':
                    continue
                lp = nd.ast
                if isinstance(lp.target, ast.Name) and isinstance(lp.iter, (ast.Tuple, ast.List)) and all(isinstance(e, ast.Constant) for e in lp.iter.elts):
                    fv = lp.target.id
                    for inner in ast.walk(lp):
                        if isinstance(inner, ast.Assign) and any(isinstance(t, ast.Attribute) and t.attr == 'pfield' for t in inner.targets) and \
                                isinstance(inner.value, ast.Call) and call_name(inner.value) == 'astfield' and inner.value.args and \
                                norm(inner.value.args[0]) == fv:
                            xs = [norm(c.args[0]) for c in ast.walk(lp) if isinstance(c, ast.Call) and call_name(c) == 'getattr' and len(c.args) == 2
                                  and norm(c.args[1]) == fv]
                            if xs:
                                cover[nd.id] = (xs[0], {e.value for e in lp.iter.elts})
            for opn, xname, fields in field_ops:
                for f_ in sorted(fields):
                    good = {nid for nid, (x_, fs_) in cover.items() if x_ == xname and f_ in fs_}
                    for nd in cfg_f.nodes:
                        if nd.kind == 'iter' and any(isinstance(y, ast.Assign) and any(isinstance(t, ast.Attribute) and t.attr == 'pfield' for t in y.targets)
                                                       and f"'{f_}'" in norm(y.value) for y in ast.walk(nd.ast)) and f'{xname}.{f_}' in norm(nd.ast.iter, 200):
                            good.add(nd.id)
                    opnodes = [nd for nd in cfg_f.nodes if any(x is opn for x in subnodes(cfg_f, nd))]
                    okk = all(cfg_f.exit not in cfg_f.reachable(nd.id, lambda n_, lab, s_: lab != 'exc', stop=good) for nd in opnodes)
                    ctx.check('R2.2b', okk, fi.module, fi.qualname, f'{norm(opn, 60)} [{f_}]',
                              f'an element is removed from `{xname}.{f_}` but some path to the function exit has no re-index of that list: the '
                              f'elements after it keep their old `.pfield.idx`', opn.lineno, sample={'function': fi.key, 'op': norm(opn, 60), 'field': f_})
        if not ops:
            continue
        if not _derives_from_param(fi, {l for _, l in ops}):
            continue
        cfg = CFG(fi.node)
        closure = {l: _name_closure(fi, l) for _, l in ops}
        loops = reindex_loops(fi, al)
        for opn, lname in ops:
            good = set()
            for nd in cfg.nodes:
                if nd.kind == 'iter' and any(nd.ast is lp for lp in loops.get(lname, [])):
                    good.add(nd.id)
                elif nd.kind in ('stmt', 'test'):
                    for x in subnodes(cfg, nd):
                        # the list is handed to a helper that re-indexes that parameter (the loop extracted into a worker)
                        if isinstance(x, ast.Call) and isinstance(x.func, ast.Name):
                            for g in ctx.repo.find_funcs(fi.module, x.func.id):
                                rp = _REINDEX_CACHE.get(g.key)
                                if rp is None:
                                    rp = _REINDEX_CACHE[g.key] = reindex_params(g.node)
                                if not rp:
                                    continue
                                gps = [a.arg for a in g.node.args.posonlyargs + g.node.args.args]
                                passed = {gps[i] for i, a in enumerate(x.args) if i < len(gps) and isinstance(a, ast.Name) and a.id == lname} | \
                                    {k.arg for k in x.keywords if isinstance(k.value, ast.Name) and k.value.id == lname}
                                if passed & rp:
                                    good.add(nd.id)
                        if isinstance(x, ast.Call) and call_name(x) == 'clear' and isinstance(x.func, ast.Attribute) and norm(x.func.value) == lname:
                            good.add(nd.id)
                        # the whole tree that owns the list is torn down (donor tree of a put): no link of it is read again
                        if isinstance(x, ast.Call) and call_name(x) == '_unmake_fst_tree' and not x.args and isinstance(x.func, ast.Attribute) and \
                                isinstance(x.func.value, ast.Name) and x.func.value.id in closure[lname]:
                            good.add(nd.id)
                        # the node that owns the list is given another AST (`owner._set_ast(new)`): the list is no child list any more
                        if isinstance(x, ast.Call) and call_name(x) == '_set_ast' and x.args and isinstance(x.func, ast.Attribute) and \
                                isinstance(x.func.value, ast.Name) and x.func.value.id in closure[lname]:
                            good.add(nd.id)
            opnodes = [nd for nd in cfg.nodes if any(x is opn for x in subnodes(cfg, nd))]
            # `saved = len(L)` before the surgery and `if len(L) == saved: return` after it: on that edge nothing shifted.  Lists that receive
            # the same surgery in this function (the parallel keys / values of a Dict) stand for each other.
            twin_lists = {l for o_, l in ops if any(norm(getattr(o_, 'targets', [None])[0]).replace(l, '') == norm(getattr(opn, 'targets', [None])[0]).replace(lname, '')
                                                    for _ in [0] if isinstance(o_, (ast.Delete, ast.Assign)) and isinstance(opn, (ast.Delete, ast.Assign)))} | {lname}
            saved_len = {x.targets[0].id for x in walk_no_nested(fi.node) if isinstance(x, ast.Assign) and len(x.targets) == 1 and
                         isinstance(x.targets[0], ast.Name) and isinstance(x.value, ast.Call) and call_name(x.value) == 'len' and x.value.args and
                         norm(x.value.args[0]) in twin_lists and x.lineno < opn.lineno}
            saved_len = {v for v in saved_len if sum(1 for y in ast.walk(fi.node) if isinstance(y, ast.Name) and y.id == v and isinstance(y.ctx, ast.Store)) == 1}

            def same_length_edge(n, lab):
                t = n.ast if n.kind == 'test' else None
                if isinstance(t, ast.Compare) and len(t.ops) == 1 and isinstance(t.ops[0], (ast.Eq, ast.NotEq)):
                    a_, b_ = t.left, t.comparators[0]
                    for u, v in ((a_, b_), (b_, a_)):
                        if isinstance(u, ast.Call) and call_name(u) == 'len' and u.args and norm(u.args[0]) in twin_lists and isinstance(v, ast.Name) and v.id in saved_len:
                            return lab == ('true' if isinstance(t.ops[0], ast.Eq) else 'false')
                return False
            okk = True
            for nd in opnodes:
                reach = cfg.reachable(nd.id, lambda n, lab, s: lab != 'exc' and not same_length_edge(n, lab), stop=good)
                if cfg.exit in reach:
                    okk = False
            fkey = fi.key.split('.', 1)[1].split('[')[0]
            rv = R22_REVIEWED.get((fi.module, fkey, al.get(lname, lname)))
            ctx.check('R2.2b', okk or bool(rv), fi.module, fi.qualname, f'{norm(opn, 60)}',
                      f'elements of `{lname}` after the edit point shift, but some path to the function exit has no re-index loop over '
                      f'`{lname}`: their `.pfield.idx` (and everything navigating by it) stays at the old position', opn.lineno,
                      sample={'function': fi.key, 'op': norm(opn, 60), 'reviewed': rv})


def _const_domain(fn, par, node, var) -> set:
    """String constants `var` can hold at `node`: from an enclosing `if var in (<consts>)` / `var == <const>` test or `for var in (<consts>)`."""
    cur = node
    while cur in par:
        prev, cur = cur, par[cur]
        if isinstance(cur, ast.If) and prev in cur.body:
            t = cur.test
            if isinstance(t, ast.Compare) and len(t.ops) == 1 and norm(t.left) == var:
                c = t.comparators[0]
                if isinstance(t.ops[0], ast.In) and isinstance(c, (ast.Tuple, ast.List, ast.Set)) and all(isinstance(e, ast.Constant) for e in c.elts):
                    return {e.value for e in c.elts}
                if isinstance(t.ops[0], ast.Eq) and isinstance(c, ast.Constant):
                    return {c.value}
        if isinstance(cur, ast.For) and isinstance(cur.target, ast.Name) and cur.target.id == var and \
                isinstance(cur.iter, (ast.Tuple, ast.List)) and all(isinstance(e, ast.Constant) for e in cur.iter.elts):
            return {e.value for e in cur.iter.elts}
        if cur is fn:
            break
    return set()


def _loop_binding(fn, par, where, name):
    """`name` bound by an enclosing `for i, a in enumerate(L)` / `for i, (a, b) in enumerate(zip(L, M))` / walrus `(name := L[i])`."""
    cur = where
    while cur in par:
        cur = par[cur]
        if isinstance(cur, ast.If):
            for x in ast.walk(cur.test):
                if isinstance(x, ast.NamedExpr) and isinstance(x.target, ast.Name) and x.target.id == name and \
                        isinstance(x.value, ast.Subscript) and isinstance(x.value.value, ast.Name):
                    return x.value.value.id, x.value.slice
        if isinstance(cur, ast.For):
            it, tg = cur.iter, cur.target
            if isinstance(it, ast.Call) and call_name(it) == 'enumerate' and isinstance(tg, ast.Tuple) and len(tg.elts) == 2:
                src, el = it.args[0], tg.elts[1]
                if isinstance(el, ast.Name) and el.id == name:
                    base = src
                    while isinstance(base, ast.Subscript):
                        base = base.value
                    if isinstance(base, ast.Name):
                        return base.id, None
                if isinstance(el, ast.Tuple) and isinstance(src, ast.Call) and call_name(src) == 'zip':
                    for e, s in zip(el.elts, src.args):
                        if isinstance(e, ast.Name) and e.id == name:
                            base = s
                            while isinstance(base, ast.Subscript):
                                base = base.value
                            if isinstance(base, ast.Name):
                                return base.id, None
        if cur is fn:
            break
    return None, None


def _name_closure(fi, lname) -> set[str]:
    """Names the list `lname` is (transitively) read from: `fst_body = ast_.comparators`, `ast_ = fst_.a` -> {fst_body, ast_, fst_}."""
    roots = {}
    for t, v in _assign_pairs(fi.node):
        if isinstance(t, ast.Name):
            r = v
            if isinstance(r, ast.Call) and call_name(r) == 'getattr' and r.args:
                r = r.args[0]
            while isinstance(r, (ast.Attribute, ast.Subscript)):
                r = r.value
            if isinstance(r, ast.Name):
                roots.setdefault(t.id, set()).add(r.id)
    seen, work = set(), [lname]
    while work:
        x = work.pop()
        if x not in seen:
            seen.add(x)
            work.extend(roots.get(x, ()))
    return seen


def _derives_from_param(fi, lnames) -> bool:
    """Are these lists child lists of a node that was handed in (self / ast / fst_ parameter), i.e. possibly live?"""
    params = set(fi.params())
    if lnames & params:
        return True
    roots = {}
    for t, v in _assign_pairs(fi.node):
        if isinstance(t, ast.Name):
            r = v
            if isinstance(r, ast.Call) and call_name(r) == 'getattr' and r.args:
                r = r.args[0]
            while isinstance(r, (ast.Attribute, ast.Subscript)):
                r = r.value
            if isinstance(r, ast.Name):
                roots.setdefault(t.id, set()).add(r.id)
    seen = set()
    work = list(lnames)
    while work:
        x = work.pop()
        if x in seen:
            continue
        seen.add(x)
        if x in params:
            return True
        work.extend(roots.get(x, ()))
    return False


# ----------------------------------------------------------------------------------------------------------------------
# R2.3

def check_memo(ctx):
    ctx.rule('R2.3a', 'the only attributes stored on an FST receiver are the seven declared ones (no second memo that _touch cannot clear)', 10)
    ctx.rule('R2.3b', '`_cache` is only subscripted, .get()-ed, created empty or cleared wholesale', 20)
    ctx.rule('R2.3c', 'no memoising decorator / weak dictionary in the package', 1)
    ctx.rule('R2.3d', 'the flush kernel clears unconditionally', 5)
    ns = ctx.repo.fst_namespace()
    fstfuncs = {id(fi.node) for l in ns.values() for fi in l}
    for fi in ctx.repo.all_funcs():
        if isinstance(fi.node, ast.Lambda):
            continue
        in_fst = id(fi.node) in fstfuncs or (fi.params()[:1] == ['self'] and _annotated_fst(fi.node))
        for n in walk_no_nested(fi.node):
            for t in _targets(n):
                if isinstance(t, ast.Attribute) and in_fst and norm(t.value) == 'self':
                    ctx.check('R2.3a', t.attr in FST_ATTRS, fi.module, fi.qualname, f'self.{t.attr} = ...',
                              f'new per-node attribute `{t.attr}` on FST: a value remembered here survives _touch() / _offset() and goes stale '
                              f'after an edit', n.lineno, sample={'function': fi.key, 'attr': t.attr})
            if isinstance(n, ast.Call) and call_name(n) in ('setattr', '__setattr__') and in_fst and n.args and norm(n.args[0]) == 'self':
                ctx.bad('R2.3a', fi.module, fi.qualname, n, 'dynamic attribute store on an FST node', n.lineno)
            if isinstance(n, ast.Attribute) and n.attr == '_cache':
                par = getattr(fi, '_par', None) or parent_map(fi.node)
                fi._par = par
                p = par.get(n)
                ok = False
                if isinstance(p, ast.Subscript) and p.value is n:
                    ok = True
                elif isinstance(p, ast.Attribute) and p.attr in ('get', 'clear') and isinstance(par.get(p), ast.Call):
                    ok = True
                elif isinstance(p, ast.Assign) and n in p.targets and isinstance(p.value, ast.Dict) and not p.value.keys:
                    ok = True
                elif isinstance(p, (ast.Assign, ast.NamedExpr)) and p.value is n and \
                        isinstance(p.targets[0] if isinstance(p, ast.Assign) else p.target, ast.Name):
                    # a local alias (`cache = self._cache`) that is itself only subscripted / .get()-ed / tested with `in`, never rebound, stored
                    # elsewhere, handed on or returned: the same dictionary under a shorter name
                    al = (p.targets[0] if isinstance(p, ast.Assign) else p.target).id
                    uses = [y for y in walk_no_nested(fi.node) if isinstance(y, ast.Name) and y.id == al and y is not (p.targets[0] if isinstance(p, ast.Assign) else p.target)]
                    def fine(y):
                        q = par.get(y)
                        if isinstance(y.ctx, ast.Store):
                            return False
                        if isinstance(q, ast.Subscript) and q.value is y:
                            return True
                        if isinstance(q, ast.Attribute) and q.attr in ('get', 'clear') and isinstance(par.get(q), ast.Call):
                            return True
                        if isinstance(q, ast.Compare) and y in q.comparators and all(isinstance(o, (ast.In, ast.NotIn)) for o in q.ops):
                            return True
                        return False
                    ok = all(fine(y) for y in uses)
                ctx.check('R2.3b', ok, fi.module, fi.qualname, norm(p if p is not None else n, 70),
                          'the memo dictionary is aliased / replaced / selectively edited: wholesale `.clear()` no longer reaches what was '
                          'remembered', n.lineno, sample={'function': fi.key, 'use': norm(p, 60) if p is not None else ''})
    # decorators / weak dicts
    n_mod = 0
    for m in ctx.repo.modules.values():
        n_mod += 1
        bad = []
        for n in ast.walk(m.tree):
            if isinstance(n, (ast.FunctionDef, ast.AsyncFunctionDef)):
                for d in n.decorator_list:
                    dn = norm(d)
                    if any(k in dn for k in ('lru_cache', 'functools.cache', 'cached_property')) or dn == 'cache':
                        bad.append((n, f'@{dn} on {n.name}'))
            if isinstance(n, ast.Call) and call_name(n) in ('WeakKeyDictionary', 'WeakValueDictionary'):
                bad.append((n, norm(n, 50)))
        if not bad:
            ctx.ok('R2.3c', m.name)
        for n, what in bad:
            ctx.bad('R2.3c', m.name, '<module>', what, 'a memo outside `_cache` is not cleared by _touch / _offset and returns pre-edit answers',
                    n.lineno)
    # flush kernel
    from ..struct import with_helpers
    for q, want in (('_touch', 1), ('_touchall', 3)):
        for fi in ctx.repo.funcs('fst_core', q):
            n_clears = 0
            for g in with_helpers(ctx.repo, fi):          # the function and the workers it hands `self` to
                cfg = CFG(g.node)
                clears = [nd for nd in cfg.nodes if any(isinstance(x, ast.Call) and isinstance(x.func, ast.Attribute) and
                                                        ((call_name(x) == 'clear' and norm(x.func.value).endswith('._cache')) or
                                                         (call_name(x) == '_touch' and q != '_touch'))
                                                        for x in subnodes(cfg, nd))]
                n_clears += len(clears)
                par = parent_map(g.node)
                params = {a.arg for a in g.node.args.posonlyargs + g.node.args.args + g.node.args.kwonlyargs}
                stacks = {norm(x.func.value) for x in ast.walk(g.node) if isinstance(x, ast.Call) and isinstance(x.func, ast.Attribute) and
                          x.func.attr in ('pop', 'extend', 'append')}

                def scope_guard(t):
                    """Only the requested scope (boolean mode parameters) and the plain walk loops may guard a clear."""
                    while isinstance(t, ast.UnaryOp) and isinstance(t.op, ast.Not):
                        t = t.operand
                    if isinstance(t, ast.BoolOp):
                        return all(scope_guard(v) for v in t.values)
                    return isinstance(t, ast.Name) and t.id in params

                def walk_loop(t):
                    if isinstance(t, ast.Name) and t.id in stacks:                       # while stack:
                        return True
                    return isinstance(t, ast.NamedExpr) and isinstance(t.value, ast.Attribute) and t.value.attr == 'parent' and \
                        norm(t.value.value) == t.target.id                                # while parent := parent.parent:
                for nd in clears:
                    guards, bad_guards = [], []
                    cur = nd.ast
                    while cur in par and par[cur] is not g.node:
                        prev, cur = cur, par[cur]
                        if isinstance(cur, ast.If):
                            guards.append(norm(cur.test))
                            if not scope_guard(cur.test):
                                bad_guards.append(norm(cur.test))
                        elif isinstance(cur, ast.While):
                            guards.append('while ' + norm(cur.test))
                            if not walk_loop(cur.test):
                                bad_guards.append('while ' + norm(cur.test))
                        elif isinstance(cur, ast.For):
                            guards.append('for')
                    ctx.check('R2.3d', not bad_guards, g.module, g.qualname, f'{norm(nd.ast, 50)} guards={guards}',
                              f'a flush is conditional on something other than the requested scope ({bad_guards[:2]}): some covered node keeps its memo',
                              nd.lineno, sample={'function': g.key, 'clear': norm(nd.ast, 50), 'guards': guards})
            ctx.check('R2.3d', n_clears >= want, fi.module, fi.qualname, 'clear-sites', f'{q} must clear the memo of every node it covers', fi.lineno,
                      sample={'function': fi.key, 'clears': n_clears})
    for fi in ctx.repo.funcs('fst', 'FST.__new__'):
        cfg = CFG(fi.node)
        resets = [nd for nd in cfg.nodes if nd.kind == 'stmt' and isinstance(nd.ast, ast.Assign) and norm(nd.ast.targets[0]) == 'self._cache']
        if not resets:
            ctx.bad('R2.3d', fi.module, fi.qualname, 'self._cache = {}', 'FST.__new__ re-issues the node object of an AST (`a.f` is reused) without '
                    'emptying its memo', fi.lineno)
            continue
        rs = {nd.id for nd in resets}
        # every normal return of `self` (node creation) passes the reset
        for nd in cfg.nodes:
            if nd.kind == 'stmt' and isinstance(nd.ast, ast.Return) and nd.ast.value is not None and norm(nd.ast.value) == 'self':
                dom = nd.id not in cfg.reachable(cfg.entry, lambda n, lab, s: True, stop=rs) or nd.id in rs
                ctx.check('R2.3d', dom, fi.module, fi.qualname, f'return self @{nd.lineno}',
                          'a node object is (re)issued for an AST without an empty memo: answers of its previous life survive', nd.lineno)


def _annotated_fst(fn) -> bool:
    a = fn.args.posonlyargs + fn.args.args
    return bool(a) and a[0].annotation is not None and norm(a[0].annotation) in ('fst.FST', 'FST', "'fst.FST'", "'FST'")


# ----------------------------------------------------------------------------------------------------------------------
# R2.4

def check_views(ctx):
    ctx.rule('R2.4', 'value reads of a view\'s _start / _stop are dominated by _base_indices()', 10)
    m = ctx.repo.mod('view')
    classes = {}
    for n in m.tree.body:
        if isinstance(n, ast.ClassDef):
            classes[n.name] = n
    view_classes = {c for c, n in classes.items() if c == 'FSTView' or any(norm(b).startswith('FSTView') for b in n.bases)}
    if len(view_classes) < 4:
        raise AnalysisError('view classes not found')
    methods = {}     # name -> [FuncInfo]
    props = set()
    for fi in ctx.repo.all_funcs():
        if fi.module == 'view' and fi.cls in view_classes and not isinstance(fi.node, ast.Lambda) and fi.qualname.count('.') == 1:
            methods.setdefault(fi.name, []).append(fi)
            if any(norm(d) in ('property',) for d in fi.node.decorator_list):
                props.add(fi.name)
    # refreshers: methods all of whose definitions call _base_indices on every normal path
    refresh = {'_base_indices'}
    # premise of the rule: the re-clip *stores* the clipped indices (a raw read after it sees current values).  When `_base_indices` of the
    # base view class is a pure read, calling it refreshes nothing: no method is a refresher and every raw read / adjustment stands alone.
    def writes_back(fi):
        for x in walk_no_nested(fi.node):
            tgs = x.targets if isinstance(x, ast.Assign) else [x.target] if isinstance(x, (ast.AugAssign, ast.AnnAssign)) else []
            for tg in tgs:
                for y in ast.walk(tg):
                    if isinstance(y, ast.Attribute) and y.attr in ('_start', '_stop') and norm(y.value) == 'self' and isinstance(y.ctx, ast.Store):
                        return True
        return False
    base_defs = [fi for fi in methods.get('_base_indices', []) if fi.cls == 'FSTView'] or methods.get('_base_indices', [])
    if not base_defs:
        raise AnalysisError('view._base_indices not found (anchor vanished)')
    premise = all(writes_back(fi) for fi in base_defs)
    ctx.extra['base_indices_writes_back'] = premise
    if not premise:
        refresh = set()

    def refresh_nodes(cfg):
        out = set()
        for nd in cfg.nodes:
            for x in subnodes(cfg, nd):
                if isinstance(x, ast.Call) and isinstance(x.func, ast.Attribute) and norm(x.func.value) == 'self' and x.func.attr in refresh:
                    out.add(nd.id)
                elif isinstance(x, ast.Attribute) and isinstance(x.ctx, ast.Load) and norm(x.value) == 'self' and x.attr in refresh & props:
                    out.add(nd.id)
        return out

    cond_refresh = set()     # methods / properties that have refreshed whenever they return True (`is_one`)

    def refresh_edges(cfg):
        """(node id, label) edges on which `self.<cond refresher>` is known to have returned True."""
        out = set()
        for nd in cfg.nodes:
            if nd.kind != 'test' or nd.ast is None:
                continue
            t = nd.ast if isinstance(nd.ast, ast.expr) else getattr(nd.ast, 'test', None)
            neg = False
            if isinstance(t, ast.UnaryOp) and isinstance(t.op, ast.Not):
                t, neg = t.operand, True
            if isinstance(t, ast.Attribute) and norm(t.value) == 'self' and t.attr in cond_refresh:
                out.add((nd.id, 'false' if neg else 'true'))
        return out

    cfgs = {}
    changed = True
    while changed:
        changed = False
        for name, fis in methods.items():
            if name in refresh or name == '__init__':
                continue
            allm = True
            for fi in fis:
                cfg = cfgs.setdefault(id(fi.node), CFG(fi.node))
                rn = refresh_nodes(cfg)
                reach = cfg.reachable(cfg.entry, lambda n, lab, s: lab != 'exc', stop=rn)
                if cfg.exit in reach:
                    allm = False
            if allm:
                refresh.add(name)
                changed = True
    for name, fis in methods.items():
        if name in refresh:
            continue
        good = True
        seen_true = False
        for fi in fis:
            cfg = cfgs.setdefault(id(fi.node), CFG(fi.node))
            rn = refresh_nodes(cfg)
            unref = cfg.reachable(cfg.entry, lambda n_, lab, s: lab != 'exc', stop=rn) | {cfg.entry}
            for nd in cfg.nodes:
                if nd.kind == 'stmt' and isinstance(nd.ast, ast.Return):
                    v = nd.ast.value
                    if isinstance(v, ast.Constant) and v.value is True:
                        seen_true = True
                        if nd.id in unref and nd.id not in rn:
                            good = False
                    elif not (isinstance(v, ast.Constant) and v.value is False):
                        good = False
        if good and seen_true:
            cond_refresh.add(name)
    n = 0
    # a private worker of the class (`self._worker(...)`) that every call site enters with freshly clipped indices starts refreshed
    def unrefreshed_of(fi):
        cfg = cfgs.setdefault(id(fi.node), CFG(fi.node))
        rn = refresh_nodes(cfg)
        re_ = refresh_edges(cfg)
        return cfg, rn, cfg.reachable(cfg.entry, lambda n_, lab, s: (n_.id, lab) not in re_, stop=rn) | {cfg.entry}
    entered_refreshed = set()
    for name, fis in methods.items():
        if not name.startswith('_') or name.startswith('__') or name in refresh or name in cond_refresh:
            continue
        sites = []
        for cname, cfis in methods.items():
            for cfi in cfis:
                ccfg, crn, cun = unrefreshed_of(cfi)
                for nd in ccfg.nodes:
                    for x in subnodes(ccfg, nd):
                        if isinstance(x, ast.Call) and isinstance(x.func, ast.Attribute) and x.func.attr == name and norm(x.func.value) == 'self':
                            sites.append(nd.id not in cun or nd.id in crn)
        if sites and all(sites):
            entered_refreshed.add(name)
    for name, fis in methods.items():
        if name in ('__init__', '_base_indices'):
            continue
        for fi in fis:
            cfg = cfgs.setdefault(id(fi.node), CFG(fi.node))
            par = parent_map(fi.node)
            rn = refresh_nodes(cfg)
            re_ = refresh_edges(cfg)
            unrefreshed = cfg.reachable(cfg.entry, lambda n_, lab, s: (n_.id, lab) not in re_, stop=rn) | {cfg.entry}
            if name in entered_refreshed:
                unrefreshed = set()
            for nd in cfg.nodes:
                for x in subnodes(cfg, nd):
                    if isinstance(x, ast.Attribute) and x.attr in ('_start', '_stop') and norm(x.value) == 'self' and isinstance(x.ctx, ast.Load):
                        p = par.get(x)
                        if isinstance(p, ast.Compare) and len(p.ops) == 1 and isinstance(p.ops[0], (ast.Is, ast.IsNot)) and \
                                isinstance(p.comparators[0], ast.Constant) and p.comparators[0].value is None:
                            continue   # "pinned to the end?" test, not an index use
                        n += 1
                        ok = nd.id not in unrefreshed or nd.id in rn
                        ctx.check('R2.4', ok, fi.module, fi.qualname, f'{norm(p if p is not None else x, 60)}',
                                  'a raw view index is used without first re-clipping it to the current field length: after the field '
                                  'shrank elsewhere the view reads past the end / addresses other elements', x.lineno,
                                  sample={'method': fi.key, 'read': norm(x), 'refreshers': sorted(refresh)[:12], 'conditional': sorted(cond_refresh)})
                    elif isinstance(x, ast.AugAssign) and isinstance(x.target, ast.Attribute) and x.target.attr in ('_start', '_stop') and \
                            norm(x.target.value) == 'self':
                        n += 1
                        ok = nd.id not in unrefreshed or nd.id in rn
                        ctx.check('R2.4', ok, fi.module, fi.qualname, norm(x, 60),
                                  'a raw view index is adjusted without having been re-clipped to the current field length first', x.lineno,
                                  sample={'method': fi.key, 'read': norm(x.target)})
    if n < 5 and premise:
        raise AnalysisError(f'only {n} raw view index reads found')


# ----------------------------------------------------------------------------------------------------------------------
# R2.5 / R2.6

def check_offset_walk(ctx):
    ctx.rule('R2.5', 'in _offset the per-node memo clear dominates both "ends before the offset point" exits; zero delta => _touchall()', 3)
    for fi in ctx.repo.funcs('fst_core', '_offset'):
        cfg = CFG(fi.node)
        clears = {nd.id for nd in cfg.nodes if any(isinstance(x, ast.Call) and isinstance(x.func, ast.Attribute) and
                                                   ((call_name(x) == 'clear' and norm(x.func.value).endswith('._cache')) or
                                                    (call_name(x) == '_touch' and norm(x.func.value) != 'self'))
                                                   for x in subnodes(cfg, nd))}
        if not clears:
            raise AnalysisError('_offset: per-node memo flush (`<node>._cache.clear()` / `<node>._touch()`) not found')
        # the loop head that binds the walk variable: `if not (a := stack.pop())`
        heads = [nd for nd in cfg.nodes if any(isinstance(x, ast.NamedExpr) and isinstance(x.value, ast.Call) and call_name(x.value) == 'pop'
                                               for x in subnodes(cfg, nd))]
        if len(heads) != 1:
            raise AnalysisError('_offset: walk head `(a := stack.pop())` not found')
        head = heads[0]
        unflushed = cfg.reachable(head.id, lambda n, lab, s: lab != 'exc', stop=clears | {head.id})
        breaks = [nd for nd in cfg.nodes if isinstance(nd.ast, ast.Break)]
        if len(breaks) < 2:
            raise AnalysisError('_offset: the two early `break`s not found')
        for k, nd in enumerate(sorted(breaks, key=lambda b: b.lineno)):
            ctx.check('R2.5', nd.id not in unflushed, fi.module, fi.qualname, f'break#{k + 1}',
                      'the walk leaves a node that ends at / before the offset point without clearing its memo: its pars() / bloc depend on the '
                      'text that follows it (closing parentheses, trailing comment), which is exactly what was just edited', nd.lineno,
                      sample={'function': fi.key, 'line': nd.lineno})
        # position stores in the walk are covered by R2.1; zero-delta early return
        rets = [nd for nd in cfg.nodes if isinstance(nd.ast, ast.Return) and nd.ast.value is None]
        found = False
        par = parent_map(fi.node)
        for nd in rets:
            p = par.get(nd.ast)
            if isinstance(p, ast.If) and 'dln' in norm(p.test) and 'dcol_offset' in norm(p.test):
                found = True
                body = p.body
                okk = any(isinstance(s, ast.Expr) and isinstance(s.value, ast.Call) and call_name(s.value) == '_touchall' and
                          not s.value.args and not s.value.keywords and norm(s.value.func.value) == 'self' for s in body[:body.index(nd.ast)])
                ctx.check('R2.5', okk, fi.module, fi.qualname, 'zero-delta return',
                          '_offset() doubles as the cache flush of _put_src(); with a zero delta it returns without walking, so it must flush '
                          'the whole subtree explicitly', nd.lineno)
        if not found:
            raise AnalysisError('_offset: zero-delta early return not found')


def clears_all_ancestors(fi) -> bool:
    """Helper whose body is `while (x := x.parent): x._touch()/x._cache.clear()` with no further condition."""
    for n in walk_no_nested(fi.node):
        if isinstance(n, ast.While):
            t = n.test
            if isinstance(t, ast.NamedExpr) and isinstance(t.value, ast.Attribute) and t.value.attr == 'parent' and \
                    isinstance(t.value.value, ast.Name) and t.value.value.id == t.target.id:
                v = t.target.id
                first = n.body[0] if n.body else None
                if isinstance(first, ast.Expr) and isinstance(first.value, ast.Call):
                    c = first.value
                    if (call_name(c) == '_touch' and norm(c.func.value) == v) or (call_name(c) == 'clear' and norm(c.func.value) == v + '._cache'):
                        return True
    return False


def check_unsynced_put(ctx, res):
    ctx.rule('R2.6', 'a non-offsetting text splice on the live tree is followed by a flush of all ancestors of the receiver', 3)
    n = 0
    for fi in ctx.repo.all_funcs():
        if isinstance(fi.node, ast.Lambda):
            continue
        def eol_splice(c):
            # end column = the "to end of line" sentinel: the splice rewrites trailing trivia, which lies after the end of every node on the
            # line; a position-driven flush stops at nodes that end before the splice, but the bloc of every enclosing block includes it
            pa = pos_args(c)
            return len(pa) >= 5 and isinstance(pa[4], ast.Constant) and isinstance(pa[4].value, int) and pa[4].value >= 0x7fffffff

        sites = [c for c in walk_no_nested(fi.node) if isinstance(c, ast.Call) and call_name(c) == '_put_src' and isinstance(c.func, ast.Attribute)
                 and norm(c.func.value) == 'self' and (not put_src_offsets(c) or eol_splice(c))]
        if not sites or fi.name == '_put_src':
            continue
        cfg = CFG(fi.node)
        good = set()
        for nd in cfg.nodes:
            for x in subnodes(cfg, nd):
                if not isinstance(x, ast.Call):
                    continue
                cn = call_name(x)
                if cn == '_touchall' and isinstance(x.func, ast.Attribute) and norm(x.func.value) == 'self':
                    p0 = x.args[0] if x.args else next((k.value for k in x.keywords if k.arg == 'parents'), None)
                    if p0 is None or (isinstance(p0, ast.Constant) and p0.value is True):
                        good.add(nd.id)
                elif cn and (any(norm(a) == 'self' for a in x.args) or (isinstance(x.func, ast.Attribute) and norm(x.func.value) == 'self')):
                    for callee in res.resolve(x, fi):
                        if clears_all_ancestors(callee):
                            good.add(nd.id)
        for c in sites:
            n += 1
            nds = [nd for nd in cfg.nodes if any(x is c for x in subnodes(cfg, nd))]
            okk = all(cfg.exit not in cfg.reachable(nd.id, lambda n_, lab, s: lab != 'exc', stop=good) for nd in nds)
            ctx.check('R2.6', okk, fi.module, fi.qualname, norm(c, 70),
                      'text on the last line of a statement is replaced without walking the tree; the bounding location (bloc) of every '
                      'enclosing node may include that text, so all ancestors must be flushed on every path', c.lineno,
                      sample={'function': fi.key, 'splice': norm(c, 70)})
    if n < 3:
        raise AnalysisError(f'only {n} non-offsetting splices on self found')


R27_REVIEWED = {
    ('fst', 'FST.strip'):
        'root only; removes text outside the (parenthesised) extent of the root node: no cached loc / pars / bloc of any node reaches into it '
        '(probed on statement, block and expression roots with populated memos)',
    ('fst_get_slice', '_fix_naked_expr'):
        'rewrites a line that holds nothing but whitespace and a line continuation (the regex matched the whole prefix); no node text, no '
        'parenthesis, no comment on it',
    ('fst_misc', '_maybe_add_line_continuations'):
        'only end-of-line trivia after the last expression column changes (comment removed / continuation added); pars() skips comments and '
        'continuations alike and bloc of expression nodes equals loc',
    ('fst_misc', '_fix_undelimited_seq'):
        'a space inside the extent of the empty sequence is overwritten by its own delimiter: positions and grouping-parenthesis count of '
        'every node are unchanged',
}


def check_direct_text_stores(ctx):
    ctx.rule('R2.7', 'a direct store into the live line list of the tree of `self` is covered by a flush of `self`', 6)
    exempt = {'_put_src', '_indent_lns', '_dedent_lns', '_redent_lns'}
    n = 0
    for fi in ctx.repo.all_funcs():
        if isinstance(fi.node, ast.Lambda) or fi.module in SKIP_MODULES | {'common', 'astutil', 'code'} or fi.name in exempt:
            continue
        if 'self' not in fi.params()[:1]:
            continue
        binds = {}
        for t, v in _assign_pairs(fi.node):
            if isinstance(t, ast.Name):
                binds.setdefault(t.id, []).append(v)
        roots = {'self'} | {k for k, vs in binds.items() if all(isinstance(v, ast.Attribute) and v.attr == 'root' and norm(v.value) == 'self' for v in vs)}
        live = {k for k, vs in binds.items()
                if all(isinstance(v, ast.Attribute) and v.attr == '_lines' and
                       (norm(v.value) in roots or (isinstance(v.value, ast.Attribute) and v.value.attr == 'root' and norm(v.value.value) == 'self')) for v in vs)}
        if not live:
            continue
        stores = []
        for x in walk_no_nested(fi.node):
            tg = []
            if isinstance(x, ast.Assign):
                tg = x.targets
            elif isinstance(x, ast.AugAssign):
                tg = [x.target]
            elif isinstance(x, ast.Delete):
                tg = x.targets
            for t in tg:
                for tt in (t.elts if isinstance(t, ast.Tuple) else [t]):
                    if isinstance(tt, ast.Subscript) and isinstance(tt.value, ast.Name) and tt.value.id in live:
                        stores.append(x)
            if isinstance(x, ast.Call) and isinstance(x.func, ast.Attribute) and x.func.attr in ('insert', 'append', 'extend', 'pop') and \
                    isinstance(x.func.value, ast.Name) and x.func.value.id in live:
                stores.append(x)
        if not stores:
            continue
        cfg = CFG(fi.node)
        etext, own = 'self.a', {'self', 'self.a.f'}
        events = {nd.id: node_events(cfg, nd, etext, own, set()) for nd in cfg.nodes}
        # removing / inserting whole lines changes the extent of the root (whole-source location) rather than the text next to `self`:
        # there a flush of the root alias covers it
        own_root = own | (roots - {'self'}) | {'self.root'}
        events_root = {nd.id: node_events(cfg, nd, etext, own_root, set()) for nd in cfg.nodes}
        # any flush of the tree (root-level touchall / offset of anything) counts as covering `self`
        for nd in cfg.nodes:
            for x in subnodes(cfg, nd):
                if isinstance(x, ast.Call) and call_name(x) in ('_touchall', '_offset_lns', '_reparse_docstr_Constants'):
                    events[nd.id].add('cflush')
                    events_root[nd.id].add('cflush')
        seen = set()
        for st in stores:
            for nd in cfg.nodes:
                if nd.id in seen or not any(x is st for x in subnodes(cfg, nd)):
                    continue
                seen.add(nd.id)
                n += 1
                whole_lines = isinstance(st, (ast.Delete, ast.Call))
                ins = store_flow(cfg, events_root if whole_lines else events, nd.id, own_root if whole_lines else own)
                if ins.get(nd.id) is None:
                    continue
                ex = ins.get(cfg.exit)
                ok = ex is None or not (ex[2] or ex[3] or ex[4])
                rv = R27_REVIEWED.get((fi.module, fi.qualname.split('[')[0]))
                ctx.check('R2.7', ok or bool(rv), fi.module, fi.qualname, norm(st, 70),
                          'source text of the live tree is rewritten in place with no flush of the node being worked on: its cached pars() / '
                          'bloc were computed from the old text', st.lineno,
                          sample={'function': fi.key, 'store': norm(st, 70), 'reviewed': rv})
                # R2.7b: the text lies inside every ancestor of `self` as well; their memos (a with-item's location is computed from the
                # parentheses of its expression, a block's bloc from its last line) are as stale as its own
                rootonly = any(isinstance(a_, ast.Assert) and norm(a_.test) in ('not self.parent', 'self.is_root', 'self.parent is None')
                               for a_ in fi.node.body)       # asserted to be called on a root: there are no ancestors
                if not whole_lines and not rv and not rootonly and fi.name != '_touchall':
                    anc = set()
                    for nd2 in cfg.nodes:
                        for x in subnodes(cfg, nd2):
                            if not isinstance(x, ast.Call):
                                continue
                            cn = call_name(x)
                            if cn == '_touchall':
                                p0 = x.args[0] if x.args else next((k.value for k in x.keywords if k.arg == 'parents'), None)
                                if p0 is None or (isinstance(p0, ast.Constant) and p0.value is True):
                                    anc.add(nd2.id)
                            elif cn in ('_offset', '_offset_lns', '_put_src', '_reparse_docstr_Constants', '_set_ast', '_fix_joined_alnums') or \
                                    (cn and cn.startswith(('_parenthesize', '_unparenthesize', '_delimit', '_undelimit'))):
                                anc.add(nd2.id)       # position-driven walks clear the memo of every node that contains the point
                    okb = cfg.exit not in cfg.reachable(nd.id, lambda n_, lab, s: lab != 'exc', stop=anc) or nd.id in anc
                    ctx.check('R2.7', okb, fi.module, fi.qualname, 'ancestors: ' + norm(st, 60),
                              'source text of the live tree is rewritten in place and a path leaves the function without flushing the ancestors of the '
                              'node: a memo of theirs that was computed from that text (the location of a with-item or comprehension is found from '
                              'the parentheses of its first expression) is served stale', st.lineno,
                              sample={'function': fi.key, 'store': norm(st, 70)})
    if n < 6:
        raise AnalysisError(f'only {n} direct live-line stores found')


def check_memo_keys(ctx):
    """R2.8 - a computed memo key (`key = f(args)`; `self._cache[key] = value`) is computed from the same argument values the memoised
    value is computed from: none of the names the key expression reads is rebound between the key and the store (a default resolved
    *after* the key was built files the result under the wrong key and serves it to later calls made with other values)."""
    ctx.rule('R2.8', 'names a computed memo key is built from are not rebound between the key computation and the store under that key', 3)
    n = 0
    for fi in ctx.repo.all_funcs():
        if isinstance(fi.node, ast.Lambda):
            continue
        stores = []
        for x in walk_no_nested(fi.node):
            for t in _targets(x):
                if isinstance(t, ast.Subscript) and isinstance(t.value, ast.Attribute) and t.value.attr == '_cache' and isinstance(t.slice, ast.Name):
                    stores.append((x, t.slice.id))
        if not stores:
            continue
        cfg = CFG(fi.node)
        node_of = {}
        for nd in cfg.nodes:
            for y in subnodes(cfg, nd):
                node_of[id(y)] = nd
        for st, key in stores:
            kdefs = [x for x in walk_no_nested(fi.node) if isinstance(x, ast.Assign) and isinstance(x.targets[0], ast.Name) and x.targets[0].id == key]
            if len(kdefs) != 1 or id(kdefs[0]) not in node_of or id(st) not in node_of:
                continue
            kd = kdefs[0]
            deps = {y.id for y in ast.walk(kd.value) if isinstance(y, ast.Name) and isinstance(y.ctx, ast.Load)} & \
                   {y.id for y in walk_no_nested(fi.node) if isinstance(y, ast.Name) and isinstance(y.ctx, ast.Store)} | \
                   ({y.id for y in ast.walk(kd.value) if isinstance(y, ast.Name)} & set(fi.params()))
            n += 1
            kn, sn = node_of[id(kd)].id, node_of[id(st)].id
            between = cfg.reachable(kn, lambda n_, lab, s: lab != 'exc', stop={sn})
            bad = None
            for nd in cfg.nodes:
                if nd.id in between and nd.id not in (kn, sn):
                    # only nodes from which the store is still reachable matter
                    if sn not in cfg.reachable(nd.id, lambda n_, lab, s: lab != 'exc'):
                        continue
                    for y in subnodes(cfg, nd):
                        if isinstance(y, ast.Name) and isinstance(y.ctx, ast.Store) and y.id in deps:
                            bad = (y.id, nd.lineno)
            # every arm of a computed key is live: in `A if t1 else B if t2 else C` t2 must not be the plain negation (or a repetition) of t1,
            # otherwise two argument values share one slot and the third key is never used
            dead = None
            e = kd.value
            seen_tests = []
            while isinstance(e, ast.IfExp):
                t = e.test
                for pt in seen_tests:
                    if norm(t) == norm(pt) or (isinstance(t, ast.UnaryOp) and isinstance(t.op, ast.Not) and norm(t.operand) == norm(pt)) or \
                            (isinstance(pt, ast.UnaryOp) and isinstance(pt.op, ast.Not) and norm(pt.operand) == norm(t)):
                        dead = norm(e.orelse if not norm(t) == norm(pt) else e.body, 30)
                seen_tests.append(t)
                e = e.orelse
            ctx.check('R2.8', dead is None, fi.module, fi.qualname, f'{key} = {norm(kd.value, 60)} (arms)',
                      f'the key expression can never evaluate to {dead}: a test repeats / negates an earlier one, so two different argument values are '
                      f'filed under the same key and the answer computed for one is served for the other', kd.lineno)
            ctx.check('R2.8', bad is None, fi.module, fi.qualname, f'{key} = {norm(kd.value, 60)}',
                      f'`{bad[0] if bad else ""}` is rebound (line {bad[1] if bad else 0}) after the memo key was built from it and before the result is stored '
                      f'under that key: the result computed for the new value is served to later calls that ask with the old one', st.lineno,
                      sample={'function': fi.key, 'key': norm(kd.value, 60), 'depends_on': sorted(deps)})
    if n < 1:
        raise AnalysisError('no computed memo key found')


def run(ctx):
    ctx.not_decided += ['equality of loc / bloc / pars / own_src / navigation / view answers with a fresh parse of the current source',
                        'whether a position-driven range flush (_offset from the root) reaches a particular node',
                        'root identity across edits (C10 R10.3 decides the raw path; structured paths never rebind the root object)']
    from ..callgraph import Resolver
    F = T.fields(ctx)
    res = Resolver(ctx.repo, ctx.ev)
    check_position_stores(ctx)
    check_links(ctx, F)
    check_memo(ctx)
    check_views(ctx)
    check_offset_walk(ctx)
    check_unsynced_put(ctx, res)
    check_direct_text_stores(ctx)
    check_memo_keys(ctx)
    check_memo_key_covers_params(ctx)
    check_memo_option_reads(ctx)
    check_reindent_refresh(ctx)


def check_memo_key_covers_params(ctx):
    """R2.9 - a function that memoises its result in the node memo files it under a key that tells apart every argument the result depends on.
    A parameter that is read on a path to the memo store (other than to build the key or to resolve its own default) and does not flow into
    the key makes two different questions share one slot: whichever is asked first is answered to both until the next flush."""
    ctx.rule('R2.9', 'every parameter read on the way to a memo store flows into the key the result is stored under', 1)
    n = 0
    for fi in ctx.repo.all_funcs():
        if isinstance(fi.node, ast.Lambda):
            continue
        ps = [p for p in fi.params() if p not in ('self', 'cls')]
        stores = []
        aliases = {'self._cache'} | {norm(x.targets[0]) for x in walk_no_nested(fi.node) if isinstance(x, ast.Assign) and len(x.targets) == 1 and
                                     isinstance(x.targets[0], ast.Name) and norm(x.value) == 'self._cache'}
        for x in walk_no_nested(fi.node):
            for t in _targets(x):
                if isinstance(t, ast.Subscript) and norm(t.value) in aliases:
                    stores.append((x, t.slice))
        if not stores:
            continue
        cfg = CFG(fi.node)
        node_of = {}
        for nd in cfg.nodes:
            for y in subnodes(cfg, nd):
                node_of.setdefault(id(y), nd)
        binds = {}
        for x in walk_no_nested(fi.node):
            if isinstance(x, ast.Assign) and len(x.targets) == 1 and isinstance(x.targets[0], ast.Name):
                binds.setdefault(x.targets[0].id, []).append(x)
            elif isinstance(x, ast.NamedExpr):
                binds.setdefault(x.target.id, []).append(x)
        for st, key in stores:
            if id(st) not in node_of:
                continue
            # names the key is built from, through the locals that feed it
            kdeps, work, kstmts = set(), [key], set()
            while work:
                e = work.pop()
                for y in ast.walk(e):
                    if isinstance(y, ast.Name) and y.id not in kdeps:
                        kdeps.add(y.id)
                        for b in binds.get(y.id, []):
                            if y.id not in ps:
                                kstmts.add(id(b))
                                work.append(b.value)
            sn = node_of[id(st)].id
            before = {nd.id for nd in cfg.nodes if sn in cfg.reachable(nd.id, lambda n_, lab, s: lab != 'exc')} | {sn}
            n += 1
            for p_ in ps:
                if p_ in kdeps:
                    continue
                reads = []
                for nd in cfg.nodes:
                    if nd.id not in before:
                        continue
                    for y in subnodes(cfg, nd):
                        if isinstance(y, ast.Name) and y.id == p_ and isinstance(y.ctx, ast.Load):
                            reads.append((nd, y))
                # reading a parameter only to resolve its own default (`if p is None: p = ...`) is not a use of its value
                own = set()
                for b in binds.get(p_, []):
                    own.add(id(b))
                real = []
                par = None
                for nd, y in reads:
                    par = par or parent_map(fi.node)
                    cur, skip = y, False
                    while cur in par:
                        cur = par[cur]
                        if id(cur) in kstmts:
                            skip = True
                        if isinstance(cur, ast.If) and all(isinstance(b, ast.Assign) and id(b) in own for b in cur.body) and not cur.orelse and \
                                any(z is y for z in ast.walk(cur.test)):
                            skip = True
                    if not skip and nd.kind == 'test':
                        # a test whose one outcome leaves the function only decides *whether* the store is reached, not what is stored
                        outs = {lab: sn == s_ or sn in cfg.reachable(s_, lambda n_, lab_, s2: lab_ != 'exc') for lab, s_ in nd.succ if lab in ('true', 'false')}
                        if len(outs) == 2 and not all(outs.values()):
                            skip = True
                    if not skip:
                        real.append(y)
                ctx.check('R2.9', not real, fi.module, fi.qualname, f'memo key {norm(key, 40)} vs parameter `{p_}`',
                          f'`{p_}` is read (line {real[0].lineno if real else 0}) before the result is stored under the key `{norm(key, 40)}`, and the key is '
                          f'not built from it: calls that differ only in `{p_}` share the slot, the answer computed for the first is served to the others '
                          f'until the node is flushed', st.lineno, sample={'function': fi.key, 'key': norm(key, 60), 'key_depends_on': sorted(kdeps & set(ps))})
    if n < 2:
        raise AnalysisError(f'only {n} memo stores found')


def check_memo_option_reads(ctx):
    """R2.10 - a memoised value that is computed from a *default* option (`get_option(name)` with no per-call mapping: the thread's default, or the one
    an `options()` block set) is filed under a key built from the value that was read.  Filed under anything else - a constant, the unresolved
    parameter (`None` = "use the default") - it outlives the block / the thread that asked and is served to callers for whom the default is
    another."""
    ctx.rule('R2.10', 'a memo value that depends on a default option read is stored under a key built from that read', 1)

    def is_default_read(c):
        return isinstance(c, ast.Call) and call_name(c) == 'get_option' and len(c.args) == 1 and not c.keywords
    n = 0
    for fi in ctx.repo.all_funcs():
        if isinstance(fi.node, ast.Lambda) or not any(isinstance(x, ast.Attribute) and x.attr == '_cache' for x in walk_no_nested(fi.node)):
            continue
        binds = {}
        for x in walk_no_nested(fi.node):
            if isinstance(x, ast.Assign):
                for t in x.targets:
                    for y in ast.walk(t):
                        if isinstance(y, ast.Name):
                            binds.setdefault(y.id, []).append(x.value)
            elif isinstance(x, ast.NamedExpr):
                binds.setdefault(x.target.id, []).append(x.value)
        # containers that live in the memo: self._cache itself and locals bound from / stored into it
        memo = {'self._cache'}
        changed = True
        while changed:
            changed = False
            for nm, vals in binds.items():
                if nm in memo:
                    continue
                def takes_out(v):
                    # the value *is* something kept in the memo: `self._cache[k]`, `self._cache.get(k)`, a memo local itself (also through unpacking)
                    if isinstance(v, ast.NamedExpr):
                        return takes_out(v.value)
                    if isinstance(v, ast.Name):
                        return v.id in memo
                    if isinstance(v, ast.Subscript):
                        return norm(v.value) in memo
                    if isinstance(v, ast.Call) and isinstance(v.func, ast.Attribute) and v.func.attr == 'get':
                        return norm(v.func.value) in memo
                    return False
                if any(takes_out(v) for v in vals):
                    memo.add(nm)
                    changed = True
            for x in walk_no_nested(fi.node):
                for t in _targets(x):
                    if isinstance(t, ast.Subscript) and norm(t.value) in memo:
                        v = getattr(x, 'value', None)
                        for y in ast.walk(v) if v is not None else ():
                            if isinstance(y, ast.Name) and y.id in binds and y.id not in memo and any(isinstance(b, (ast.Dict, ast.List, ast.Set)) or
                                                                                                      (isinstance(b, ast.Call) and call_name(b) in ('dict', 'list', 'set'))
                                                                                                      for b in binds[y.id]):
                                memo.add(y.id)
                                changed = True

        def slice_of(e):
            """(names, default reads) the expression depends on, through the locals that feed it"""
            names, reads, work = set(), [], [e]
            while work:
                z = work.pop()
                for y in ast.walk(z):
                    if is_default_read(y):
                        reads.append(y)
                    elif isinstance(y, ast.Name) and y.id not in names:
                        names.add(y.id)
                        # bindings that only take the value back out of the memo (`dedent, lns = cached`) say nothing about how it was computed
                        work.extend(b for b in binds.get(y.id, []) if not (isinstance(b, ast.Name) and b.id in memo) and
                                    not any(isinstance(q, ast.Attribute) and q.attr == '_cache' for q in ast.walk(b)))
            return names, reads
        for x in walk_no_nested(fi.node):
            for t in _targets(x):
                if not (isinstance(t, ast.Subscript) and norm(t.value) in memo and getattr(x, 'value', None) is not None):
                    continue
                vnames, vreads = slice_of(x.value)
                if not vreads:
                    continue
                n += 1
                knames, kreads = slice_of(t.slice)
                # the option value must reach the key: through a local both depend on that is bound from the read, or the same read in the key
                carried = {nm for nm in vnames & knames if any(is_default_read(y) for b in binds.get(nm, []) for y in ast.walk(b))}
                free = [r for r in vreads if not any(any(y is r for y in ast.walk(b)) for nm in carried for b in binds.get(nm, []))
                        and not any(norm(r) == norm(k) for k in kreads)]
                ctx.check('R2.10', not free, fi.module, fi.qualname, f'memo value under {norm(t, 50)} reads {norm(free[0]) if free else "the default through the key"}',
                          f'the value stored under `{norm(t, 50)}` is computed from `{norm(free[0]) if free else ""}` (the default in effect when it was computed) but '
                          f'the key is not built from what was read: the entry outlives the options() block or the thread whose default it was and is '
                          f'served to callers with another default until the node is flushed', x.lineno, sample={'function': fi.key, 'key': norm(t.slice, 50)})
    if n < 1:
        raise AnalysisError('no memo value that depends on a default option read found (own_lines expected)')


def check_reindent_refresh(ctx):
    """R2.11 — the value of a multi-line docstring depends on the indentation of its continuation lines.  A function that re-indents the
    indentable lines of a live tree (it asks `_get_indentable_lns` which lines to touch - docstring lines are among them when `docstr` says
    so - and rewrites them in the line list) changes those values in the source; `Constant.value`, and with it `get_docstr()`, must be
    re-evaluated from the source before the edit returns (`_reparse_docstr_Constants`).  Decided as a must-pass obligation that may be
    discharged by the re-indenting function itself or by its callers: a function that leaves the obligation open hands it to every caller;
    it is reported where no caller is left to take it."""
    from ..cfg import CFG, subnodes
    ctx.rule('R2.11', 'every path from a re-indentation of indentable (docstring-bearing) lines of a live tree to the end of the edit passes '
                      'the re-evaluation of docstring values (in the re-indenting function or in every caller chain)', 3)
    REFRESH = '_reparse_docstr_Constants'
    if not ctx.repo.find_funcs('fst_core', REFRESH):
        raise AnalysisError(f'fst_core.{REFRESH} not found (anchor vanished)')
    allf = [fi for fi in ctx.repo.all_funcs() if not isinstance(fi.node, ast.Lambda)]

    def is_line_store(x):
        if isinstance(x, ast.Assign):
            for tg in x.targets:
                if isinstance(tg, ast.Subscript) and isinstance(tg.value, ast.Name) and tg.value.id in ('lines', '_lines'):
                    return True
                if isinstance(tg, ast.Subscript) and isinstance(tg.value, ast.Attribute) and tg.value.attr == '_lines':
                    return True
        return False
    base = []
    for fi in allf:
        body = list(walk_no_nested(fi.node))
        live = {tg.id for x in body if isinstance(x, ast.Assign) and isinstance(x.value, ast.Attribute) and x.value.attr == '_lines'
                for tg in x.targets if isinstance(tg, ast.Name)}       # `lines = root._lines`: the live list, not a copy / a fresh list of source
        def on_live(x):
            return any(isinstance(tg, ast.Subscript) and ((isinstance(tg.value, ast.Name) and tg.value.id in live) or
                                                          (isinstance(tg.value, ast.Attribute) and tg.value.attr == '_lines')) for tg in x.targets)
        if any(isinstance(x, ast.Call) and call_name(x) == '_get_indentable_lns' for x in body) and \
                any(is_line_store(x) and on_live(x) for x in body) and 'docstr' in fi.params():
            base.append(fi)
    if len(base) < 3:
        raise AnalysisError(f'only {len(base)} functions re-indent indentable lines in place (>= 3 expected: indent / dedent / redent)')

    def escapes(fi, is_start):
        """A statement satisfying is_start from which the function exit is reachable on normal edges without passing a refresh call (None if none)."""
        cfg = CFG(fi.node)
        rep = {n.id for n in cfg.nodes if any(isinstance(x, ast.Call) and call_name(x) == REFRESH for x in subnodes(cfg, n))}
        for n in cfg.nodes:
            if n.id in rep or not any(is_start(x) for x in subnodes(cfg, n)):
                continue
            r = cfg.reachable(n.id, lambda a, lab, s: lab != 'exc' and (a.id == n.id or a.id not in rep))
            if cfg.exit in r:
                return n
        return None
    needy = {}      # function name -> (fi, how the obligation arose)
    for fi in base:
        n = escapes(fi, is_line_store)
        if n is None:
            ctx.ok('R2.11', f'{fi.module}|{fi.qualname}|refreshes itself', sample={'function': fi.key})
        else:
            needy[fi.name] = (fi, f'{fi.qualname}() rewrites indentable lines (line {n.lineno}) and can return without {REFRESH}()')
    changed = True
    rounds = 0
    while changed and needy and rounds < 8:
        changed = False
        rounds += 1
        for fi in allf:
            if fi.name in needy:
                continue
            # `docstr=False` at the call: docstring lines are not among the indentable lines, no value changes, nothing to refresh
            n = escapes(fi, lambda x: isinstance(x, ast.Call) and call_name(x) in needy and
                        not any(k.arg == 'docstr' and isinstance(k.value, ast.Constant) and k.value.value is False for k in x.keywords))
            if n is not None:
                g = next(call_name(x) for x in ast.walk(n.ast) if isinstance(x, ast.Call) and call_name(x) in needy) if n.ast is not None else '?'
                needy[fi.name] = (fi, f'{fi.qualname}() calls {g}() (line {n.lineno}) and can return without {REFRESH}(); ' + needy[g][1])
                changed = True
    called = set()
    for fi in allf:
        for x in walk_no_nested(fi.node):
            if isinstance(x, ast.Call) and call_name(x) in needy and call_name(x) != fi.name and \
                    not any(k.arg == 'docstr' and isinstance(k.value, ast.Constant) and k.value.value is False for k in x.keywords):
                called.add(call_name(x))
    called_any = {call_name(x) for fi in allf for x in walk_no_nested(fi.node) if isinstance(x, ast.Call) and call_name(x) in needy and call_name(x) != fi.name}
    for name, (fi, how) in sorted(needy.items()):
        if name in called or name in called_any:       # called_any only: every caller passes docstr=False, the obligation is void
            continue       # some caller exists and every caller was examined: the open ends are reported at the top of the chains
        ctx.bad('R2.11', fi.module, fi.qualname, f're-indentation without docstring refresh via {fi.qualname}',
                f'docstring values are left stale: {how}. A multi-line docstring inside the re-indented lines keeps its old `Constant.value`; '
                f'get_docstr() and a fresh parse of the same source disagree', fi.lineno)
    ctx.extra['reindent_functions'] = sorted(fi.key for fi in base)
    ctx.extra['open_refresh_obligations'] = sorted(needy)
