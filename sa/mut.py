"""Development helper: run a property's rules against the tree with a textual substitution applied in memory."""
import importlib, sys
from .model import Repo
from . import engine


def run_with(prop, module, old, new, count=1):
    src = Repo.read_sources()
    s = src[module]
    assert s.count(old) >= 1, 'pattern not found'
    src[module] = s.replace(old, new, count)
    mod = importlib.import_module('sa.rules.' + prop.lower())
    code, ctx = engine.run_property(prop, mod, 'quick', repo=Repo(src), write=False, quiet=True)
    return code, ([f.text() for f in ctx.findings] if ctx else None)


if __name__ == '__main__':
    prop, module, old, new = sys.argv[1:5]
    code, fs = run_with(prop, module, old.encode().decode('unicode_escape'), new.encode().decode('unicode_escape'))
    print('exit', code)
    for f in fs or []:
        print('  ', f[:400])
