"""Inventory of module-level mutable state and of the run-time writers that can reach it (DESIGN R20.1)."""
from __future__ import annotations

import ast

from .model import Repo, FuncInfo, walk_no_nested, norm

MUTATORS = {'update', 'append', 'add', 'clear', 'pop', 'popitem', 'setdefault', 'extend', 'insert', 'remove', 'discard',
            'sort', 'reverse', 'difference_update', 'intersection_update', 'symmetric_difference_update', '__setitem__',
            '__delitem__', 'appendleft', 'popleft'}


def mutable_globals(repo: Repo) -> dict[tuple[str, str], ast.AST]:
    """{(module, name): defining value node} for module-level bindings to mutable containers or class instances."""
    out = {}
    for m in repo.modules.values():
        classes = set(m.classes)

        def visit(body):
            for st in body:
                if isinstance(st, (ast.Assign, ast.AnnAssign)):
                    val = st.value
                    tgs = st.targets if isinstance(st, ast.Assign) else [st.target]
                    if val is None:
                        continue
                    mut = False
                    if isinstance(val, (ast.Dict, ast.List, ast.Set, ast.ListComp, ast.SetComp, ast.DictComp)):
                        mut = True
                    elif isinstance(val, ast.Call):
                        f = val.func
                        fname = f.id if isinstance(f, ast.Name) else (f.attr if isinstance(f, ast.Attribute) else '')
                        if fname in ('dict', 'list', 'set', 'defaultdict', 'OrderedDict', 'deque', 'bytearray', 'nspace') or fname in classes:
                            mut = True
                    if mut:
                        for t in tgs:
                            if isinstance(t, ast.Name):
                                out[(m.name, t.id)] = val
                elif isinstance(st, ast.If):
                    visit(st.body)
                    visit(st.orelse)
                elif isinstance(st, ast.Try):
                    visit(st.body)
                    for h in st.handlers:
                        visit(h.body)
        visit(m.tree.body)
    return out


def resolve_global(repo: Repo, module: str, name: str, mg) -> tuple[str, str] | None:
    """Which (module, name) mutable global does `name` refer to inside `module` (directly or through an import)?"""
    if (module, name) in mg:
        return (module, name)
    imp = repo.modules[module].imports.get(name)
    if imp and imp[0].startswith('.') and imp[1]:
        tgt = imp[0].lstrip('.')
        if (tgt, imp[1]) in mg:
            return (tgt, imp[1])
    return None


def writers(repo: Repo, mg=None):
    """Yield (global key, FuncInfo, node, kind) for every statement inside a function that can modify a mutable global:
    subscript store / delete, mutating method call, attribute store, augmented assignment, `global` rebinding - on the
    name itself, on `NAME.__dict__` / `NAME.attr`, or on a local alias of either."""
    mg = mg if mg is not None else mutable_globals(repo)
    for fi in repo.all_funcs():
        fn = fi.node
        if isinstance(fn, ast.Lambda):
            continue
        params = set(fi.params())
        local_assigned = set()
        globals_decl = set()
        for n in walk_no_nested(fn):
            if isinstance(n, ast.Global):
                globals_decl |= set(n.names)
            elif isinstance(n, ast.Name) and isinstance(n.ctx, ast.Store):
                local_assigned.add(n.id)

        def root_global(e):
            """(module, name) if expression `e` denotes a mutable global object or a part of it (attr / __dict__)."""
            while isinstance(e, (ast.Attribute, ast.Subscript)):
                e = e.value
            if isinstance(e, ast.Name):
                if e.id in alias:
                    return alias[e.id]
                if e.id in params or (e.id in local_assigned and e.id not in globals_decl):
                    return None
                return resolve_global(repo, fi.module, e.id, mg)
            return None
        alias = {}
        changed = True
        while changed:
            changed = False
            for n in walk_no_nested(fn):
                if isinstance(n, (ast.Assign, ast.NamedExpr)):
                    tg = n.targets[0] if isinstance(n, ast.Assign) else n.target
                    val = n.value
                    if isinstance(tg, ast.Name) and tg.id not in alias:
                        v = val
                        # alias only if the value IS the global (or its __dict__ / an attribute object), not a copy / element
                        if isinstance(v, ast.Name) or (isinstance(v, ast.Attribute) and not isinstance(v.value, ast.Call)):
                            # temporarily make sure the name itself is not considered local when resolving the rhs
                            g = None
                            base = v
                            while isinstance(base, ast.Attribute):
                                base = base.value
                            if isinstance(base, ast.Name) and base.id not in params and \
                                    (base.id not in local_assigned or base.id in globals_decl or base.id in alias):
                                g = alias.get(base.id) or resolve_global(repo, fi.module, base.id, mg)
                            if g:
                                alias[tg.id] = g
                                changed = True
        for n in walk_no_nested(fn):
            if isinstance(n, ast.Call) and isinstance(n.func, ast.Attribute) and n.func.attr in MUTATORS:
                g = root_global(n.func.value)
                if g:
                    yield g, fi, n, f'.{n.func.attr}()'
            elif isinstance(n, (ast.Assign, ast.AugAssign, ast.Delete, ast.AnnAssign)):
                tgs = n.targets if isinstance(n, (ast.Assign, ast.Delete)) else [n.target]
                for t in tgs:
                    for tt in (t.elts if isinstance(t, (ast.Tuple, ast.List)) else [t]):
                        if isinstance(tt, (ast.Subscript, ast.Attribute)):
                            g = root_global(tt.value)
                            if g:
                                yield g, fi, n, 'store' if not isinstance(n, ast.Delete) else 'del'
                        elif isinstance(tt, ast.Name) and tt.id in globals_decl:
                            g = resolve_global(repo, fi.module, tt.id, mg) or (fi.module, tt.id)
                            yield g, fi, n, 'global rebinding'
