"""Structural helpers over function ASTs: parent maps, control-dependence chains, call reachability."""
from __future__ import annotations

import ast

from .model import FuncInfo, walk_no_nested, call_name, norm


def parent_map(fn: ast.AST) -> dict:
    par = {}
    for n in ast.walk(fn):
        for c in ast.iter_child_nodes(n):
            par[c] = n
    return par


def enclosing_tests(fn: ast.AST, node: ast.AST, par: dict | None = None) -> list[tuple[ast.AST, bool]]:
    """[(test expression, polarity)] of the if / while / conditional-expression arms that lexically enclose `node`,
    innermost first.  polarity False = the node is in the else arm.  `elif` chains contribute their negated earlier tests."""
    par = par or parent_map(fn)
    out = []
    cur = node
    while cur in par:
        p = par[cur]
        if isinstance(p, (ast.If, ast.While)):
            if cur in p.body:
                out.append((p.test, True))
            elif cur in p.orelse:
                out.append((p.test, False))
        elif isinstance(p, ast.IfExp):
            if cur is p.body:
                out.append((p.test, True))
            elif cur is p.orelse:
                out.append((p.test, False))
        elif isinstance(p, ast.BoolOp) and isinstance(p.op, ast.And):
            i = p.values.index(cur)
            for v in p.values[:i]:
                out.append((v, True))
        elif isinstance(p, ast.BoolOp) and isinstance(p.op, ast.Or):
            i = p.values.index(cur)
            for v in p.values[:i]:
                out.append((v, False))
        cur = p
        if cur is fn:
            break
    return out


def guarded_by(fn, node, pred, par=None) -> bool:
    """Is `node` control dependent (lexically) on a test satisfying pred(test_expr, polarity)?"""
    return any(pred(t, pol) for t, pol in enclosing_tests(fn, node, par))


def calls_in(fn: ast.AST, names=None):
    for n in walk_no_nested(fn):
        if isinstance(n, ast.Call):
            cn = call_name(n)
            if names is None or cn in names:
                yield n


class Reach:
    """Transitive callee closure over the resolver (memoised); table dispatch expanded through `table_edges`."""

    def __init__(self, resolver, table_edges: dict | None = None):
        self.res = resolver
        self.memo: dict[str, set[str]] = {}
        self.table_edges = table_edges or {}   # function key -> [FuncInfo] extra callees (dynamic dispatch)
        self.direct: dict[str, list] = {}

    def callees(self, fi: FuncInfo) -> list[FuncInfo]:
        if fi.key in self.direct:
            return self.direct[fi.key]
        out, seen = [], set()
        if not isinstance(fi.node, ast.Lambda):
            for n in ast.walk(fi.node):
                if isinstance(n, ast.Call):
                    for c in self.res._resolve(n, fi):
                        if c.key not in seen:
                            seen.add(c.key)
                            out.append(c)
        for c in self.table_edges.get(fi.key, []):
            if c.key not in seen:
                seen.add(c.key)
                out.append(c)
        self.direct[fi.key] = out
        return out

    def closure(self, fi: FuncInfo, max_nodes: int = 5000) -> dict[str, FuncInfo]:
        seen = {fi.key: fi}
        stack = [fi]
        while stack and len(seen) < max_nodes:
            f = stack.pop()
            for c in self.callees(f):
                if c.key not in seen:
                    seen[c.key] = c
                    stack.append(c)
        return seen

    def reaches_name(self, fi: FuncInfo, names: set[str]) -> str | None:
        """Name from `names` that fi (transitively) calls, by callee function name or unresolved call name."""
        for k, f in self.closure(fi).items():
            if f.name in names and f is not fi:
                return f.name
            if not isinstance(f.node, ast.Lambda):
                for n in ast.walk(f.node):
                    if isinstance(n, ast.Call) and call_name(n) in names:
                        return call_name(n)
        return None


def with_helpers(repo, fi, depth: int = 2, same_module: bool = True) -> list:
    """`fi` followed by the private helpers it hands its own first parameter to (`_helper(self, ...)` / `self._helper(...)`), resolved by a
    unique name, `depth` levels: a rule about what a function does must survive the extraction of a part of it into a worker."""
    from .model import walk_no_nested, call_name
    out, seen = [fi], {fi.key}
    frontier = [fi]
    for _ in range(depth):
        nxt = []
        for f in frontier:
            if isinstance(f.node, ast.Lambda):
                continue
            a = f.node.args.posonlyargs + f.node.args.args
            if not a:
                continue
            p0 = a[0].arg
            for c in walk_no_nested(f.node):
                if not isinstance(c, ast.Call):
                    continue
                nm = call_name(c)
                if not nm or not nm.startswith('_') or nm.startswith('__'):
                    continue
                recv = c.func.value if isinstance(c.func, ast.Attribute) else (c.args[0] if c.args else None)
                if not (isinstance(recv, ast.Name) and recv.id == p0):
                    continue
                cands = [g for g in repo.all_funcs() if g.name == nm and not isinstance(g.node, ast.Lambda) and
                         (not same_module or g.module == f.module) and '<locals>' not in g.qualname]
                keys = {g.qualname for g in cands}
                if len(keys) != 1:
                    continue
                for g in cands:
                    if g.key not in seen:
                        seen.add(g.key)
                        out.append(g)
                        nxt.append(g)
        frontier = nxt
    return out


def called_helpers(repo, fi, depth: int = 1) -> list:
    """`fi` followed by the private same-module functions it calls by bare name (any arguments), `depth` levels."""
    from .model import walk_no_nested
    out, seen, frontier = [fi], {fi.key}, [fi]
    for _ in range(depth):
        nxt = []
        for f in frontier:
            for c in walk_no_nested(f.node):
                if isinstance(c, ast.Call) and isinstance(c.func, ast.Name) and c.func.id.startswith('_') and not c.func.id.startswith('__'):
                    for g in repo.find_funcs(f.module, c.func.id):
                        if g.key not in seen and not isinstance(g.node, ast.Lambda):
                            seen.add(g.key)
                            out.append(g)
                            nxt.append(g)
        frontier = nxt
    return out
