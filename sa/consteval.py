"""Static evaluator for module-level code of the package (tables, registries, enums).

A closed mini-interpreter over the *syntax* of module bodies: nothing from /repo is imported.  Functions are never
entered (they become `FuncTok`), classes become `ClassTok`, AST classes become `ClassTok`s tied (by name) to the stdlib
`ast` module of the analysing interpreter, which serves as the grammar reference.  Anything the evaluator does not
understand becomes `Unknown` (rules that need the value then raise AnalysisError, they never pass silently).
"""
from __future__ import annotations

import ast
import sys

from .model import AnalysisError, Repo


class Unknown:
    __slots__ = ('why',)

    def __init__(self, why=''):
        self.why = why

    def __repr__(self):
        return f'<Unknown {self.why}>'

    def __bool__(self):
        raise _UnknownTruth(self.why)

    def __hash__(self):
        return id(self)


class _UnknownTruth(Exception):
    pass


class _Return(Exception):
    def __init__(self, value):
        self.value = value


class _Break(Exception):
    pass


class _Continue(Exception):
    pass


class Tok:
    """Base of symbolic tokens; hashable by (kind, key)."""
    kind = 'tok'

    def __init__(self, key):
        self.key = key

    def __hash__(self):
        return hash((self.kind, self.key))

    def __eq__(self, other):
        return isinstance(other, Tok) and self.kind == other.kind and self.key == other.key

    def __repr__(self):
        return f'<{self.kind} {self.key}>'


class FuncTok(Tok):
    kind = 'func'

    def __init__(self, module, qualname, node=None, closure=None):
        # a function made by a factory call (`f = make('name')`) is identified by the factory *and* the constants it closed over
        super().__init__(f'{module}.{qualname}' + ('' if not closure else '#' + repr(sorted(closure.items()))))
        self.module, self.qualname, self.node = module, qualname, node
        self.closure = closure or {}

    @property
    def name(self):
        return self.qualname.rsplit('.', 1)[-1]


class LambdaTok(Tok):
    kind = 'lambda'

    def __init__(self, module, node, env=None):
        super().__init__(f'{module}:{node.lineno}:{node.col_offset}')
        self.module, self.node, self.env = module, node, env


class ModuleTok(Tok):
    kind = 'module'


class ExtTok(Tok):
    """Something imported from outside the package (stdlib)."""
    kind = 'ext'


class ClassTok(Tok):
    kind = 'class'

    def __init__(self, name, module, bases=(), node=None, ns=None, is_ast=False):
        super().__init__(name if is_ast else f'{module}.{name}')
        self.name, self.module, self.bases, self.node = name, module, tuple(bases), node
        self.ns = ns if ns is not None else {}
        self.is_ast = is_ast

    def mro(self):
        out, seen = [], set()
        stack = [self]
        while stack:
            c = stack.pop(0)
            if c in seen:
                continue
            seen.add(c)
            out.append(c)
            stack.extend(c.bases)
        return out

    def issub(self, other):
        return other in self.mro()

    def lookup(self, name):
        for c in self.mro():
            if name in c.ns:
                return c.ns[name]
        return None


class Record:
    """Instance of a NamedTuple-like repo class (onestatic, slicestatic, ...) or other simple constructor call."""

    def __init__(self, cls: ClassTok, fields: dict):
        self.cls, self.fields = cls, fields

    def __repr__(self):
        return f'{self.cls.name}({", ".join(f"{k}={v!r}" for k, v in self.fields.items())})'

    def __hash__(self):
        return id(self)


class EnumVal(int):
    def __new__(cls, value, enum_cls, name):
        o = int.__new__(cls, value)
        o.enum_cls, o.name = enum_cls, name
        return o

    def __repr__(self):
        return f'{self.enum_cls.name}.{self.name}'


# ----------------------------------------------------------------------------------------------------------------------
# AST class universe: the stdlib `ast` module of the analysing interpreter is the grammar reference.

_AST_TOKS: dict[str, ClassTok] = {}


def ast_class_tok(name: str) -> ClassTok:
    if name in _AST_TOKS:
        return _AST_TOKS[name]
    py = getattr(ast, name, None)
    bases = ()
    if isinstance(py, type) and issubclass(py, ast.AST) and py is not ast.AST:
        bases = tuple(ast_class_tok(b.__name__) for b in py.__bases__ if issubclass(b, ast.AST))
    elif name != 'AST':
        bases = ()  # class not present in this interpreter (e.g. TemplateStr on 3.12): base unknown
    t = ClassTok(name, 'ast', bases, is_ast=True)
    t.pyclass = py if isinstance(py, type) else None
    _AST_TOKS[name] = t
    return t


_SAFE_BUILTINS = {
    'dict': dict, 'list': list, 'tuple': tuple, 'set': set, 'frozenset': frozenset, 'sorted': sorted, 'len': len,
    'zip': zip, 'enumerate': enumerate, 'range': range, 'min': min, 'max': max, 'str': str, 'int': int, 'bool': bool,
    'any': any, 'all': all, 'reversed': reversed, 'sum': sum, 'object': object, 'repr': repr, 'chr': chr, 'ord': ord,
    'abs': abs, 'map': map, 'filter': filter, 'type': type, 'float': float, 'complex': complex, 'bytes': bytes,
    'isinstance': isinstance, 'issubclass': issubclass, 'getattr': getattr, 'hasattr': hasattr,
}

_PURE_METHODS = {
    dict: {'get', 'items', 'keys', 'values', 'copy', 'update', 'setdefault', 'pop'},
    list: {'copy', 'index', 'count', 'append', 'extend', 'insert'},
    tuple: {'index', 'count'},
    set: {'union', 'difference', 'intersection', 'copy', 'issubset', 'issuperset', 'symmetric_difference', 'add',
          'update', 'discard'},
    frozenset: {'union', 'difference', 'intersection', 'copy', 'issubset', 'issuperset', 'symmetric_difference'},
    str: {'startswith', 'endswith', 'join', 'split', 'strip', 'lower', 'upper', 'format', 'replace', 'lstrip',
          'rstrip', 'encode', 'isdigit', 'isalpha', 'isalnum', 'partition', 'rpartition', 'find'},
    bytes: {'decode'},
}


class Evaluator:
    def __init__(self, repo: Repo, pyver: tuple = None):
        self.repo = repo
        self.pyver = tuple(pyver or sys.version_info[:2])
        self._envs: dict[str, dict] = {}
        self._in_progress: set[str] = set()
        self.unknowns: list[str] = []

    # ------------------------------------------------------------------------------------------------------------------
    def env(self, module: str) -> dict:
        if module in self._envs:
            return self._envs[module]
        if module not in self.repo.modules:
            raise AnalysisError(f'module {module} not in package')
        env: dict = {'__name__': 'fst.' + module}
        self._envs[module] = env  # registered first: cyclic imports see the partially filled env, like Python
        self._in_progress.add(module)
        try:
            self.exec_body(self.repo.modules[module].tree.body, env, module, None)
        finally:
            self._in_progress.discard(module)
        return env

    def get(self, module: str, name: str, required: bool = True):
        e = self.env(module)
        if name not in e:
            if required:
                raise AnalysisError(f'anchor {module}.{name} vanished (module-level name not bound)')
            return None
        v = e[name]
        if isinstance(v, Unknown) and required:
            raise AnalysisError(f'anchor {module}.{name} could not be evaluated statically: {v.why}')
        return v

    # ------------------------------------------------------------------------------------------------------------------
    def exec_body(self, body, env, module, cls):
        for st in body:
            self.exec_stmt(st, env, module, cls)

    def _assigned_names(self, nodes):
        out = set()
        for n in nodes:
            for x in ast.walk(n):
                if isinstance(x, ast.Name) and isinstance(x.ctx, ast.Store):
                    out.add(x.id)
                elif isinstance(x, (ast.FunctionDef, ast.ClassDef, ast.AsyncFunctionDef)):
                    out.add(x.name)
                elif isinstance(x, (ast.Import, ast.ImportFrom)):
                    for a in x.names:
                        out.add((a.asname or a.name).split('.')[0])
        return out

    def exec_stmt(self, st, env, module, cls):
        ev = lambda e: self.eval(e, env, module)
        if isinstance(st, (ast.FunctionDef, ast.AsyncFunctionDef)):
            q = (cls.name + '.' if cls else '') + st.name
            outer = getattr(self, '_call_stack', None)
            if outer and isinstance(env, _ChainEnv):
                # defined while a factory call is being folded: a closure over the constants bound in that call
                q = f'{outer[-1]}.<locals>.{st.name}'
                tok = FuncTok(module, q, st, {k: v for k, v in env.local.items() if isinstance(v, (str, int, bool, type(None)))})
            else:
                tok = FuncTok(module, q, st)
            decs = [ast.unparse(d) for d in st.decorator_list]
            if any(d == 'property' or d.endswith('.setter') or d.endswith('.deleter') for d in decs):
                tok.is_property = True
            env[st.name] = tok
        elif isinstance(st, ast.ClassDef):
            bases = []
            for b in st.bases:
                v = ev(b)
                bases.append(v if isinstance(v, ClassTok) else ClassTok(ast.unparse(b), 'ext'))
            ns: dict = {}
            tok = ClassTok(st.name, module, bases, st, ns)
            is_enum = any(b.name in ('IntEnum', 'Enum', 'IntFlag') for b in tok.mro()[1:])
            cenv = _ChainEnv(ns, env)
            if is_enum:
                cenv.enum_counter = [0]
                cenv.enum_cls = tok
            self.exec_body(st.body, cenv, module, tok)
            if is_enum:
                for k, v in list(ns.items()):
                    if isinstance(v, int) and not isinstance(v, (bool, EnumVal)) and not k.startswith('_'):
                        ns[k] = EnumVal(v, tok, k)
                    elif isinstance(v, EnumVal) and v.name != k:   # alias: BOR = EXPR
                        pass
                tok.enum_members = {k: v for k, v in ns.items() if isinstance(v, EnumVal)}
            env[st.name] = tok
        elif isinstance(st, ast.Assign):
            v = ev(st.value)
            for t in st.targets:
                self.assign(t, v, env, module)
        elif isinstance(st, ast.AnnAssign):
            if st.value is not None:
                self.assign(st.target, ev(st.value), env, module)
            elif isinstance(st.target, ast.Name) and cls is not None:
                cls.ns.setdefault('__fields__', []).append(st.target.id)
                return
            if isinstance(st.target, ast.Name) and cls is not None:
                cls.ns.setdefault('__fields__', []).append(st.target.id)
        elif isinstance(st, ast.AugAssign):
            try:
                cur = ev(_load(st.target))
                v = self.binop(st.op, cur, ev(st.value))
            except Exception as e:  # noqa
                v = Unknown(f'augassign {ast.unparse(st)[:60]}')
            self.assign(st.target, v, env, module)
        elif isinstance(st, ast.If):
            try:
                t = bool(ev(st.test))
            except _UnknownTruth:
                for n in self._assigned_names(st.body + st.orelse):
                    env[n] = Unknown(f'bound under undecidable test {ast.unparse(st.test)[:60]}')
                return
            self.exec_body(st.body if t else st.orelse, env, module, cls)
        elif isinstance(st, ast.For):
            it = ev(st.iter)
            if isinstance(it, Unknown):
                for n in self._assigned_names([st]):
                    env.setdefault(n, Unknown('for over unknown'))
                return
            try:
                for x in list(it):
                    self.assign(st.target, x, env, module)
                    try:
                        self.exec_body(st.body, env, module, cls)
                    except _Continue:
                        continue
                else:
                    self.exec_body(st.orelse, env, module, cls)
            except _Break:
                pass
        elif isinstance(st, ast.While):
            n = 0
            try:
                while True:
                    try:
                        if not ev(st.test):
                            self.exec_body(st.orelse, env, module, cls)
                            break
                    except _UnknownTruth:
                        for nm in self._assigned_names([st]):
                            env[nm] = Unknown('while with unknown test')
                        break
                    n += 1
                    if n > 100000:
                        raise AnalysisError('module-level while loop does not terminate in the evaluator')
                    try:
                        self.exec_body(st.body, env, module, cls)
                    except _Continue:
                        continue
            except _Break:
                pass
        elif isinstance(st, ast.Return):
            if getattr(self, '_call_depth', 0) > 0:
                raise _Return(ev(st.value) if st.value is not None else None)
        elif isinstance(st, ast.Break):
            raise _Break()
        elif isinstance(st, ast.Continue):
            raise _Continue()
        elif isinstance(st, ast.Expr):
            if isinstance(st.value, ast.Call):
                ev(st.value)
        elif isinstance(st, ast.ImportFrom):
            self.exec_importfrom(st, env, module)
        elif isinstance(st, ast.Import):
            for a in st.names:
                env[(a.asname or a.name).split('.')[0]] = ExtTok(a.name if a.asname else a.name.split('.')[0])
        elif isinstance(st, ast.Try):
            # module-level try blocks guard optional imports; evaluate the body, fall back to handlers' bindings as Unknown
            try:
                self.exec_body(st.body, env, module, cls)
            except (_Break, _Continue):
                raise
            for h in st.handlers:
                for n in self._assigned_names(h.body):
                    env.setdefault(n, Unknown('bound in except handler'))
        elif isinstance(st, ast.Delete):
            for t in st.targets:
                if isinstance(t, ast.Name):
                    env.pop(t.id, None)
        elif isinstance(st, (ast.Assert, ast.Pass, ast.With, ast.Global, ast.Raise)):
            pass
        else:
            for n in self._assigned_names([st]):
                env[n] = Unknown(f'unsupported statement {type(st).__name__}')

    def exec_importfrom(self, st, env, module):
        if st.level == 0:
            for a in st.names:
                nm = a.asname or a.name
                if st.module == 'ast' and a.name != '*':
                    py = getattr(ast, a.name, None)
                    if isinstance(py, type) and issubclass(py, ast.AST):
                        env[nm] = ast_class_tok(a.name)
                    elif a.name[:1].isupper() and py is None:
                        env[nm] = ast_class_tok(a.name)    # class of a newer grammar (TemplateStr on 3.12 ...)
                    else:
                        env[nm] = ExtTok('ast.' + a.name)
                else:
                    env[nm] = ExtTok(f'{st.module}.{a.name}')
            return
        tgt = st.module or ''
        for a in st.names:
            nm = a.asname or a.name
            if tgt == '':
                env[nm] = ModuleTok(a.name) if a.name in self.repo.modules else Unknown(f'from . import {a.name}')
                continue
            if tgt not in self.repo.modules:
                env[nm] = Unknown(f'import from unknown module {tgt}')
                continue
            if a.name == '*':
                src_env = self.env(tgt)
                names = src_env.get('__all__')
                if isinstance(names, (list, tuple)):
                    for k in names:
                        if k in src_env:
                            env[k] = src_env[k]
                else:
                    for k, v in src_env.items():
                        if not k.startswith('_'):
                            env[k] = v
                continue
            src_env = self.env(tgt)
            if a.name in src_env:
                env[nm] = src_env[a.name]
            elif tgt in self._in_progress:
                env[nm] = _Lazy(self, tgt, a.name)
            else:
                env[nm] = Unknown(f'{tgt}.{a.name} not bound')

    def assign(self, target, value, env, module):
        if isinstance(target, ast.Name):
            env[target.id] = value
        elif isinstance(target, (ast.Tuple, ast.List)):
            try:
                vals = list(value)
            except Exception:
                vals = None
            if vals is None or len(vals) != len(target.elts) or any(isinstance(e, ast.Starred) for e in target.elts):
                for e in target.elts:
                    for n in ast.walk(e):
                        if isinstance(n, ast.Name):
                            env[n.id] = Unknown('unpack')
            else:
                for e, v in zip(target.elts, vals):
                    self.assign(e, v, env, module)
        elif isinstance(target, ast.Subscript):
            obj = self.eval(target.value, env, module)
            key = self.eval(target.slice, env, module)
            if isinstance(obj, (dict, list)) and not isinstance(key, Unknown):
                try:
                    obj[key] = value
                except Exception:
                    pass
        elif isinstance(target, ast.Attribute):
            obj = self.eval(target.value, env, module)
            if isinstance(obj, ClassTok):
                obj.ns[target.attr] = value
            elif isinstance(obj, Record):
                obj.fields[target.attr] = value

    # ------------------------------------------------------------------------------------------------------------------
    def eval(self, e, env, module):
        try:
            return self._eval(e, env, module)
        except (_UnknownTruth,):
            return Unknown('truth of unknown')
        except (AnalysisError, _Break, _Continue):
            raise
        except RecursionError:
            raise
        except Exception as ex:
            return Unknown(f'{type(ex).__name__} evaluating {ast.unparse(e)[:80]}')

    def _eval(self, e, env, module):
        ev = lambda x: self._eval(x, env, module)
        if isinstance(e, ast.Constant):
            return e.value
        if isinstance(e, ast.Name):
            if e.id in env:
                v = env[e.id]
                return v.force() if isinstance(v, _Lazy) else v
            if e.id in _SAFE_BUILTINS:
                return _SAFE_BUILTINS[e.id]
            if e.id in ('True', 'False', 'None'):
                return {'True': True, 'False': False, 'None': None}[e.id]
            if e.id == 'Ellipsis':
                return Ellipsis
            return Unknown(f'name {e.id}')
        if isinstance(e, ast.Tuple):
            return tuple(self._seq(e.elts, env, module))
        if isinstance(e, ast.List):
            return list(self._seq(e.elts, env, module))
        if isinstance(e, ast.Set):
            return set(self._seq(e.elts, env, module))
        if isinstance(e, ast.Dict):
            d = {}
            for k, v in zip(e.keys, e.values):
                if k is None:
                    vv = ev(v)
                    if isinstance(vv, Unknown):
                        return Unknown('** of unknown')
                    d.update(vv)
                else:
                    d[ev(k)] = ev(v)
            return d
        if isinstance(e, ast.Lambda):
            return LambdaTok(module, e, env)
        if isinstance(e, ast.IfExp):
            return ev(e.body) if ev(e.test) else ev(e.orelse)
        if isinstance(e, ast.BoolOp):
            v = None
            for x in e.values:
                v = ev(x)
                if isinstance(e.op, ast.And):
                    if not v:
                        return v
                else:
                    if v:
                        return v
            return v
        if isinstance(e, ast.UnaryOp):
            v = ev(e.operand)
            if isinstance(e.op, ast.Not):
                return not v
            if isinstance(v, Unknown):
                return v
            if isinstance(e.op, ast.USub):
                return -v
            if isinstance(e.op, ast.UAdd):
                return +v
            return ~v
        if isinstance(e, ast.BinOp):
            return self.binop(e.op, ev(e.left), ev(e.right))
        if isinstance(e, ast.Compare):
            left = ev(e.left)
            for op, c in zip(e.ops, e.comparators):
                right = ev(c)
                if isinstance(left, Unknown) or isinstance(right, Unknown):
                    if not isinstance(op, (ast.Is, ast.IsNot)):
                        return Unknown('compare with unknown')
                r = self.cmp(op, left, right)
                if not r:
                    return False
                left = right
            return True
        if isinstance(e, ast.NamedExpr):
            v = ev(e.value)
            env[e.target.id] = v
            return v
        if isinstance(e, ast.Attribute):
            return self.getattr(ev(e.value), e.attr, module)
        if isinstance(e, ast.Subscript):
            obj = ev(e.value)
            if isinstance(obj, (Unknown, ExtTok, ClassTok)):
                return Unknown(f'subscript of {obj!r}') if not isinstance(obj, ClassTok) else obj
            if isinstance(e.slice, ast.Slice):
                lo = ev(e.slice.lower) if e.slice.lower else None
                hi = ev(e.slice.upper) if e.slice.upper else None
                stp = ev(e.slice.step) if e.slice.step else None
                return obj[lo:hi:stp]
            return obj[ev(e.slice)]
        if isinstance(e, ast.Call):
            return self.call(e, env, module)
        if isinstance(e, (ast.ListComp, ast.SetComp, ast.GeneratorExp, ast.DictComp)):
            return self.comp(e, env, module)
        if isinstance(e, ast.JoinedStr):
            parts = []
            for v in e.values:
                if isinstance(v, ast.Constant):
                    parts.append(str(v.value))
                else:
                    x = ev(v.value)
                    if isinstance(x, Unknown):
                        return x
                    parts.append(format(x))
            return ''.join(parts)
        if isinstance(e, ast.Starred):
            return Unknown('starred')
        return Unknown(f'expr {type(e).__name__}')

    def _seq(self, elts, env, module):
        out = []
        for x in elts:
            if isinstance(x, ast.Starred):
                v = self._eval(x.value, env, module)
                if isinstance(v, Unknown):
                    raise ValueError('star of unknown')
                out.extend(v)
            else:
                out.append(self._eval(x, env, module))
        return out

    def binop(self, op, a, b):
        if isinstance(a, Unknown) or isinstance(b, Unknown):
            return Unknown('binop with unknown')
        if isinstance(a, (ExtTok, ClassTok)) or isinstance(b, (ExtTok, ClassTok)):
            return Unknown('type-level binop')   # e.g. `int | None`
        import operator as o
        f = {ast.Add: o.add, ast.Sub: o.sub, ast.BitOr: o.or_, ast.BitAnd: o.and_, ast.BitXor: o.xor, ast.Mult: o.mul,
             ast.Mod: o.mod, ast.FloorDiv: o.floordiv, ast.LShift: o.lshift, ast.RShift: o.rshift}.get(type(op))
        if f is None:
            return Unknown('binop')
        return f(a, b)

    def cmp(self, op, a, b):
        import operator as o
        if isinstance(op, ast.Is):
            return a is b or (isinstance(a, Tok) and a == b)
        if isinstance(op, ast.IsNot):
            return not (a is b or (isinstance(a, Tok) and a == b))
        if isinstance(op, ast.In):
            return a in b
        if isinstance(op, ast.NotIn):
            return a not in b
        return {ast.Eq: o.eq, ast.NotEq: o.ne, ast.Lt: o.lt, ast.LtE: o.le, ast.Gt: o.gt, ast.GtE: o.ge}[type(op)](a, b)

    def getattr(self, obj, attr, module):
        if isinstance(obj, Unknown):
            return obj
        if isinstance(obj, ModuleTok):
            e = self.env(obj.key)
            return e.get(attr, Unknown(f'{obj.key}.{attr}'))
        if isinstance(obj, ExtTok):
            if obj.key == 'sys' and attr == 'version_info':
                return self.pyver + (0, 'final', 0)
            return ExtTok(f'{obj.key}.{attr}')
        if isinstance(obj, ClassTok):
            if attr == '__name__':
                return obj.name
            if attr == '__bases__':
                return obj.bases
            if attr == '__class__':
                return ClassTok('type', 'builtins')
            v = obj.lookup(attr)
            if v is not None:
                return v
            if obj.is_ast and getattr(obj, 'pyclass', None) is not None and attr in ('_fields', '_attributes'):
                return getattr(obj.pyclass, attr)
            return Unknown(f'{obj.name}.{attr}')
        if isinstance(obj, EnumVal):
            if attr == 'value':
                return int(obj)
            if attr == 'name':
                return obj.name
            m = obj.enum_cls.lookup(attr)
            if isinstance(m, FuncTok):
                return _BoundEnumMethod(obj, m)
            return Unknown(f'enum attr {attr}')
        if isinstance(obj, Record):
            return obj.fields.get(attr, Unknown(f'record attr {attr}'))
        for t, names in _PURE_METHODS.items():
            if isinstance(obj, t) and attr in names:
                return getattr(obj, attr)
        if obj is dict and attr == 'fromkeys':
            return dict.fromkeys
        if isinstance(obj, tuple) and attr in ('major', 'minor'):
            return obj[0 if attr == 'major' else 1]
        return Unknown(f'attr {attr} of {type(obj).__name__}')

    def call(self, e, env, module):
        ev = lambda x: self._eval(x, env, module)
        fn = ev(e.func)
        # enum auto()
        if isinstance(fn, ExtTok) and fn.key.endswith('auto') and isinstance(env, _ChainEnv) and env.enum_counter is not None:
            env.enum_counter[0] += 1
            return env.enum_counter[0]
        if isinstance(fn, Unknown):
            return fn
        args = self._seq(e.args, env, module)
        kwargs = {}
        for kw in e.keywords:
            if kw.arg is None:
                v = ev(kw.value)
                if isinstance(v, Unknown):
                    return v
                kwargs.update(v)
            else:
                kwargs[kw.arg] = ev(kw.value)
        if isinstance(fn, _BoundEnumMethod):
            return fn(self)
        if isinstance(fn, ClassTok):
            return self.construct(fn, args, kwargs)
        if isinstance(fn, FuncTok):
            return self.call_repo_function(fn, args, kwargs)
        if isinstance(fn, LambdaTok):
            return Unknown(f'call of repo function {fn.key}')
        if isinstance(fn, ExtTok):
            k = fn.key
            if k in ('typing.get_args', 'typing.Literal', 're.compile') or True:
                return Unknown(f'call of external {k}')
        if any(isinstance(a, Unknown) for a in args) and fn in (dict, list, tuple, set, frozenset, sorted, len):
            return Unknown('builtin on unknown')
        if fn is isinstance and len(args) == 2 and not kwargs:
            # a plain Python constant against builtin type(s): `isinstance(value, int)`, `isinstance(value, (bool, str))`
            tys = args[1] if isinstance(args[1], tuple) else (args[1],)
            if isinstance(args[0], (bool, int, float, complex, str, bytes, tuple, type(None))) and \
                    all(t in (bool, int, float, complex, str, bytes, tuple, list, dict, set, frozenset, type(None)) for t in tys):
                return isinstance(args[0], tys)
            return Unknown('isinstance')
        if fn is isinstance or fn is issubclass:
            return Unknown('isinstance')
        if callable(fn):
            r = fn(*args, **kwargs)
            if isinstance(r, (map, filter, zip, enumerate, reversed, range)):
                r = list(r)
            return r
        return Unknown(f'call of {fn!r}')

    def call_repo_function(self, fn: 'FuncTok', args, kwargs):
        """Import-time table construction sometimes goes through a small module-level helper (`for c in CLASSES: T[c] = _inherited(c)`).
        Such a call is folded like the loops around it: parameters are bound in a fresh scope over the defining module's environment and
        the body is run by the same statement evaluator; anything it cannot decide makes the result Unknown.  Nesting is bounded."""
        node = fn.node
        depth = getattr(self, '_call_depth', 0)
        if not isinstance(node, ast.FunctionDef) or node.decorator_list or '.' in fn.qualname or depth >= 24:
            return Unknown(f'call of repo function {fn.key}')
        a = node.args
        if a.vararg or a.kwarg or any(isinstance(x, (ast.Yield, ast.YieldFrom, ast.Global, ast.Nonlocal)) for x in ast.walk(node)):
            return Unknown(f'call of repo function {fn.key}')
        params = list(a.posonlyargs) + list(a.args)
        if len(args) > len(params):
            return Unknown(f'call of repo function {fn.key}')
        local = {}
        menv = self.env(fn.module)
        for p, v in zip(params, args):
            local[p.arg] = v
        names = {p.arg for p in params + list(a.kwonlyargs)}
        for k, v in kwargs.items():
            if k not in names or k in local:
                return Unknown(f'call of repo function {fn.key}')
            local[k] = v
        defaults = dict(zip([p.arg for p in params][len(params) - len(a.defaults):], a.defaults))
        defaults.update({p.arg: d for p, d in zip(a.kwonlyargs, a.kw_defaults) if d is not None})
        for p in params + list(a.kwonlyargs):
            if p.arg not in local:
                if p.arg not in defaults:
                    return Unknown(f'call of repo function {fn.key}')
                local[p.arg] = self._eval(defaults[p.arg], menv, fn.module)
        scope = _ChainEnv(local, menv)
        self._call_depth = depth + 1
        self._call_stack = getattr(self, '_call_stack', []) + [fn.qualname]
        try:
            self.exec_body(node.body, scope, fn.module, None)
            return None
        except _Return as r:
            return r.value
        except (_Break, _Continue, _UnknownTruth, AnalysisError, RecursionError):
            return Unknown(f'call of repo function {fn.key}')
        except Exception:      # noqa: anything the folding cannot handle is simply not known
            return Unknown(f'call of repo function {fn.key}')
        finally:
            self._call_depth = depth
            self._call_stack = self._call_stack[:-1]

    def construct(self, cls: ClassTok, args, kwargs):
        if any(b.name == 'NamedTuple' for b in cls.mro()[1:]) or '__fields__' in cls.ns:
            names = cls.ns.get('__fields__', [])
            f = {}
            for n in names:
                if n in cls.ns:
                    f[n] = cls.ns[n]
            for n, v in zip(names, args):
                f[n] = v
            f.update(kwargs)
            return Record(cls, f)
        if getattr(cls, 'enum_members', None) is not None and len(args) == 1 and isinstance(args[0], int):
            for v in cls.enum_members.values():
                if int(v) == args[0] and v.name in cls.ns and cls.ns[v.name] is v:
                    return v
            raise ValueError('not a member')
        return Record(cls, dict(kwargs, __args__=tuple(args)))

    def comp(self, e, env, module):
        out = []
        loc = _ChainEnv({}, env)

        def rec(i):
            if i == len(e.generators):
                if isinstance(e, ast.DictComp):
                    out.append((self._eval(e.key, loc, module), self._eval(e.value, loc, module)))
                else:
                    out.append(self._eval(e.elt, loc, module))
                return
            g = e.generators[i]
            it = self._eval(g.iter, loc, module)
            if isinstance(it, Unknown):
                raise ValueError('comprehension over unknown')
            for x in list(it):
                self.assign(g.target, x, loc, module)
                if all(self._eval(c, loc, module) for c in g.ifs):
                    rec(i + 1)
        rec(0)
        if isinstance(e, ast.ListComp):
            return out
        if isinstance(e, ast.SetComp):
            return set(out)
        if isinstance(e, ast.DictComp):
            return dict(out)
        return out  # generator -> list


class _BoundEnumMethod:
    def __init__(self, val, func):
        self.val, self.func = val, func

    def __call__(self, evaluator):
        if self.func.name == 'next':
            members = sorted(set(int(v) for v in self.val.enum_cls.enum_members.values()))
            nxt = int(self.val) + 1
            if nxt in members:
                # canonical member for that value (first defined)
                for v in self.val.enum_cls.enum_members.values():
                    if int(v) == nxt:
                        return v
            return self.val
        return Unknown(f'enum method {self.func.name}')


class _Lazy:
    def __init__(self, ev, module, name):
        self.ev, self.module, self.name = ev, module, name

    def force(self):
        e = self.ev.env(self.module)
        return e.get(self.name, Unknown(f'{self.module}.{self.name} (cyclic import)'))


class _ChainEnv(dict):
    """Class-body / comprehension scope: writes go to the local dict, reads fall back to the outer env."""

    def __init__(self, local, outer):
        super().__init__()
        self.local, self.outer = local, outer
        self.enum_counter = None
        self.enum_cls = None

    def __contains__(self, k):
        return k in self.local or k in self.outer

    def __getitem__(self, k):
        if k in self.local:
            return self.local[k]
        return self.outer[k]

    def __setitem__(self, k, v):
        if self.enum_counter is not None and isinstance(v, int) and not isinstance(v, (bool, EnumVal)) and not k.startswith('_'):
            v = EnumVal(v, self.enum_cls, k)
        self.local[k] = v

    def get(self, k, d=None):
        return self[k] if k in self else d

    def setdefault(self, k, d=None):
        if k not in self.local:
            self.local[k] = d
        return self.local[k]

    def pop(self, k, d=None):
        return self.local.pop(k, d)


def _load(t):
    import copy
    t = copy.deepcopy(t)
    for n in ast.walk(t):
        if hasattr(n, 'ctx'):
            n.ctx = ast.Load()
    return t


def cls_name(v) -> str:
    """Printable key for class tokens / strings used as table keys."""
    if isinstance(v, ClassTok):
        return v.name
    return repr(v) if not isinstance(v, str) else v
