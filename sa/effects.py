"""Interprocedural effect summaries (DESIGN §1.4/§1.5): which parameter's *tree* a function mutates, and whether a
function can raise a user-triggerable exception explicitly; both specialised by literal (bool / None / small int)
arguments, computed to a fixpoint over the resolved call graph.

"Tree of parameter P" = anything reached from P through attribute / subscript hops and the FST navigation accessors
(.a .f .parent .root ...), but not through calls that create new trees (copy(), FST(...), code_as*()).
"""
from __future__ import annotations

import ast

from .model import Repo, FuncInfo, walk_no_nested, call_name, norm
from .callgraph import Resolver
from .cfg import CFG, subnodes
from .constprop import ConstFlow, eval_expr

# exceptions a *caller's request* can provoke (the property's list: unparsable / wrong-category code, ordering rule, index
# or option out of range, consumed / non-root tree); internal "should not get here" RuntimeError / AssertionError excluded
USER_EXC = {'NodeError', 'ValueError', 'ParseError', 'SyntaxError', 'IndexError', 'NotImplementedError', 'TypeError',
            'KeyError', 'AttributeError'}

POS_ATTRS = {'lineno', 'col_offset', 'end_lineno', 'end_col_offset'}
LIST_MUTATORS = {'append', 'extend', 'insert', 'pop', 'remove', 'clear', 'reverse', 'sort'}
# attribute hops that stay inside the same tree
NAV_ATTRS = {'a', 'f', 'parent', 'root', 'pfield', '_lines', 'lines', 'body', 'orelse', 'handlers', 'finalbody', 'value',
             'elts', 'args', 'keywords', 'targets', 'target', 'left', 'right', 'op', 'ops', 'comparators', 'values', 'keys',
             'func', 'names', 'items', 'cases', 'patterns', 'generators', 'ifs', 'elt', 'key', 'iter', 'test', 'slice',
             'decorator_list', 'type_params', 'bases', 'returns', 'annotation', 'defaults', 'kw_defaults', 'posonlyargs',
             'kwonlyargs', 'vararg', 'kwarg', 'context_expr', 'optional_vars', 'pattern', 'guard', 'subject', 'cls',
             'kwd_patterns', 'kwd_attrs', 'rest', 'name', 'exc', 'cause', 'msg', 'lower', 'upper', 'step', 'format_spec',
             'operand', 'ctx', 'type', 'arglikes', 'base', 'default_value', 'bound', 'module', 'asname'}
# method calls that return a node of the same tree
NAV_METHODS = {'next', 'prev', 'first_child', 'last_child', 'next_child', 'prev_child', 'step_fwd', 'step_back',
               'last_header_child', 'child_from_path', 'repath', 'parent_stmt', 'parent_stmtlike', 'parent_block',
               'parent_scope', 'parent_named_scope', 'parent_non_expr', 'parent_pattern', 'parent_ftstr', 'get_default',
               '_cached_arglikes', '_cached_allargs', 'copy_not'}   # NOT 'copy'
NEW_TREE_CALLS = {'copy', 'FST', 'fromsrc', 'fromast', 'copy_ast', '_make_fst_and_dedent', 'as_'}


# a specialisation (function, parameter = literal) that was read and found to re-assert existing values only: no effect
REVIEWED_SPECIALISATIONS = {
    ('_maybe_del_trailing_newline', 'put_fst_end_nl', True):
        'called in copy mode too (`not cut`); with a true flag the deleting arm is skipped and what remains re-stores end_lineno / end_col_offset = '
        'end of source of an _ExceptHandlers / _match_cases root, which copy mode has not changed (same review as C07 REVIEWED_CALLEES)',
}


class Effects:
    def __init__(self, repo: Repo, resolver: Resolver):
        self.repo = repo
        self.res = resolver
        self._derived_cache: dict[str, dict[str, set[str]]] = {}
        self._mut: dict[str, set[str]] = {}          # fi.key -> params whose tree is mutated (unspecialised, union)
        self._mut_done = False
        self._raises: dict = {}
        self._calls_cache: dict = {}
        self._mut_spec: dict = {}
        self._cfgs: dict = {}
        self._dm_cache: dict = {}
        self._ce_cache: dict = {}
        self._flows: dict = {}
        self._fresh: dict = {}
        self._mut_elem = None
        self._taint: dict = {}
        self._parents: dict = {}
        self._callers = None
        self._feas: dict = {}
        self.ignore_callees: set = set()   # callee names whose effects a rule accounts for separately (pairs, reviewed)

    # ------------------------------------------------------------------------------------------------------------------
    # derivation: which variables denote (part of) the tree of which parameter -- flow-insensitive
    def derived(self, fi: FuncInfo, feasible=None):
        """({variable: params it may *alias* (part of their tree)}, {variable: params whose tree its *elements* belong to}).
        A slice / list() / display is a fresh container: mutating the container is not a mutation of the tree, but its elements
        still are tree nodes.  `feasible` (set of id(stmt) / id(expr) roots of feasible CFG nodes) restricts the assignments
        considered to those reachable in a given specialisation (e.g. `if stack is None: stack = [self.a]` pruned)."""
        ck = (fi.key, None if feasible is None else hash(frozenset(feasible)))
        if ck in self._derived_cache:
            return self._derived_cache[ck]
        fn = fi.node
        d: dict[str, set[str]] = {p: {p} for p in fi.params()}
        de: dict[str, set[str]] = {p: {p} for p in fi.params()}

        def roots(e, mode='alias') -> set[str]:
            if isinstance(e, ast.Name):
                return set((de if mode == 'elem' else d).get(e.id, ()))
            if isinstance(e, ast.Attribute):
                return roots(e.value, 'alias')
            if isinstance(e, ast.Subscript):
                if isinstance(e.slice, ast.Slice):
                    return roots(e.value, 'elem') if mode == 'elem' else set()
                return roots(e.value, 'elem')
            if isinstance(e, ast.Starred):
                return roots(e.value, mode)
            if isinstance(e, ast.NamedExpr):
                return roots(e.value, mode)
            if isinstance(e, ast.IfExp):
                return roots(e.body, mode) | roots(e.orelse, mode)
            if isinstance(e, ast.BoolOp):
                out = set()
                for v in e.values:
                    out |= roots(v, mode)
                return out
            if isinstance(e, ast.BinOp) and isinstance(e.op, ast.Add):
                return (roots(e.left, 'elem') | roots(e.right, 'elem')) if mode == 'elem' else set()
            if isinstance(e, ast.Call):
                cn = call_name(e)
                if cn in NEW_TREE_CALLS or (cn or '').startswith('code_as') or (cn or '').startswith('_code_'):
                    return set()
                if isinstance(e.func, ast.Attribute) and cn in NAV_METHODS:
                    return roots(e.func.value, 'alias')
                if cn in ('getattr',) and e.args:
                    return roots(e.args[0], 'alias')
                if cn == 'pop' and isinstance(e.func, ast.Attribute) and len(e.args) <= 1:
                    return roots(e.func.value, 'elem')        # an element taken off a list (walk stacks): still a node of that tree
                if cn in ('reversed', 'list', 'tuple', 'iter', 'enumerate', 'zip', 'sorted') and e.args:
                    if mode != 'elem':
                        return set()
                    out = set()
                    for a in e.args:
                        out |= roots(a, 'elem')
                    return out
                return set()
            if isinstance(e, (ast.Tuple, ast.List, ast.Set)):
                if mode != 'elem':
                    return set()
                out = set()
                for x in e.elts:
                    out |= roots(x, 'alias') | roots(x, 'elem') if isinstance(x, ast.Starred) else roots(x, 'alias')
                return out
            if isinstance(e, (ast.ListComp, ast.GeneratorExp, ast.SetComp)):
                return roots(e.elt, 'alias') if mode == 'elem' else set()
            return set()

        def stmts():
            for n in walk_no_nested(fn):
                yield n
        skip_ids = None
        if feasible is not None:
            skip_ids = feasible
        changed = True
        n_it = 0
        while changed and n_it < 12:
            n_it += 1
            changed = False
            for n in walk_no_nested(fn):
                if skip_ids is not None and isinstance(n, ast.stmt) and id(n) not in skip_ids and not isinstance(n, (ast.If, ast.For, ast.While, ast.With, ast.Try, ast.Match)):
                    continue
                pairs = []    # (target, value, elementwise?)
                if isinstance(n, ast.Assign):
                    for t in n.targets:
                        pairs.append((t, n.value, False))
                elif isinstance(n, ast.AnnAssign) and n.value is not None:
                    pairs.append((n.target, n.value, False))
                elif isinstance(n, ast.NamedExpr):
                    pairs.append((n.target, n.value, False))
                elif isinstance(n, (ast.For, ast.AsyncFor)):
                    pairs.append((n.target, n.iter, True))
                elif isinstance(n, ast.comprehension):
                    pairs.append((n.target, n.iter, True))
                elif isinstance(n, (ast.With, ast.AsyncWith)):
                    for it in n.items:
                        if it.optional_vars is not None:
                            pairs.append((it.optional_vars, it.context_expr, False))
                for t, v, elementwise in pairs:
                    if isinstance(t, (ast.Tuple, ast.List)) and isinstance(v, (ast.Tuple, ast.List)) and len(t.elts) == len(v.elts) and not elementwise:
                        sub = [(tt, vv, False) for tt, vv in zip(t.elts, v.elts)]
                    elif isinstance(t, (ast.Tuple, ast.List)) and not elementwise:
                        sub = [(tt, v, True) for tt in t.elts]      # unpacking: each target is an element of the value
                    else:
                        sub = [(t, v, elementwise)]
                    for tt, vv, ew in sub:
                        ra = roots(vv, 'elem') if ew else roots(vv, 'alias')
                        re_ = roots(vv, 'elem')
                        for x in ast.walk(tt):
                            if isinstance(x, ast.Name) and isinstance(x.ctx, ast.Store):
                                old = d.get(x.id, set())
                                if not ra <= old:
                                    d[x.id] = old | ra
                                    changed = True
                                olde = de.get(x.id, set())
                                new_e = re_ | ra
                                if not new_e <= olde:
                                    de[x.id] = olde | new_e
                                    changed = True
        res = (d, de, roots)
        self._derived_cache[ck] = res
        return res

    def expr_roots(self, fi: FuncInfo, e, feasible=None) -> set[str]:
        return self.derived(fi, feasible)[2](e, 'alias')

    # ------------------------------------------------------------------------------------------------------------------
    def direct_mutations(self, fi: FuncInfo, feasible=None):
        """Yield (node, roots) for statements / calls that directly modify tree state: AST field / position / child-list
        stores, source line stores, FST link stores."""
        fn = fi.node
        fresh = set()
        _er = self.expr_roots
        if feasible is not None:
            def expr_roots(fi_, e):
                return _er(fi_, e, feasible)
            self_expr_roots = expr_roots
        else:
            self_expr_roots = _er
        for n in walk_no_nested(fn):
            tgs = []
            if isinstance(n, ast.Assign):
                tgs = n.targets
            elif isinstance(n, (ast.AugAssign, ast.AnnAssign)):
                tgs = [n.target] if getattr(n, 'value', True) is not None else []
            elif isinstance(n, ast.Delete):
                tgs = n.targets
            for t in tgs:
                for tt in (t.elts if isinstance(t, (ast.Tuple, ast.List)) else [t]):
                    if isinstance(tt, (ast.Attribute, ast.Subscript)):
                        if _is_cache_chain(tt):
                            continue      # per-node memo: populating / flushing it is not a change of the tree
                        if isinstance(tt, ast.Attribute) and isinstance(tt.value, ast.Name) and tt.value.id == 'self' and \
                                fi.cls not in (None, 'FST'):
                            continue      # field of a helper object (view, context manager, editor), not of a tree node
                        if isinstance(tt, ast.Subscript) and isinstance(tt.value, ast.Name) and tt.value.id in fresh:
                            continue      # item store into a locally built container
                        r = self_expr_roots(fi, tt.value)
                        if r:
                            yield n, r
            if isinstance(n, ast.Call) and isinstance(n.func, ast.Attribute) and n.func.attr in LIST_MUTATORS:
                if _is_cache_chain(n.func.value):
                    continue
                if isinstance(n.func.value, ast.Name) and n.func.value.id in fresh:
                    continue
                r = self_expr_roots(fi, n.func.value)
                if r and not isinstance(n.func.value, ast.Call):
                    yield n, r
            if isinstance(n, ast.Call) and call_name(n) == 'setattr' and n.args:
                r = self_expr_roots(fi, n.args[0])
                if r:
                    yield n, r

    def elem_mutating(self, cal: FuncInfo) -> set:
        """Parameters of `cal` whose *elements* it (transitively) modifies, as opposed to the container object itself: `stack.pop()` and
        `stack[i] = x` change the list, `a = stack.pop(); a.ctx = ...` changes a node that was in it.  A caller that hands such a
        parameter a fresh list of its own nodes (`body[start:stop]`) has its tree modified."""
        if self._mut_elem is None:
            self._mut_elem = {}
            funcs = [f for f in self.repo.all_funcs() if not isinstance(f.node, ast.Lambda)]
            for f in funcs:
                ps = set(f.params())
                # locals bound to an *element* of a collection: `v = X.pop()`, `v = X[i]`, `for v in X`, comprehension targets
                elem_of = {}
                for x in walk_no_nested(f.node):
                    tg = src = None
                    if isinstance(x, (ast.Assign, ast.NamedExpr)):
                        t0 = x.targets[0] if isinstance(x, ast.Assign) and len(x.targets) == 1 else getattr(x, 'target', None)
                        v = x.value
                        if isinstance(t0, ast.Name):
                            if isinstance(v, ast.Call) and isinstance(v.func, ast.Attribute) and v.func.attr == 'pop':
                                tg, src = t0.id, v.func.value
                            elif isinstance(v, ast.Subscript) and not isinstance(v.slice, ast.Slice):
                                tg, src = t0.id, v.value
                    elif isinstance(x, (ast.For, ast.comprehension)) and isinstance(x.target, ast.Name):
                        tg, src = x.target.id, x.iter
                    if tg is not None:
                        elem_of.setdefault(tg, []).append(src)
                s = set()
                for n, r in self.direct_mutations(f):
                    tgts = []
                    if isinstance(n, ast.Call) and isinstance(n.func, ast.Attribute):
                        tgts = [n.func.value]
                    elif isinstance(n, (ast.Assign, ast.Delete)):
                        tgts = [t.value for t in n.targets if isinstance(t, (ast.Attribute, ast.Subscript))]
                    elif isinstance(n, (ast.AugAssign, ast.AnnAssign)) and isinstance(n.target, (ast.Attribute, ast.Subscript)):
                        tgts = [n.target.value]
                    for base in tgts:
                        # the object that is changed: a name bound to an element of a collection derived from parameter q, or `q[i]` itself
                        while isinstance(base, ast.Attribute):
                            base = base.value
                        if isinstance(base, ast.Subscript) and not isinstance(base.slice, ast.Slice):
                            s |= self.expr_roots(f, base.value) & ps & r
                        elif isinstance(base, ast.Name):
                            for src in elem_of.get(base.id, []):
                                s |= (self.expr_roots(f, src) | self.expr_elem_roots(f, src)) & ps & r
                self._mut_elem[f.key] = s
            changed = True
            while changed:
                changed = False
                for f in funcs:
                    cur = self._mut_elem[f.key]
                    ps = set(f.params())
                    for n, cal_, binding in self.call_edges(f):
                        for q in list(self._mut_elem.get(cal_.key, ())):
                            a = binding.get(q)
                            if a is None:
                                continue
                            r = (self.expr_roots(f, a) | self.expr_elem_roots(f, a)) & ps
                            if not r <= cur:
                                cur |= r
                                changed = True
        return self._mut_elem.get(cal.key, set())

    def expr_elem_roots(self, fi: FuncInfo, e, feasible=None) -> set:
        """Parameters whose tree the *elements* of the collection `e` belong to."""
        return self.derived(fi, feasible)[2](e, 'elem')

    def arg_roots(self, fi: FuncInfo, cal: FuncInfo, q: str, a, feasible=None) -> set:
        """Roots of the caller touched when callee `cal` mutates its parameter `q`, bound to argument `a`."""
        r = self.expr_roots(fi, a, feasible)
        if q in self.elem_mutating(cal):
            r = r | self.expr_elem_roots(fi, a, feasible)
        return r

    def call_edges(self, fi: FuncInfo):
        """[(call node, callee FuncInfo, {callee param: arg expr})]"""
        if fi.key in self._calls_cache:
            return self._calls_cache[fi.key]
        out = []
        if not isinstance(fi.node, ast.Lambda):
            for n in walk_no_nested(fi.node):
                if not isinstance(n, ast.Call):
                    continue
                for cal in self.res._resolve(n, fi):
                    if isinstance(cal.node, ast.Lambda):
                        continue
                    bound = self.res.bound(n, cal, fi)
                    ps = [a.arg for a in cal.node.args.posonlyargs + cal.node.args.args]
                    binding = {}
                    eff = ps
                    if bound and ps and ps[0] in ('self', 'cls'):
                        binding[ps[0]] = n.func.value
                        eff = ps[1:]
                    for i, a in enumerate(n.args):
                        if isinstance(a, ast.Starred):
                            break
                        if i < len(eff):
                            binding[eff[i]] = a
                    for kw in n.keywords:
                        if kw.arg:
                            binding[kw.arg] = kw.value
                    out.append((n, cal, binding))
        self._calls_cache[fi.key] = out
        return out

    def compute_mutations(self):
        """Fixpoint: self._mut[fi.key] = params whose tree fi (transitively) mutates."""
        if self._mut_done:
            return
        funcs = [fi for fi in self.repo.all_funcs() if not isinstance(fi.node, ast.Lambda)]
        for fi in funcs:
            s = set()
            for n, r in self.direct_mutations(fi):
                s |= r
            self._mut[fi.key] = s
        changed = True
        while changed:
            changed = False
            for fi in funcs:
                cur = self._mut[fi.key]
                for n, cal, binding in self.call_edges(fi):
                    for q in list(self._mut.get(cal.key, ())):
                        a = binding.get(q)
                        if a is None:
                            continue
                        r = self.arg_roots(fi, cal, q, a)
                        if not r <= cur:
                            cur |= r
                            changed = True
        self._mut_done = True

    def mutated_params(self, fi: FuncInfo, consts: dict | None = None, _stack=()) -> set[str]:
        """Parameters whose tree `fi` may mutate.  With `consts` ({param: literal}) the function is specialised: branches
        contradicted by the constants are pruned, callees are specialised by the literals passed to them.  On recursion
        the unspecialised fixpoint (an upper bound) is used."""
        self.compute_mutations()
        base = self._mut.get(fi.key, set())
        consts = {k: v for k, v in (consts or {}).items() if k in fi.params()}
        if not base or isinstance(fi.node, ast.Lambda):
            return set()
        for (fname, pname, val), _why in REVIEWED_SPECIALISATIONS.items():
            if fi.name == fname and consts.get(pname) in (('c', val), val):
                return set()
        key = (fi.key, _ckey(consts))
        if key in self._mut_spec:
            return self._mut_spec[key]
        if key in _stack:
            return set(base)
        cfg = self.cfg(fi)
        fl = self.flow(fi, consts)
        out = set()
        dm, feas = self._dm_spec(fi, consts)
        ce = self._ce(fi)
        for node in cfg.nodes:
            disj = fl.all_facts(node.id)
            if not disj:
                continue
            for x in subnodes(cfg, node):
                if id(x) in dm:
                    out |= dm[id(x)]
                if isinstance(x, ast.Call) and id(x) in ce:
                    for cal, binding in ce[id(x)]:
                        if cal.name in self.ignore_callees:
                            continue
                        for cc in self.call_consts_all(cal, binding, disj):
                            cm = self.mutated_params(cal, cc, _stack + (key,))
                            for q in cm:
                                a = binding.get(q)
                                if a is not None:
                                    out |= self.arg_roots(fi, cal, q, a, feas)
        self._mut_spec[key] = out
        return out

    def flow(self, fi: FuncInfo, consts: dict) -> ConstFlow:
        key = (fi.key, _ckey(consts))
        fl = self._flows.get(key)
        if fl is None:
            fl = self._flows[key] = ConstFlow(self.cfg(fi), consts)
        return fl

    def call_consts(self, cal: FuncInfo, binding: dict, facts: dict | None) -> dict:
        """Abstract values the callee's parameters receive at a call evaluated under `facts` (literal defaults included)."""
        consts = {}
        a = cal.node.args
        ps = [q.arg for q in a.posonlyargs + a.args]
        dfl = dict(zip(ps[len(ps) - len(a.defaults):], a.defaults))
        for q, d in zip(a.kwonlyargs, a.kw_defaults):
            if d is not None:
                dfl[q.arg] = d
        for p in ps + [q.arg for q in a.kwonlyargs]:
            if p in binding:
                av = eval_expr(binding[p], facts or {})
            elif p in dfl:
                av = eval_expr(dfl[p], {})
            else:
                av = None
            if av is not None and (av[0] != 'c' or isinstance(av[1], (bool, int, type(None))) or (isinstance(av[1], str) and len(av[1]) < 24)):
                consts[p] = av
        return consts

    def call_consts_all(self, cal, binding, disj: list[dict]) -> list[dict]:
        """Distinct abstract argument vectors over the feasible fact sets at a call."""
        out, seen = [], set()
        for facts in disj or [{}]:
            cc = self.call_consts(cal, binding, facts)
            k = _ckey(cc)
            if k not in seen:
                seen.add(k)
                out.append(cc)
        return out

    def caller_consts(self, fi: FuncInfo) -> dict:
        """For a private function: {param: literal} for parameters that receive the same literal at every in-package call
        site (defaults included).  Public functions (no leading underscore) get {} -- any value can come from outside."""
        if not fi.name.startswith('_') or fi.name.startswith('__'):
            return {}
        if self._callers is None:
            self._callers = {}
            for f in self.repo.all_funcs():
                if isinstance(f.node, ast.Lambda):
                    continue
                for n, cal, binding in self.call_edges(f):
                    self._callers.setdefault(cal.key, []).append((f, n, binding))
        sites = self._callers.get(fi.key, [])
        if not sites:
            return {}
        agreed = None
        for f, n, binding in sites:
            if any(isinstance(a, ast.Starred) for a in n.args) or any(k.arg is None for k in n.keywords):
                return {}
            lc = literal_consts(fi, binding)
            if agreed is None:
                agreed = dict(lc)
            else:
                agreed = {k: v for k, v in agreed.items() if k in lc and lc[k] == v and type(lc[k]) is type(v)}
            if not agreed:
                return {}
        return agreed or {}

    def cfg(self, fi: FuncInfo) -> CFG:
        c = self._cfgs.get(fi.key)
        if c is None:
            c = self._cfgs[fi.key] = CFG(fi.node)
        return c

    def feasible_ids(self, fi: FuncInfo, consts: dict):
        """ids of the simple statements that can execute in the specialisation `consts` (None if nothing is pruned)."""
        key = (fi.key, _ckey(consts))
        r = self._feas.get(key, 0)
        if r != 0:
            return r
        cfg = self.cfg(fi)
        fl = self.flow(fi, consts)
        dead = [n for n in cfg.nodes if n.kind == 'stmt' and not fl.feasible(n.id)]
        if not dead:
            r = None
        else:
            r = frozenset(id(n.ast) for n in cfg.nodes if n.kind == 'stmt' and fl.feasible(n.id))
        self._feas[key] = r
        return r

    def _dm_spec(self, fi, consts):
        feas = self.feasible_ids(fi, consts)
        if feas is None:
            return self._dm(fi), None
        key = (fi.key, _ckey(consts))
        d = self._dm_cache.get(key)
        if d is None:
            d = {}
            for n, r in self.direct_mutations(fi, feas):
                d.setdefault(id(n), set()).update(r)
            self._dm_cache[key] = d
        return d, feas

    def _dm(self, fi):
        d = self._dm_cache.get(fi.key)
        if d is None:
            d = {}
            for n, r in self.direct_mutations(fi):
                d.setdefault(id(n), set()).update(r)
            self._dm_cache[fi.key] = d
        return d

    def _ce(self, fi):
        d = self._ce_cache.get(fi.key)
        if d is None:
            d = {}
            for n, cal, binding in self.call_edges(fi):
                d.setdefault(id(n), []).append((cal, binding))
            self._ce_cache[fi.key] = d
        return d

    def node_mutates(self, fi: FuncInfo, cfg: CFG, node, param: str, facts: dict | None = None, ignore=frozenset(),
                     consts: dict | None = None) -> list:
        """AST constructs evaluated at CFG node `node` that mutate the tree of `param` (callees specialised by the abstract
        values of their arguments under `facts`)."""
        self.compute_mutations()
        hits = []
        dm, feas = self._dm_spec(fi, consts or {}) if consts else (self._dm(fi), None)
        ce = self._ce(fi)
        for x in subnodes(cfg, node):
            if id(x) in dm and param in dm[id(x)]:
                hits.append(x)
            if isinstance(x, ast.Call) and id(x) in ce:
                for cal, binding in ce[id(x)]:
                    if cal.name in ignore or cal.name in self.ignore_callees:
                        continue
                    done = False
                    disj = facts if isinstance(facts, list) else [facts or {}]
                    for cc in self.call_consts_all(cal, binding, disj):
                        for q in self.mutated_params(cal, cc):
                            a = binding.get(q)
                            if a is not None and param in self.arg_roots(fi, cal, q, a, feas):
                                hits.append(x)
                                done = True
                                break
                        if done:
                            break
                    if done:
                        break
        return hits

    # ------------------------------------------------------------------------------------------------------------------
    def is_user_raise(self, fi: FuncInfo, st: ast.Raise, consts: dict | None = None) -> bool:
        t = self.raise_type(st)
        if not (t is None or t in USER_EXC or t == '_coerce_error' or t.endswith('exc') or t in ('error', 'original')):
            return False
        cp = frozenset(k for k, v in (consts or {}).items() if isinstance(v, tuple) and v and v[0] == 'c' or not isinstance(v, tuple))
        return self.request_dependent(fi, st, cp)

    def raise_type(self, st: ast.Raise) -> str | None:
        e = st.exc
        if e is None:
            return None
        if isinstance(e, ast.Call):
            e = e.func
        if isinstance(e, ast.Name):
            return e.id
        if isinstance(e, ast.Attribute):
            return e.attr
        return None

    # request dependence ------------------------------------------------------------------------------------------------
    def tainted_names(self, fi: FuncInfo, const_params=frozenset()) -> set[str]:
        """Names whose value derives from a *request* parameter: any parameter except self / cls and except parameters that
        are bound to a literal constant in the specialisation at hand (a constant is a mode flag, not a request)."""
        tk = (fi.key, frozenset(const_params))
        t = self._taint.get(tk)
        if t is not None:
            return t
        t = {p for p in fi.params() if p not in ('self', 'cls') and p not in const_params}
        fn = fi.node
        changed = True
        it = 0
        while changed and it < 10:
            it += 1
            changed = False
            for n in walk_no_nested(fn):
                pairs = []
                if isinstance(n, ast.Assign):
                    pairs = [(tt, n.value) for tt in n.targets]
                elif isinstance(n, ast.AnnAssign) and n.value is not None:
                    pairs = [(n.target, n.value)]
                elif isinstance(n, ast.AugAssign):
                    pairs = [(n.target, n.value)]
                elif isinstance(n, ast.NamedExpr):
                    pairs = [(n.target, n.value)]
                elif isinstance(n, (ast.For, ast.AsyncFor, ast.comprehension)):
                    pairs = [(n.target, n.iter)]
                elif isinstance(n, (ast.With, ast.AsyncWith)):
                    pairs = [(i.optional_vars, i.context_expr) for i in n.items if i.optional_vars is not None]
                for tg, v in pairs:
                    if any(isinstance(x, ast.Name) and x.id in t for x in ast.walk(v)):
                        for x in ast.walk(tg):
                            if isinstance(x, ast.Name) and isinstance(x.ctx, ast.Store) and x.id not in t:
                                t.add(x.id)
                                changed = True
        self._taint[tk] = t
        return t

    def request_dependent(self, fi: FuncInfo, raise_node: ast.Raise, const_params=frozenset()) -> bool:
        """Is this explicit raise decided by the caller's request (it is unconditional, or an enclosing test reads a value
        derived from a non-self parameter)?  Raises guarded only by the state of `self` are internal preconditions."""
        from .struct import enclosing_tests, parent_map
        par = self._parents.get(fi.key)
        if par is None:
            par = self._parents[fi.key] = parent_map(fi.node)
        tests = enclosing_tests(fi.node, raise_node, par)
        # also loop conditions / for headers that enclose the raise
        cur = raise_node
        loops = []
        while cur in par:
            cur = par[cur]
            if isinstance(cur, (ast.For, ast.AsyncFor)):
                loops.append(cur.iter)
            if isinstance(cur, ast.ExceptHandler):
                return True     # re-raise / translate inside a handler: depends on what the try body did
            if cur is fi.node:
                break
        if not tests and not loops:
            return True
        t = self.tainted_names(fi, const_params)
        for e in [x for x, _ in tests] + loops:
            if any(isinstance(x, ast.Name) and x.id in t for x in ast.walk(e)):
                return True
        # early-exit style: `if cond_on_request: return ...` before an unguarded-by-request raise does not make it dependent
        return False

    def raises(self, fi: FuncInfo, consts: dict | None = None, _stack=()) -> bool:
        """Can fi (specialised for literal arguments `consts`) leave through an explicit user-triggerable raise?"""
        consts = {k: v for k, v in (consts or {}).items() if k in fi.params()}
        key = (fi.key, _ckey(consts))
        if key in self._raises:
            return self._raises[key]
        if key in _stack or isinstance(fi.node, ast.Lambda):
            return False
        self._raises[key] = False          # provisional (recursion)
        cfg = self.cfg(fi)
        fl = self.flow(fi, consts)
        sources = []
        for n in cfg.nodes:
            facts = fl.facts(n.id)
            if facts is None:
                continue
            if n.kind == 'stmt' and isinstance(n.ast, ast.Raise):
                if self.is_user_raise(fi, n.ast, consts):
                    sources.append(n.id)
                continue
            if n.kind in ('stmt', 'test', 'iter', 'with', 'case'):
                if self.node_raising_calls(fi, cfg, n, _stack + (key,), fl.all_facts(n.id)):
                    sources.append(n.id)
        res = False
        for i in sources:
            n = cfg.nodes[i]
            for lab, s in n.succ:
                if lab == 'exc':
                    if s == cfg.raise_ or cfg.raise_ in cfg.reachable(s, lambda nn, l2, s2: fl.feasible(s2) or s2 == cfg.raise_):
                        res = True
                        break
            if res:
                break
        self._raises[key] = res
        return res

    def node_raising_calls(self, fi: FuncInfo, cfg: CFG, node, _stack=(), facts: dict | None = None) -> list:
        """Calls evaluated at `node` whose callee can raise a user-triggerable exception explicitly."""
        ce = self._ce(fi)
        out = []
        for x in subnodes(cfg, node):
            if isinstance(x, ast.Call) and id(x) in ce:
                for cal, binding in ce[id(x)]:
                    disj = facts if isinstance(facts, list) else [facts or {}]
                    if any(self.raises(cal, cc, _stack) for cc in self.call_consts_all(cal, binding, disj)):
                        out.append((x, cal))
                        break
        return out


def _ckey(consts: dict):
    return tuple(sorted((k, repr(v)) for k, v in (consts or {}).items()))


def _is_cache_chain(e) -> bool:
    while isinstance(e, (ast.Attribute, ast.Subscript)):
        if isinstance(e, ast.Attribute) and e.attr == '_cache':
            return True
        e = e.value
    return isinstance(e, ast.Name) and e.id in ('cache', '_cache')


def literal_consts(cal: FuncInfo, binding: dict) -> dict:
    """{param: literal} for parameters of `cal` that receive a bool / None / int literal at a call (defaults included)."""
    consts = {}
    a = cal.node.args
    ps = [q.arg for q in a.posonlyargs + a.args]
    dfl = dict(zip(ps[len(ps) - len(a.defaults):], a.defaults))
    for q, d in zip(a.kwonlyargs, a.kw_defaults):
        if d is not None:
            dfl[q.arg] = d
    for p in ps + [q.arg for q in a.kwonlyargs]:
        e = binding.get(p, dfl.get(p))
        if isinstance(e, ast.Constant) and isinstance(e.value, (bool, type(None), int)) and not isinstance(e.value, float):
            consts[p] = e.value
    return consts


def const_edge_filter(consts: dict):
    """Prune CFG edges contradicted by constant parameters: tests `p`, `not p`, `p is None`, `p is not None`, `p is True/False`."""
    def ok(node, lab, succ):
        if node.kind != 'test' or lab not in ('true', 'false') or not consts:
            return True
        t = node.ast
        neg = False
        while isinstance(t, ast.UnaryOp) and isinstance(t.op, ast.Not):
            neg = not neg
            t = t.operand
        val = None
        if isinstance(t, ast.Name) and t.id in consts:
            val = bool(consts[t.id])
        elif isinstance(t, ast.Compare) and len(t.ops) == 1 and isinstance(t.left, ast.Name) and t.left.id in consts and \
                isinstance(t.comparators[0], ast.Constant):
            c = t.comparators[0].value
            v = consts[t.left.id]
            if isinstance(t.ops[0], ast.Is):
                val = v is c
            elif isinstance(t.ops[0], ast.IsNot):
                val = v is not c
            elif isinstance(t.ops[0], ast.Eq):
                val = v == c
            elif isinstance(t.ops[0], ast.NotEq):
                val = v != c
        if val is None:
            return True
        if neg:
            val = not val
        return val == (lab == 'true')
    return ok


def explain_mutation(ef: Effects, fi: FuncInfo, param: str, consts=None, depth=0, maxdepth=4, seen=None):
    """Development aid: print the chain of constructs through which `fi` mutates the tree of `param`."""
    seen = seen if seen is not None else set()
    consts = {k: v for k, v in (consts or {}).items() if k in fi.params()}
    key = (fi.key, param, _ckey(consts))
    if key in seen or depth > maxdepth:
        return
    seen.add(key)
    cfg = ef.cfg(fi)
    fl = ef.flow(fi, consts)
    dm, ce = ef._dm(fi), ef._ce(fi)
    for node in cfg.nodes:
        facts = fl.facts(node.id)
        if facts is None:
            continue
        for x in subnodes(cfg, node):
            if id(x) in dm and param in dm[id(x)]:
                print('  ' * depth + f'{fi.key}:{x.lineno} DIRECT {norm(x, 90)}')
            if isinstance(x, ast.Call) and id(x) in ce:
                for cal, binding in ce[id(x)]:
                  for lc in ef.call_consts_all(cal, binding, fl.all_facts(node.id)):
                    for q in ef.mutated_params(cal, lc):
                        a = binding.get(q)
                        if a is not None and param in ef.expr_roots(fi, a):
                            print('  ' * depth + f'{fi.key}:{x.lineno} CALL {norm(x, 70)} -> {cal.key}({q}) consts={lc}')
                            explain_mutation(ef, cal, q, lc, depth + 1, maxdepth, seen)


def explain_raise(ef: Effects, fi: FuncInfo, consts=None, depth=0, maxdepth=3, seen=None):
    """Development aid: print the raise statements / raising calls through which `fi` can raise."""
    seen = seen if seen is not None else set()
    consts = {k: v for k, v in (consts or {}).items() if k in fi.params()}
    key = (fi.key, _ckey(consts))
    if key in seen or depth > maxdepth:
        return
    seen.add(key)
    cfg = ef.cfg(fi)
    fl = ef.flow(fi, consts)
    for n in cfg.nodes:
        disj = fl.all_facts(n.id)
        if not disj:
            continue
        if n.kind == 'stmt' and isinstance(n.ast, ast.Raise):
            if ef.is_user_raise(fi, n.ast):
                print('  ' * depth + f'{fi.key}:{n.lineno} RAISE {norm(n.ast, 100)}')
            continue
        if n.kind in ('stmt', 'test', 'iter', 'with', 'case'):
            for call, cal in ef.node_raising_calls(fi, cfg, n, (), disj):
                ccs = ef.call_consts_all(cal, [b for c, b in ef._ce(fi)[id(call)] if c is cal][0], disj)
                print('  ' * depth + f'{fi.key}:{call.lineno} CALL {norm(call, 70)} -> {cal.key} consts={ccs[:2]}')
                for cc in ccs:
                    if ef.raises(cal, cc):
                        explain_raise(ef, cal, cc, depth + 1, maxdepth, seen)
