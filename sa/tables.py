"""Shared helpers over the statically evaluated registries (grammar tables of the repo and of the stdlib `ast`)."""
from __future__ import annotations

import ast
import re

from .model import AnalysisError, walk_no_nested
from .consteval import ClassTok, FuncTok, LambdaTok, Unknown, Record


def fields(ctx) -> dict:
    """astutil.FIELDS as {ClassTok: ((field, type), ...)} (ordered)."""
    F = ctx.ev.get('astutil', 'FIELDS')
    if not isinstance(F, dict) or len(F) < 100:
        raise AnalysisError('astutil.FIELDS did not evaluate to the AST schema (>=100 classes expected)')
    for k, v in F.items():
        if not isinstance(k, ClassTok) or not isinstance(v, tuple):
            raise AnalysisError(f'astutil.FIELDS has a non class key / non tuple value: {k!r}')
    return F


def is_ast_type(t: str) -> bool:
    """Does a field of ASDL type `t` hold AST nodes (vs. primitives)?  Mirrors the *grammar*, not astutil.AST_FIELDS."""
    base = t.rstrip('?*')
    return base not in ('int', 'string', 'identifier', 'constant', 'type_ignore')


def card(t: str) -> str:
    """'list' | 'opt' | 'req' for an ASDL type string ('expr?*' is a list)."""
    if t.endswith('*'):
        return 'list'
    if t.endswith('?'):
        return 'opt'
    return 'req'


def ast_fields_of(F, cls) -> list[tuple[str, str]]:
    return [(f, t) for f, t in F[cls] if is_ast_type(t)]


# ----------------------------------------------------------------------------------------------------------------------
# stdlib grammar reference: parse the ASDL signature in ast.<cls>.__doc__

_sig_re = re.compile(r'^(\w+)\((.*)\)$', re.S)


def stdlib_signature(pyclass) -> list[tuple[str, str]] | None:
    """[(field, asdl type)] from the class docstring, e.g. 'FunctionDef(identifier name, arguments args, ...)'."""
    doc = (pyclass.__doc__ or '').strip()
    m = _sig_re.match(doc.split('\n\n')[0].replace('\n', ' '))
    if not m:
        if re.match(r'^\w+$', doc):
            return []
        return None
    out = []
    body = m.group(2).strip()
    if not body:
        return []
    for part in body.split(','):
        part = part.strip()
        t, n = part.rsplit(' ', 1)
        out.append((n, t.strip()))
    return out


# ----------------------------------------------------------------------------------------------------------------------
# reading `ast.<field>` sequences out of lambdas / small functions (parameter name is taken from the signature)

def _param0(fn_node) -> str:
    a = fn_node.args
    ps = a.posonlyargs + a.args
    if not ps:
        raise AnalysisError('function without parameter where an AST-taking function was expected')
    return ps[0].arg


def attr_reads(fn_node, param: str | None = None) -> list[tuple[str, ast.AST]]:
    """All `<param>.<attr>` and getattr(<param>, '<attr>'[, d]) reads in source order."""
    param = param or _param0(fn_node)
    out = []
    body = fn_node.body if isinstance(fn_node.body, list) else [fn_node.body]
    for st in body:
        for n in ([st] if isinstance(fn_node, ast.Lambda) else [st]):
            for x in ast.walk(n):
                if isinstance(x, ast.Attribute) and isinstance(x.value, ast.Name) and x.value.id == param:
                    out.append((x.attr, x))
                elif (isinstance(x, ast.Call) and isinstance(x.func, ast.Name) and x.func.id == 'getattr'
                      and len(x.args) >= 2 and isinstance(x.args[0], ast.Name) and x.args[0].id == param
                      and isinstance(x.args[1], ast.Constant)):
                    out.append((x.args[1].value, x))
    out.sort(key=lambda p: (p[1].lineno, p[1].col_offset))
    return out


def lambda_child_sequence(lam: ast.Lambda) -> list[tuple[str, bool]] | None:
    """Symbolically evaluate a `lambda ast: [...]` child builder to [(field, is_star)] in list order.
    Handles `[a.x, *a.y]`, `a.x.copy()`, `a.x[:]`, `[..] if (v := a.f) else [..]` (true branch).  None if not understood."""
    p = _param0(lam)
    binds = {}

    def ref(e):
        if isinstance(e, ast.Attribute) and isinstance(e.value, ast.Name) and e.value.id == p:
            return e.attr
        if isinstance(e, ast.Name) and e.id in binds:
            return binds[e.id]
        return None

    def seq(e):
        if isinstance(e, ast.IfExp):
            for x in ast.walk(e.test):
                if isinstance(x, ast.NamedExpr) and ref(x.value):
                    binds[x.target.id] = ref(x.value)
            return seq(e.body)
        if isinstance(e, ast.List):
            out = []
            for el in e.elts:
                if isinstance(el, ast.Starred):
                    r = ref(el.value)
                    if r is None:
                        return None
                    out.append((r, True))
                else:
                    r = ref(el)
                    if r is None:
                        return None
                    out.append((r, False))
            return out
        if isinstance(e, ast.Call) and isinstance(e.func, ast.Attribute) and e.func.attr == 'copy' and not e.args:
            r = ref(e.func.value)
            return [(r, True)] if r else None
        if isinstance(e, ast.Subscript) and isinstance(e.slice, ast.Slice) and ref(e.value):
            return [(ref(e.value), True)]
        return None
    return seq(lam.body)


def func_nodes(ctx, tok) -> list:
    """AST nodes (all version variants) of a function token."""
    if isinstance(tok, LambdaTok):
        return [tok.node]
    if isinstance(tok, FuncTok):
        fis = ctx.repo.mod(tok.module).func(tok.qualname)
        if not fis:
            raise AnalysisError(f'function {tok.key} referenced from a table is not defined')
        return [fi.node for fi in fis]
    raise AnalysisError(f'table value {tok!r} is not a function')


def flows_into(fn_node, sink_name: str, param: str | None = None, helpers: dict | None = None, _whole_params: bool = False, _depth: int = 0) -> set[str]:
    """Fields of <param> whose value (or an alias / slice / reversed copy / element of it) is appended / extended /
    listed into variable `sink_name`, or returned in a list display.  Flow-insensitive alias closure.  `helpers` ({name: FunctionDef} of
    plain module-level functions): a statement `helper(sink, e1, e2)` that hands the sink list to a worker contributes the arguments whose
    parameters the worker puts into that list (the interleaving written once for two classes)."""
    param = param or _param0(fn_node)
    alias: dict[str, set[str]] = {}
    own_params = {a.arg for a in fn_node.args.posonlyargs + fn_node.args.args + fn_node.args.kwonlyargs} if _whole_params else set()

    def srcs(e) -> set[str]:
        out = set()
        for x in ast.walk(e):
            if isinstance(x, ast.Attribute) and isinstance(x.value, ast.Name) and x.value.id == param and not _whole_params:
                out.add(x.attr)
            elif isinstance(x, ast.Name) and x.id in own_params and x.id != sink_name:
                out.add(x.id)
            if isinstance(x, ast.Name) and x.id in alias:
                out |= alias[x.id]
        return out

    changed = True
    while changed:
        changed = False
        for n in walk_no_nested(fn_node):
            tgts, val = [], None
            if isinstance(n, ast.Assign):
                tgts, val = n.targets, n.value
            elif isinstance(n, ast.NamedExpr):
                tgts, val = [n.target], n.value
            elif isinstance(n, ast.For):
                tgts, val = [n.target], n.iter
            elif isinstance(n, ast.AugAssign):
                tgts, val = [n.target], n.value
            elif isinstance(n, ast.comprehension):      # `... for child in (keys[i], values[i])`: the loop written as a comprehension
                tgts, val = [n.target], n.iter
            if val is None:
                continue
            s = srcs(val)
            for t in tgts:
                for nm in ast.walk(t):
                    if isinstance(nm, ast.Name):
                        if nm.id == sink_name and isinstance(n, (ast.Assign, ast.AugAssign)):
                            pass
                        old = alias.get(nm.id, set())
                        if not s <= old:
                            alias[nm.id] = old | s
                            changed = True
    out = set()
    for n in walk_no_nested(fn_node):
        if (isinstance(n, ast.Call) and isinstance(n.func, ast.Attribute) and isinstance(n.func.value, ast.Name)
                and n.func.value.id == sink_name and n.func.attr in ('append', 'extend', 'insert')):
            for a in n.args:
                out |= srcs(a)
        elif isinstance(n, (ast.Assign, ast.AugAssign)):
            tg = n.targets if isinstance(n, ast.Assign) else [n.target]
            if any(isinstance(t, ast.Name) and t.id == sink_name for t in tg):
                out |= srcs(n.value)
        elif isinstance(n, ast.Return) and isinstance(n.value, (ast.List, ast.ListComp, ast.BinOp)):
            out |= srcs(n.value)           # the sequence is built in the return expression itself, no sink variable
        if helpers and _depth < 2 and isinstance(n, ast.Call) and isinstance(n.func, ast.Name) and n.func.id in helpers and \
                not any(isinstance(a, ast.Starred) for a in n.args):
            h = helpers[n.func.id]
            hp = [a.arg for a in h.args.posonlyargs + h.args.args]
            given = dict(zip(hp, n.args))
            given.update({k.arg: k.value for k in n.keywords if k.arg})
            for sp, sv in given.items():
                if isinstance(sv, ast.Name) and sv.id == sink_name:
                    for q in flows_into(h, sp, sp, helpers, True, _depth + 1):
                        if q in given:
                            out |= srcs(given[q])
    return out


def classes_mentioned(ctx, module: str, expr: ast.AST) -> set[str]:
    """Names of the node classes an expression mentions: directly (`JoinedStr`), or through a module-level constant that evaluates to a
    collection of classes (`ASTS_LEAF_FTSTR`, a local `_KINDS = (A, B)` hoisted out of a test).  A rule about "the arm for class K" must
    not depend on whether K is spelled in the test or in a named constant."""
    out = set()
    for x in ast.walk(expr):
        if not isinstance(x, ast.Name):
            continue
        try:
            v = ctx.ev.get(module, x.id)
        except Exception:
            continue
        if isinstance(v, ClassTok):
            out.add(v.name)
        elif isinstance(v, (tuple, list, set, frozenset)):
            out |= {e.name for e in v if isinstance(e, ClassTok)}
    return out
