"""Development aid: explain effect summaries.  usage: python -m sa.dbg mut <module> <qualname> <param> [k=v ...]"""
import sys
from .model import Repo
from .callgraph import Resolver
from .effects import Effects, explain_mutation, explain_raise
from .consteval import Evaluator

def main():
    kind, mod, q, param = sys.argv[1:5]
    consts = {}
    for kv in sys.argv[5:]:
        k, v = kv.split('=')
        consts[k] = {'True': True, 'False': False, 'None': None}.get(v, int(v) if v.lstrip('-').isdigit() else v)
    r = Repo(); ev = Evaluator(r); res = Resolver(r, ev); ef = Effects(r, res)
    for fi in r.mod(mod).func(q):
        print(fi.key, 'mutated:', sorted(ef.mutated_params(fi, consts)), 'raises:', ef.raises(fi, consts))
        if kind == 'raise':
            explain_raise(ef, fi, consts, maxdepth=int(__import__('os').environ.get('DEPTH', '2')))
        if kind == 'mut':
            explain_mutation(ef, fi, param, consts, maxdepth=int(__import__('os').environ.get('DEPTH', '2')))
main()
