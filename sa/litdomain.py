"""Sentinel agreement between callers and callees (shared by C03 / C04 / C11 / C12 rules).

A private function declares the domain of a parameter in its annotation (`field: str | Literal[False]`, `stop: int | Literal['end']`,
`docstr: bool | Literal['strict']`) and tells the members apart by identity / equality tests (`field is False`, `stop == 'end'`).  A call
site that passes a literal outside the declared domain which has the *same truthiness* as a member the callee singles out by such a test
(`None` for `False`, `'END'` for `'end'`, `0` for `None`) silently takes the other arm: the request is served as a different request.
The rule is a type-level check of literal arguments only; it never evaluates anything.

What is followed: the literal itself, the arms of a conditional expression, a local name with a single assignment of such a value;
on the callee side the parameter itself, a parameter forwarded unchanged to another private callee (three levels), and a parameter packed
by `__init__` into a tuple attribute (`self._params = a, b, c`) and unpacked positionally in a sibling method.
"""
from __future__ import annotations

import ast
import collections

from .model import norm, call_name, walk_no_nested

PRIM = {'str', 'int', 'bool', 'float', 'bytes', 'None', 'NoneType'}


def domain(ann):
    """Set of ('type', name) / ('lit', typename, value) members, or None when the annotation is not fully primitive."""
    if ann is None:
        return None
    if isinstance(ann, ast.Constant) and isinstance(ann.value, str):
        try:
            ann = ast.parse(ann.value, mode='eval').body
        except SyntaxError:
            return None
    if isinstance(ann, ast.BinOp) and isinstance(ann.op, ast.BitOr):
        a, b = domain(ann.left), domain(ann.right)
        return None if a is None or b is None else a | b
    if isinstance(ann, ast.Constant) and ann.value is None:
        return {('type', 'None')}
    if isinstance(ann, ast.Name):
        return {('type', ann.id)} if ann.id in PRIM else None
    if isinstance(ann, ast.Subscript) and norm(ann.value) in ('Literal', 'typing.Literal'):
        el = ann.slice.elts if isinstance(ann.slice, ast.Tuple) else [ann.slice]
        out = set()
        for e in el:
            if not isinstance(e, ast.Constant):
                return None
            out.add(('lit', type(e.value).__name__, e.value))
        return out
    if isinstance(ann, ast.Subscript) and norm(ann.value) in ('Optional', 'typing.Optional'):
        a = domain(ann.slice)
        return None if a is None else a | {('type', 'None')}
    return None


def in_domain(v, d) -> bool:
    t = 'None' if v is None else type(v).__name__
    for x in d:
        if x[0] == 'type':
            if x[1] == t or (x[1] == 'NoneType' and t == 'None'):
                return True
            if x[1] == 'int' and t == 'bool':
                return True
            if x[1] == 'float' and t in ('int', 'bool'):
                return True
        elif x[1] == t and x[2] == v:
            return True
    return False


class Index:
    def __init__(self, repo, ev=None):
        self.repo = repo
        self.ev = ev
        self.byname = collections.defaultdict(list)
        self.ctors = collections.defaultdict(list)
        self.methods = collections.defaultdict(list)        # class qualname -> [FuncInfo]
        for fi in repo.all_funcs():
            if isinstance(fi.node, ast.Lambda):
                continue
            self.byname[fi.name].append(fi)
            if '.' in fi.qualname and '<locals>' not in fi.qualname:
                cls = fi.qualname.rsplit('.', 1)[0]
                self.methods[(fi.module, cls)].append(fi)
                if fi.name == '__init__':
                    self.ctors[cls.split('.')[-1]].append(fi)

    def callees(self, call):
        """[(FuncInfo, bound)] candidates of a call to a private function / method / class of the package; bound = first parameter is
        supplied by the receiver."""
        nm = call_name(call)
        if not nm:
            return []
        if nm in self.ctors:
            return [(fi, True) for fi in self.ctors[nm]]
        if nm.startswith('_') and not nm.startswith('__') and nm in self.byname:
            method = isinstance(call.func, ast.Attribute)
            return [(fi, method) for fi in self.byname[nm]]
        return []

    def forward_targets(self, call, fn_node, module):
        """Callees a parameter can be forwarded to: the private ones, a module-level function of the package called by its bare name, and
        the rows of a dispatch table when the called local was bound from `<TABLE>.get(...)` / `<TABLE>[...]`."""
        out = self.callees(call)
        if out:
            return out
        if isinstance(call.func, ast.Name):
            nm = call.func.id
            cands = [fi for fi in self.byname.get(nm, []) if '.' not in fi.qualname]
            if len(cands) == 1:
                return [(cands[0], False)]
            if self.ev is not None:
                for x in ast.walk(fn_node):
                    tgt = val = None
                    if isinstance(x, ast.NamedExpr):
                        tgt, val = x.target, x.value
                    elif isinstance(x, ast.Assign) and len(x.targets) == 1:
                        tgt, val = x.targets[0], x.value
                    if not (isinstance(tgt, ast.Name) and tgt.id == nm):
                        continue
                    tab = None
                    if isinstance(val, ast.Call) and isinstance(val.func, ast.Attribute) and val.func.attr == 'get' and isinstance(val.func.value, ast.Name):
                        tab = val.func.value.id
                    elif isinstance(val, ast.Subscript) and isinstance(val.value, ast.Name):
                        tab = val.value.id
                    if tab is None:
                        continue
                    try:
                        table = self.ev.get(module, tab)
                    except Exception:
                        continue
                    from .consteval import FuncTok
                    seen = set()
                    for v in (table.values() if isinstance(table, dict) else []):
                        for tok in (v if isinstance(v, (tuple, list)) else [v]):
                            if isinstance(tok, FuncTok) and tok.key not in seen:
                                seen.add(tok.key)
                                out += [(fi, False) for fi in self.repo.mod(tok.module).func(tok.qualname)]
        return out


def bind(call, fi, bound):
    """[(param ast.arg, argument expression)] of a call against one candidate signature."""
    a = fi.node.args
    params = list(a.posonlyargs) + list(a.args)
    if bound and params and params[0].arg in ('self', 'cls'):
        params = params[1:]
    pmap = {p.arg: p for p in params + list(a.kwonlyargs)}
    out = []
    for i, x in enumerate(call.args):
        if isinstance(x, ast.Starred):
            break
        if i < len(params):
            out.append((params[i], x))
    for k in call.keywords:
        if k.arg in pmap:
            out.append((pmap[k.arg], k.value))
    return out


def literal_values(expr, caller_node):
    """[(value, where)] the literal values an argument expression can take, [] when it is not literal-valued."""
    def consts(e):
        if isinstance(e, ast.Constant):
            return [e.value]
        if isinstance(e, ast.IfExp):
            return consts(e.body) + consts(e.orelse)
        return []
    if isinstance(expr, ast.Name) and caller_node is not None:
        asg = []
        for x in walk_no_nested(caller_node):
            if isinstance(x, (ast.Assign, ast.AnnAssign, ast.AugAssign, ast.NamedExpr, ast.For, ast.comprehension, ast.With)):
                for t in ast.walk(x.targets[0] if isinstance(x, ast.Assign) and len(x.targets) == 1 else
                                  ast.Tuple(elts=list(x.targets)) if isinstance(x, ast.Assign) else
                                  x.target if hasattr(x, 'target') else
                                  ast.Tuple(elts=[i.optional_vars for i in x.items if i.optional_vars is not None])):
                    if isinstance(t, ast.Name) and t.id == expr.id:
                        asg.append(x)
        params = {p.arg for p in caller_node.args.posonlyargs + caller_node.args.args + caller_node.args.kwonlyargs} | \
            ({caller_node.args.vararg.arg} if caller_node.args.vararg else set()) | ({caller_node.args.kwarg.arg} if caller_node.args.kwarg else set())
        if expr.id in params or len(asg) != 1:
            return []
        x = asg[0]
        if isinstance(x, ast.Assign) and len(x.targets) == 1 and isinstance(x.targets[0], ast.Name):
            return consts(x.value)
        return []
    return consts(expr)


def _tests_on(fn_node, name):
    """Constants the function compares the local `name` with by identity / equality / membership."""
    out = []
    for x in walk_no_nested(fn_node):
        if isinstance(x, ast.Compare) and len(x.ops) == 1:
            l, r, op = x.left, x.comparators[0], x.ops[0]
            if isinstance(op, (ast.Is, ast.IsNot, ast.Eq, ast.NotEq)):
                for a, b in ((l, r), (r, l)):
                    if isinstance(a, ast.Name) and a.id == name and isinstance(b, ast.Constant):
                        out.append((b.value, x.lineno))
            elif isinstance(op, (ast.In, ast.NotIn)) and isinstance(l, ast.Name) and l.id == name and isinstance(r, (ast.Tuple, ast.List, ast.Set)):
                out += [(e.value, x.lineno) for e in r.elts if isinstance(e, ast.Constant)]
    return out


def discriminating_tests(index: Index, fi, pname, depth=0, seen=None):
    """[(constant, module, qualname, line)] identity / equality tests the callee (or what it forwards the parameter to) applies."""
    seen = seen if seen is not None else set()
    if (fi.key, pname) in seen or depth > 3:
        return []
    seen.add((fi.key, pname))
    out = [(c, fi.module, fi.qualname, ln) for c, ln in _tests_on(fi.node, pname)]
    reassigned = any(isinstance(t, ast.Name) and t.id == pname and isinstance(t.ctx, ast.Store) for t in ast.walk(fi.node))
    if reassigned:
        return out
    for x in walk_no_nested(fi.node):
        # forwarded unchanged to another private callee
        if isinstance(x, ast.Call):
            for cand, bound in index.forward_targets(x, fi.node, fi.module):
                for p, a in bind(x, cand, bound):
                    if isinstance(a, ast.Name) and a.id == pname:
                        out += discriminating_tests(index, cand, p.arg, depth + 1, seen)
        # packed into a tuple attribute by a method, unpacked positionally by a sibling method
        if isinstance(x, ast.Assign) and len(x.targets) == 1 and isinstance(x.targets[0], ast.Attribute) and norm(x.targets[0].value) == 'self' and \
                isinstance(x.value, ast.Tuple) and '.' in fi.qualname:
            pos = [i for i, e in enumerate(x.value.elts) if isinstance(e, ast.Name) and e.id == pname]
            if not pos:
                continue
            attr, n = x.targets[0].attr, len(x.value.elts)
            cls = fi.qualname.rsplit('.', 1)[0]
            for sib in index.methods.get((fi.module, cls), []):
                for y in walk_no_nested(sib.node):
                    if isinstance(y, ast.Assign) and len(y.targets) == 1 and isinstance(y.targets[0], ast.Tuple) and len(y.targets[0].elts) == n and \
                            isinstance(y.value, ast.Attribute) and y.value.attr == attr and norm(y.value.value) == 'self':
                        t = y.targets[0].elts[pos[0]]
                        if isinstance(t, ast.Name) and t.id != '_':
                            out += [(c, sib.module, sib.qualname, ln) for c, ln in _tests_on(sib.node, t.id)]
    return out


def confusable(v, d, tests):
    """A test constant of the declared domain that `v` (outside the domain) is taken for or against by truthiness alone."""
    for c, mod, q, ln in tests:
        if in_domain(c, d) and bool(c) == bool(v) and (c is not v) and not (type(c) is type(v) and c == v):
            return c, mod, q, ln
    return None


def check(ctx, rule, select, min_instances):
    """Run the rule for the (callee, parameter) pairs `select(fi, param_name, annotation_text)` accepts."""
    index = Index(ctx.repo, ctx.ev)
    n = 0
    for fi in ctx.repo.all_funcs():
        caller = fi.node if not isinstance(fi.node, ast.Lambda) else None
        for c in ast.walk(fi.node) if caller is None else walk_no_nested(fi.node):
            if not isinstance(c, ast.Call):
                continue
            for cand, bound in index.callees(c):
                for p, a in bind(c, cand, bound):
                    if p.annotation is None:
                        continue
                    d = domain(p.annotation)
                    if d is None or not select(cand, p.arg, norm(p.annotation, 300)):
                        continue
                    n += 1
                    vals = literal_values(a, caller)
                    bad = None
                    for v in vals:
                        if in_domain(v, d):
                            continue
                        hit = confusable(v, d, discriminating_tests(index, cand, p.arg))
                        if hit:
                            bad = (v, hit)
                            break
                    ctx.check(rule, bad is None, fi.module, fi.qualname, f'{cand.qualname}({p.arg}={norm(a, 50)})',
                              (f'`{cand.qualname}` declares `{p.arg}: {norm(p.annotation, 80)}` and singles out `{bad[1][0]!r}` by an identity / equality '
                               f'test ({bad[1][1]}.{bad[1][2]} line {bad[1][3]}); this call passes `{bad[0]!r}`, which is outside the declared domain and has '
                               f'the same truthiness: the callee takes the other arm and serves a different request') if bad else '',
                              c.lineno, sample={'caller': fi.key, 'callee': cand.key, 'param': p.arg, 'domain': norm(p.annotation, 120)})
    if n < min_instances:
        from .model import AnalysisError
        raise AnalysisError(f'{rule}: only {n} call sites with a declared sentinel domain found (expected at least {min_instances})')
    return n
