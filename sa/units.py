"""Byte / character unit inference for column expressions (DESIGN R6.1).

AST columns (`col_offset`, `end_col_offset`) are UTF-8 *byte* offsets; fstloc columns (`col`, `end_col`, `bcol`, ...), string
indices, regex positions and `len(str)` are *character* counts.  The two coincide on ASCII text only, so a mix-up survives
every ASCII-only golden test.  Units: 'B' byte, 'C' char, None unknown / unit-polymorphic (literals, ASCII literal lengths).
"""
from __future__ import annotations

import ast
import re

from .model import FuncInfo, walk_no_nested, call_name, norm

BYTE_ATTRS = {'col_offset', 'end_col_offset', 'lenbytes'}
CHAR_ATTRS = {'col', 'end_col', 'bcol', 'bend_col'}
BYTE_NAME = re.compile(r'(^|_)(d?col_offset|end_col_offset)$|^dcol_offset$|_col_offset$|^col_offset$|^lenbytes$|_lenbytes$')
CHAR_NAME = re.compile(r'^(b?(end_)?col|[a-z0-9_]*_col|c?col\d?|end_col|ccol|col_[a-z]+)$')


def name_unit(name: str):
    if BYTE_NAME.search(name):
        return 'B'
    if CHAR_NAME.match(name) and 'offset' not in name and 'delta' not in name and 'diff' not in name:
        return 'C'          # (a difference carries the unit of what was subtracted, whatever it is called: left to inference)
    return None


def sign_coded_params(fn) -> set:
    """Parameters the function itself declares to be of either unit: it dispatches on their sign (`col <= 0`) and uses the negated value
    (`-col`) in one arm — fst_core._offset takes a character column when positive and a byte offset when negative."""
    if isinstance(fn, ast.Lambda):
        return set()
    out = set()
    ps = {a.arg for a in fn.args.posonlyargs + fn.args.args + fn.args.kwonlyargs}
    for x in ast.walk(fn):
        if isinstance(x, ast.Compare) and len(x.ops) == 1 and isinstance(x.ops[0], (ast.Lt, ast.LtE, ast.Gt, ast.GtE)) and \
                isinstance(x.left, ast.Name) and x.left.id in ps and isinstance(x.comparators[0], ast.Constant) and x.comparators[0].value == 0:
            if any(isinstance(y, ast.UnaryOp) and isinstance(y.op, ast.USub) and isinstance(y.operand, ast.Name) and y.operand.id == x.left.id
                   for y in ast.walk(fn)):
                out.add(x.left.id)
    return out


def is_ascii_literal(e) -> bool:
    return isinstance(e, ast.Constant) and isinstance(e.value, str) and e.value.isascii()


class Units:
    def __init__(self, fi: FuncInfo):
        self.fi = fi
        self.fn = fi.node
        self.var: dict[str, str | None] = {}
        self._infer_vars()

    # ------------------------------------------------------------------------------------------------------------------
    def _infer_vars(self):
        """Unit of local names: by naming convention first; otherwise from their assignments when those agree."""
        cands: dict[str, set] = {}
        dual = sign_coded_params(self.fn)
        for p in self.fi.params():
            u = name_unit(p)
            if u and p not in dual:
                self.var[p] = u
        self.dual = dual
        for _ in range(3):
            for n in walk_no_nested(self.fn):
                pairs = []
                if isinstance(n, ast.Assign):
                    for t in n.targets:
                        pairs.append((t, n.value))
                elif isinstance(n, ast.AnnAssign) and n.value is not None:
                    pairs.append((n.target, n.value))
                elif isinstance(n, ast.NamedExpr):
                    pairs.append((n.target, n.value))
                for t, v in pairs:
                    if isinstance(t, ast.Name):
                        if name_unit(t.id):
                            self.var[t.id] = name_unit(t.id)
                            continue
                        u = self.unit(v)
                        cands.setdefault(t.id, set()).add(u)
                    elif isinstance(t, (ast.Tuple, ast.List)):
                        for e in t.elts:
                            if isinstance(e, ast.Name) and name_unit(e.id):
                                self.var[e.id] = name_unit(e.id)
            for k, us in cands.items():
                if k not in self.var or not name_unit(k):
                    us2 = {u for u in us}
                    self.var[k] = next(iter(us2)) if len(us2) == 1 else None

    def unit(self, e):
        """Unit of an integer-valued expression, or None."""
        if isinstance(e, ast.Constant):
            return None
        if isinstance(e, ast.Name):
            if e.id in getattr(self, 'dual', ()):
                return None          # the function itself dispatches on the sign of this parameter: characters or (negated) bytes
            if e.id in self.var:
                return self.var[e.id]
            return name_unit(e.id)
        if isinstance(e, ast.NamedExpr):
            return name_unit(e.target.id) if isinstance(e.target, ast.Name) and name_unit(e.target.id) else self.unit(e.value)
        if isinstance(e, ast.Attribute):
            if e.attr in BYTE_ATTRS:
                return 'B'
            if e.attr in CHAR_ATTRS:
                return 'C'
            return None
        if isinstance(e, ast.Call):
            cn = call_name(e)
            if cn == 'c2b':
                return 'B'
            if cn == 'b2c':
                return 'C'
            if cn == 'len' and e.args:
                a = e.args[0]
                if is_ascii_literal(a):
                    return None
                txt = norm(a, 200)
                if '.encode(' in txt and not txt.rstrip().endswith('.decode()'):
                    return 'B'
                if isinstance(a, ast.Call) and call_name(a) == 'decode':
                    return 'C'
                # length of a line / source string / regex group: characters
                if isinstance(a, (ast.Name, ast.Subscript, ast.Attribute, ast.Call, ast.JoinedStr, ast.BinOp)):
                    if self._is_text(a):
                        return 'C'
                return None
            if cn in ('start', 'end') and isinstance(e.func, ast.Attribute) and isinstance(e.func.value, ast.Name) and \
                    (e.func.value.id == 'm' or e.func.value.id.startswith('m_') or e.func.value.id.endswith('match')):
                return 'C'
            if cn in ('min', 'max') and e.args:
                us = {self.unit(a) for a in e.args} - {None}
                return next(iter(us)) if len(us) == 1 else None
            return None
        if isinstance(e, ast.BinOp) and isinstance(e.op, (ast.Add, ast.Sub)):
            l, r = self.unit(e.left), self.unit(e.right)
            if l and r:
                if l == r:
                    # a difference of two like quantities is a length in that unit; fine
                    return l
                return 'MIX'
            return l or r
        if isinstance(e, ast.IfExp):
            us = {self.unit(e.body), self.unit(e.orelse)} - {None}
            return next(iter(us)) if len(us) == 1 else ('MIX' if len(us) > 1 else None)
        if isinstance(e, ast.BoolOp):
            us = {self.unit(v) for v in e.values} - {None}
            return next(iter(us)) if len(us) == 1 else None
        if isinstance(e, ast.UnaryOp):
            return self.unit(e.operand)
        return None

    IDENT_ATTRS = {'id', 'name', 'arg', 'attr', 'asname', 'rest', 'module', 'src'}

    def _text_vars(self):
        """Locals bound from an identifier-typed AST field or from source text (identifiers may be non-ASCII)."""
        tv = getattr(self, '_tv', None)
        if tv is None:
            tv = set()
            for n in walk_no_nested(self.fn):
                pairs = []
                if isinstance(n, ast.Assign):
                    pairs = [(t, n.value) for t in n.targets]
                elif isinstance(n, ast.NamedExpr):
                    pairs = [(n.target, n.value)]
                for t, v in pairs:
                    if isinstance(t, ast.Name) and isinstance(v, ast.Attribute) and v.attr in self.IDENT_ATTRS:
                        tv.add(t.id)
            for p in self.fi.params():
                if p in ('src', 'text', 'line', 'source'):
                    tv.add(p)
            self._tv = tv
        return tv

    def _is_text(self, a) -> bool:
        """Does expression `a` denote source text (a line, a slice of a line, a string built from them)?"""
        if isinstance(a, ast.Name) and a.id in self._text_vars():
            return True
        if isinstance(a, ast.Attribute) and a.attr in self.IDENT_ATTRS:
            return True
        if isinstance(a, ast.Name):
            # NOT prefix / suffix / sep / indent / quotes: delimiters, separators and indentation are ASCII, their length is unit-free
            return a.id in ('l', 'line', 'src', 'text', 's', 'lend', 'first', 'last_line') or \
                a.id.endswith('_line') or a.id.endswith('_src') or a.id.startswith('line')
        if isinstance(a, ast.Subscript):
            v = a.value
            if isinstance(v, ast.Name) and (v.id in ('lines', 'ls', 'put_lines', 'fst_lines', 'new_lines', 'copy_lines') or v.id.endswith('lines')):
                return True
            if isinstance(v, ast.Attribute) and v.attr in ('_lines', 'lines'):
                return True
            if isinstance(a.slice, ast.Slice):
                return self._is_text(v)
            return False
        if isinstance(a, ast.Call):
            cn = call_name(a)
            if cn in ('group', 'rstrip', 'lstrip', 'strip', 'decode', '_get_src', 'get_src', 'join'):
                return True
        return False
